# one claim() per property with a built and self-tested check
claim("C04", "path enumeration over LLVM IR + finite-set evaluation of the reservation test + cyclic-index entailment (Fourier-Motzkin)",
      "other",
      "Decides the protocol-shape clauses of C04 on every path of every function touching messageq_t, in both atomics builds: atomic-only / RMW-only shared state, reservation pairing, representability of the optimistic counter's transient, CAS hand-out and successor, one-bit OR / AND-NOT flag protocol, single-owner receivep. Each clause is a necessary condition with a concrete failing interleaving when broken. Interleavings themselves cannot be enumerated by static analysis; the clauses are what is visible in the shape of the code.",
      "Does NOT decide linearizability, claim-order delivery or the quiescent free count over all interleavings. Trusted: clang 14 front end, ir2json, the path enumerator's no-alias assumption between different roots, queue_len in [1,255].",
      "DESIGN.md section 2 C04")
claim("C05", "path enumeration over LLVM IR + cyclic-index model symbolic in buf_len (linear forms, Fourier-Motzkin entailment, bounded concrete refutation)",
      "other",
      "Decides, for every buf_len >= 2 at once and on every path of every function touching ringbuf_t in both atomics builds: publication order and release/acquire strength, single writer per index, index and subscript range, full/empty predicates with the wrapped successor, unsigned byte delivery. Necessary conditions of C05, each with a concrete failing schedule or input when broken.",
      "Does NOT decide exactly-once in-order delivery over all interleavings. Trusted: clang 14 front end, ir2json, no-alias assumption between descriptor and byte array, buf_len <= 2^31.",
      "DESIGN.md section 2 C05")
claim("C07", "derived atomicity table + role-based release/acquire strength + hand-off order on all paths (LLVM IR, both atomics builds) + fallback-macro witness TU + cross-build agreement",
      "other",
      "A static happens-before argument: (R1) every access to an _Atomic field is atomic in both builds, (R2) the atomics through which plain data changes owner are release/acquire or stronger, (R3) plain accesses to handed-off locations (ring bytes, atomic run-queue slots, receivep) lie on the correct side of those atomics on every path, (R4) each atomic.h fallback macro lowers to the C11 operation of its name, (R5) both builds perform the same atomic operations. Given R1-R3 every conflicting pair of plain accesses inside the library is ordered through one atomic object. This is the property's own content (happens-before from the memory-order argument of every atomic operation), decided for all executions at once rather than for explored ones.",
      "The ThreadSanitizer clause of the quantifier is a different technique and is not performed. Client code outside the analysed units (librfn/libopencm3, user payload writes between claim and send) is not covered. Trusted: clang 14 front end, ir2json, path enumerator.",
      "DESIGN.md section 2 C07")
claim("C10", "sibling-agreement of initialisers (witness TU vs function, symbolic field maps) + cyclic-index entailment + expression-shape checks of addressing and its inverse (LLVM IR)",
      "other",
      "Decides for every geometry at once (symbolic basep, base_len, msg_len): the static initialiser and messageq_init assign every field the same expression with depth = floor(base_len/msg_len); send- and receive-side advances are the wrapped successor modulo queue_len; claim/receive address basep + index*msg_len without narrowing and send applies the exact inverse without narrowing; one 32-bit flag bit per slot with empty() testing the bit receive() tests; the library never dereferences the caller's message memory. Necessary conditions of C10.",
      "Does NOT decide FIFO order over all sequential operation histories. Trusted: clang 14 front end, ir2json, path enumerator; queue_len in [1,255].",
      "DESIGN.md section 2 C10")
claim("C12", "per-path symbolic analysis of every pack/unpack function (cursor/guard/access offsets) + ByteLane abstract domain for byte order",
      "proof",
      "For every implemented function of pack.c, on every path and for every buffer size at once: single advance by the item size before the test (sticky, always counted), guard exactly `advanced cursor <= endp`, all accesses inside the item on fitting paths and none otherwise, zero / zero-fill / NULL-skip failure results, byte order decided lane by lane. All obligations must be discharged; each is a statement about all inputs of that function.",
      "Scope limit is the property's own: requested bytes below 2^31. Trusted: clang 14 front end, ir2json, path enumerator (no aliasing between the rf_pack_t and the buffers), ByteLane transfer functions.",
      "DESIGN.md section 2 C12")
claim("C13", "wire-grammar extraction and sibling agreement of encoder vs decoder (per guarded path) + constant/polynomial propagation of the initialiser's abstract post-state through the encoder grammar and validate",
      "other",
      "Decides for every (format, rate, channels, frames) at once: encoder and decoder walk the same fields/widths/guards; rf_wavheader_init writes every field; the stored RIFF size equals the bytes the encoder emits for that format; block_align/byte_rate/bits_per_sample/audio_format and the set_num_frames updates are the stated polynomials; validate accepts the initialised header; every field that can be non-zero is transferred (round-trip identity).",
      "Byte-exact re-encoding of every accepted byte string is decided only up to walk agreement (same fields, widths, guards). Relies on C12 for the behaviour of rf_(un)pack_*. Trusted: clang 14 front end, ir2json, path enumerator with the stated call-effect table for pack functions.",
      "DESIGN.md section 2 C13")
claim("C14", "taint/guard analysis of the decoder over LLVM IR (who-may-touch the raw input and the cursor object, bounded-before-use of input-derived lengths, guarded divisions) + re-use of the C12 cursor obligations",
      "other",
      "Decides on every path: the input pointer reaches only rf_pack_init and the cursor object is opaque to the decoder; the cursor is sticky and guarded (so truncation cannot yield success); success returns the consumed count taken after the last item and the shortest successful walk equals RF_WAVHEADER_MIN_SIZE; every input-derived length is bounded before it advances the cursor; validate/get_format/tostring have no loop, total switches and zero-guarded divisions.",
      "Agreement with an independent reference parser on all byte strings is NOT decided. Relies on C12 for the memory safety of rf_(un)pack_*; libc formatter assumed safe. Trusted: clang 14 front end, ir2json, path enumerator with the stated call-effect table.",
      "DESIGN.md section 2 C14")
claim("C17", "abstract interpretation of the IR expression in Interval x exact linear forms with quotient/remainder atoms; congruence by Gaussian elimination over Z_p; witness by modular inverse on refutation",
      "proof",
      "Proves for all 2^31-2 valid states at once: no machine-width wrap, result congruent to 16807*seed modulo 2^31-1, result within [0,p] on every path (hence [1,p-1] by the primality lemma), stored state == returned value. No state is enumerated; a failed obligation is turned into a concrete seed through the modular inverse of 16807.",
      "Trusted: the lemma (p prime, re-checked arithmetically; p does not divide 16807), clang 14 front end, ir2json, the domain's transfer functions.",
      "DESIGN.md section 2 C17")
claim("C20", "constant/congruence analysis of mlog.c over LLVM IR: residue subscripts, fold arithmetic, reader predicate and slot formula by linear entailment (Fourier-Motzkin) and residues mod N",
      "proof",
      "Proves for every counter value: subscripts in bounds; vmlog writes slot head mod N with fmt + 3 arguments then increments; the fold preserves the slot residue, keeps the log wrapped and head below 2^31; get_line is NULL exactly on n >= head or n >= N and otherwise addresses slot (n + [head >= N]*head) mod N; mlog_nice logs exactly while head < N; mlog_get_line/mlog_dump format the lines get_line yields in order. With the arithmetic lemma (in the check's docstring and evidence) this gives 'line k is message n-min(n,N)+k', including across the 2^31 fold.",
      "The libc formatter's text is not decided. An mlog_dump that enumerates lines other than by get_line(0),get_line(1),.. is reported inconclusive (exit 2), not decided. Trusted: clang 14 front end, ir2json, path enumerator, lin.py.",
      "DESIGN.md section 2 C20")
claim("C19", "finite-set evaluation of the decoder's IR over all 16 (last_state, state) pairs; latch value checked against floor division on boundary counter values",
      "other",
      "Decides the transition table (+1 clockwise, -1 anticlockwise, 0 otherwise, for every pair, hence from every decoder state), the state update and the latch (count := floor(internal_count/4) exactly at the detent state, after the update), and rotenc_count. These determine the internal position and rotenc_count for every signal sequence.",
      "The rotenc_count14 clause ('at all times the same latched position modulo 2^14') is NOT decided by this check: it relates a live counter to a latched byte through carries and needs reachable-state reasoning (by inspection it fails next to multiples of 256 clicks, DESIGN.md O1). Trusted: clang 14 front end, ir2json, path enumerator, concrete expression evaluator.",
      "DESIGN.md section 2 C19")
claim("C18", "edge-sensitive typestate dataflow over the CFG (string-cursor NUL-safety) + finite-set evaluation of the digit maps + bounded-unrolling structural check of the dump loops",
      "other",
      "Decides for every NUL-terminated string: every byte load, scan start and handed-back cursor of hex_get_byte lies inside the string on every path; -1 is returned only with *p == NULL and success stores the cursor just past the pair and returns 16*nibble|nibble (values 0..255); hexchar/nibble are the stated maps on their whole domains and invert each other (so parse(dump(b)) = b per byte); the dumper prints high then low nibble of consecutive bytes, at most 16 pairs per line with a final newline, returns the size, and has no early return with bytes remaining on any path with at most two iterations per loop.",
      "Termination after finitely many calls is not decided beyond 'each call stores an advanced cursor or NULL'. The dumper's 'nothing remains' clause is bounded (two iterations per loop), not inductive. Assumes glibc ctype tables give NUL no class bit. Trusted: clang 14 front end, ir2json, the dataflow's evidence decoders.",
      "DESIGN.md section 2 C18")
claim("C16", "abstract interpretation of the LLVM IR in a canonical BDD bit-vector domain (exact path conditions, canonical equality with the specification vector) + compile-time _Static_assert witness batch for the macros",
      "proof",
      "Proves bitcnt, clz, ctz on all 2^32 arguments and ilog2 on all x > 0, and const_pop / const_lssb applied to run-time 64-bit and 32-bit values on all 2^64 / 2^32 arguments, by equality of canonical Boolean-function vectors; a mismatch yields the witness argument. The macros as integer constant expressions are additionally evaluated by the compiler's constant folder on all one-bit, two-bit and contiguous-mask constants plus seeded pseudo-random ones.",
      "Compile-time use of the macros on ALL 2^64 constants is covered only through the run-time proof plus the assumption that clang's constant folder and run-time semantics agree on + >> & ?: over uint64_t. Trusted: clang 14 front end, ir2json, bdd.py/bvexec.py.",
      "DESIGN.md section 2 C16")
claim("C15", "loop-free segment analysis of console.c over LLVM IR (guards on cursor stores, cursor update forms, NUL-suffix invariant, inductive argc invariant by linear entailment, GEP array-bound steps, dominance of the table-full test, call-order on dispatch segments), both CONFIG_NO_FIBRE settings",
      "other",
      "Decides the memory-safety and protocol clauses of C15 for every character stream: the line cursor never leaves the line buffer and buf[79] stays NUL; the line is NUL-terminated at the cursor when tokenised (backspace/abort included); argc/argv stay in bounds (inductive invariant); constant subscripts stay inside their arrays; registration changes nothing when the table is full, scans stop at the NULL sentinel, lookup is an exact match; tokenise -> find -> spawn -> prompt order; all three delivery routes feed the same ring before waking/running the console.",
      "What the tokeniser yields for every stream (quoting and splitting semantics) is NOT decided. LP64 layout only. The command table's sentinel is a data invariant that is assumed. Trusted: clang 14 front end, ir2json, segment enumerator.",
      "DESIGN.md section 2 C15")
claim("C01", "who-may-call rules with resolved queue arguments, membership typestate at queue insertions, call-order on all paths of the scheduler pass, per-state effect check, guard-set extraction, call-graph re-entrancy check (LLVM IR of all library units)",
      "other",
      "Decides the code-shape clauses of C01 on every path: one dispatch per pass; FIFO discipline of the run queue and sorted-only insertion into the timer queue; evidence at every insertion that the fibre is on neither queue (so reasons coalesce and nodes are never doubly linked); drain -> re-queue/reset -> expire -> pop -> dispatch order; reset exactly on exit/fail and re-queue exactly on yield; the four fast-path guards; fibre_self/current; fibre_kill's drain, removals and result; arrival order of drained requests; plus the expiry predicate and timer order of C02.",
      "Equality with the FIFO model over all histories is NOT decided (it also needs list.c to be a sequence, C09). One listed exception in the membership rule (fibre_timeout, covered by the property's own scope). Trusted: clang 14 front end, ir2json, path/segment enumerator, call-effect table for list/messageq predicates.",
      "DESIGN.md section 2 C01")
claim("C02", "type-like dataflow of time values over path expressions (no ordered comparison of times, signed differences only) + extraction of the difference functions, expiry predicates and comparator tests",
      "other",
      "Decides that every comparison of times in fibre.c/util.c/list.c/fibre_posix.c is a signed cyclic difference (so behaviour is translation-invariant, hence identical across the 32-bit wrap), that fibre_timeout and handle_timerq expire exactly on (due - now) <= 0, that the timer queue is inserted into sorted and stably, and (via C01's membership rules) that running or killing a fibre cancels its pending timeout.",
      "The history-level statement (runnable in the first pass with t at or after d) is NOT decided. Scope: due times within 2^31 ticks. Trusted as for C01.",
      "DESIGN.md section 2 C02")
claim("C03", "path analysis of the returned expression and its dominating emptiness guards; constant from fibre.h via a witness TU",
      "other",
      "Decides on every path: the returned value is now, the timer head's due time or now + FIBRE_UNBOUNDED_SLEEP (< 2^31); a value later than now is returned only with the atomic queue and the run queue empty (and the timer queue empty for the unbounded case); those tests are made after the dispatch and are the last thing the pass does; the timer head is the earliest due time (C02 T2/T4); the POSIX main loop sleeps on a cyclic difference.",
      "Interrupt timing beyond 'the emptiness tests are the final step' is NOT decided (see C06). Trusted as for C01.",
      "DESIGN.md section 2 C03")
claim("C06", "effect analysis over the call graph (who-may-touch the scheduler's main-context state from the interrupt-callable closure) + publish-before-wake / drain-before-touch ordering on all paths + re-use of C04/C07/C01/C03 rules",
      "other",
      "Decides: the interrupt-callable closure never touches the scheduler lists, current or state; fibre_run_atomic publishes before reporting success and fibre_eventq_send always wakes after publishing; the main-context entry points drain before touching a list; the drain is complete and reads slots before releasing them; the message-queue flag protocol cannot erase a send; the fast path and the wake-up time both account for the atomic queue.",
      "Absence of lost or duplicated wake-ups under every placement of interrupts is NOT decided (interleavings cannot be enumerated statically); these are necessary conditions with a concrete failing placement when broken. Trusted as for C01.",
      "DESIGN.md section 2 C06")
claim("C09", "per-path structural rules over list.c's IR (clear-on-unlink, tail on end-insertion, tail on removal, comparator polarity, iterator coherence)",
      "other",
      "Decides necessary structural clauses of the sequence behaviour on every path of every list function: an unlinked node's next is cleared; a node stored where the chain ends (or where emptiness was not tested) becomes the tail; removal through an iterator fixes the tail; sorted insertion is stable; list_iterate/next/contains/remove keep the iterator on the documented element, also on a miss. Each has a concrete failing operation sequence when broken.",
      "Equality with an abstract sequence after arbitrary operation histories is a heap-shape property and is NOT decided (no shape analysis is attempted); behaviour of iterators used past the end is not decided. Trusted: clang 14 front end, ir2json, path/segment enumerator.",
      "DESIGN.md section 2 C09")
claim("C11", "loop-free segment analysis of bintree.c's IR: pairing rules (thread/un-thread, tag/untag with the exact mask), return-moment and dealloc/patch/advance ordering",
      "other",
      "Decides the pairing and discipline clauses of the four mechanisms the property anchors: Morris threads are created only over NULL links and removed wherever found, with the node returned at the documented moment; the post-order tag is exactly bit 0 and is stripped with exactly ~1 everywhere and restored before the node is returned; bintree_free never touches a node after deallocating it, patches the parent's link before advancing the iterator, and the iterator records the parent and forgets the root; free_left/right clear the link after freeing. bintree.c is not built by the test suite, so any edit passes it.",
      "Visiting order and restoration of every link for every tree shape, and the list iterators on list spines, are heap-shape properties and are NOT decided. Trusted: clang 14 front end, ir2json, segment enumerator.",
      "DESIGN.md section 2 C11")
claim("C08", "witness translation validation: generated protothread bodies compiled against /repo's macros; control automaton extracted from the IR (finite outcome sets for uninterpreted calls) and compared with the specification automaton by a synchronous product walk",
      "translation_validation",
      "For every generated body (every blocking macro in every syntactic context the quantifier names, all bodies up to 2 statements (3 in thorough), seeded random bodies to nesting depth 2/3, with PT_BEGIN and PT_BEGIN_FIBRE) the compiled function and the property's semantics are bisimilar from the initial state: same events, return codes and resume points for every outcome of every condition and child result, over all sequences of invocations until exit. The macros are context-free text, so their control effect in any body of the statement language is determined by these contexts.",
      "Bodies outside the property's own scope (two blocking macros per line, blocking inside a user switch, PT_CHILD_OK after the next blocking point) are not generated. All C programs are not enumerated: the claim is for the generator's statement language up to the stated sizes. Trusted: clang 14 front end, ir2json, the spec machine in C08.py (60 lines, the property's sentences transcribed).",
      "DESIGN.md section 2 C08")
