#!/usr/bin/env python3
"""Regenerate MANIFEST.json from the per-property table below (keeps it valid at all times)."""
import json, os
HERE = os.path.dirname(os.path.abspath(__file__))

CHECKS = {}
NOT_APPLICABLE = {}

def claim(pid, technique, category, text, note, design_ref):
    CHECKS[pid] = dict(technique=technique, category=category, text=text, note=note, design_ref=design_ref)

exec(open(os.path.join(HERE, "manifest_table.py")).read())

all_ids = [json.loads(l)["id"] for l in open(os.path.join(HERE, "properties.jsonl"))]
checks = []
for pid in all_ids:
    if pid in CHECKS:
        c = CHECKS[pid]
        checks.append({
            "property_id": pid,
            "quick_cmd": "./check %s --tier quick" % pid,
            "thorough_cmd": "./check %s --tier thorough" % pid,
            "evidence_file": "/verif/evidence/%s.json" % pid,
            "replay_cmd_template": "./check %s   # static: the replay file names the construct; re-running re-derives it" % pid,
            "engine": "sa",
            "technique": c["technique"],
            "level_claimed": {"category": c["category"], "text": c["text"], "design_ref": c["design_ref"]},
            "level_note": c["note"],
        })
na = [{"property_id": pid, "reason": NOT_APPLICABLE.get(pid, "check not built yet in this round (static rules designed in DESIGN.md section 2; not claimed until the checker exists and is self-tested)")}
      for pid in all_ids if pid not in CHECKS]
m = {
    "version": 1,
    "setup_cmd": "./setup.sh",
    "hooks": {"guard": "LIBRFN_VERIF", "enable": "none needed: static checks read /repo's sources and compile them to LLVM IR themselves; no hook code exists in /repo",
              "baseline_off_cmd": "cd /repo && make check", "source_commits": [], "add_only": True},
    "engines": [{"name": "sa", "path": "/verif/sa", "serves_properties": sorted(CHECKS),
                 "kind_free_text": "bespoke static analysers over LLVM-14 IR of /repo's current tree (ir2json on the LLVM C++ API + Python rules): access tables, CFG dominance, path enumeration with symbolic expressions, small exact abstract domains (linear forms with Fourier-Motzkin entailment, cyclic index model, finite sets, bit-polynomials), witness translation units for macros"}],
    "checks": checks,
    "not_applicable": na,
    "notes": "Exit 0 = all obligations discharged; 1 = VIOLATION (a refuted obligation not listed in known_findings.json); 2 = inconclusive (anchor vanished / unknown idiom), never a pass. Genuine defects fixed in /repo by 'fix:' commits are listed in known_findings.json as fixed.",
}
json.dump(m, open(os.path.join(HERE, "MANIFEST.json"), "w"), indent=1)
print("MANIFEST.json: %d checks, %d not_applicable" % (len(checks), len(na)))
