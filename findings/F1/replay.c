/* F1 replay (C04 rule R3): compile the UNMODIFIED librfn/messageq.c with a hook that
 * runs a nested "interrupt" claimer between a refused claimer's optimistic decrement
 * and its undo.
 *
 *   gcc -std=gnu11 -I/repo/include -o f1 /verif/findings/F1/replay.c && ./f1
 *
 * exit 0 = property holds (fixed tree); exit 1 = buffer of a full queue handed out twice.
 */
#include <stdatomic.h>
#include <stdio.h>
static void isr_hook(void);
/* the undo in messageq_claim is the only atomic_fetch_add on its refusing path */
#undef atomic_fetch_add
#define atomic_fetch_add(p, v) (isr_hook(), __c11_or_gnu_fetch_add(p, v))
#define __c11_or_gnu_fetch_add(p, v) atomic_fetch_add_explicit(p, v, memory_order_seq_cst)
#include "../../../repo/librfn/messageq.c"

static messageq_t q;
static char buf[1][4];
static int armed;
static void *nested;

static void isr_hook(void)
{
	if (armed) {
		armed = 0;
		nested = messageq_claim(&q);	/* nested interrupt: a third claimer */
	}
}

int main(void)
{
	messageq_init(&q, buf, sizeof(buf), sizeof(buf[0]));
	void *a = messageq_claim(&q);	/* A holds the only buffer */
	armed = 1;
	void *b = messageq_claim(&q);	/* B is refused; C runs inside B's window */
	printf("A=%p B=%p nested C=%p num_free=%u\n", a, b, nested, (unsigned) atomic_load(&q.num_free));
	if (nested != NULL) {
		printf("DEFECT: the buffer held by A was handed out again to the nested claimer\n");
		return 1;
	}
	return 0;
}
