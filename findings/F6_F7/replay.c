/* F6 / F7 replay (C15 rules K4, K2) against the real library.
 *   gcc -std=gnu11 -I/repo/include -I/repo -o r /verif/findings/F6_F7/replay.c /repo/librfn/console.c /repo/librfn/ringbuf.c \
 *       /repo/librfn/fibre.c /repo/librfn/list.c /repo/librfn/messageq.c /repo/librfn/util.c /repo/librfn/posix/time_posix.c && ./r
 */
#include <stdio.h>
#include <string.h>
#include <librfn/console.h>

void console_hwinit(console_t *c) { (void) c; }

static char log_[64][16];
static int nrun;
static pt_state_t cap(console_t *c)
{
	if (nrun < 64)
		snprintf(log_[nrun], sizeof(log_[0]), "%s %s", c->argv[0], c->argv[1]);
	nrun++;
	return PT_EXITED;
}
static const console_cmd_t cmd_a = CONSOLE_CMD_VAR_INIT("a", cap);
static const console_cmd_t cmd_ab = CONSOLE_CMD_VAR_INIT("ab", cap);
static const console_cmd_t cmd_cap = CONSOLE_CMD_VAR_INIT("cap", cap);

int main(void)
{
	int bad = 0;
	console_t c;
	FILE *null = fopen("/dev/null", "w");
	console_init(&c, null);
	console_register(&cmd_a);
	console_register(&cmd_ab);
	console_register(&cmd_cap);

	/* F7: "ab<backspace><newline>" must run "a" */
	nrun = 0;
	for (const char *s = "ab\b\n"; *s; s++)
		console_process(&c, *s);
	printf("F7: line \"ab\\b\\n\" ran %d command(s): '%s'\n", nrun, nrun ? log_[0] : "");
	if (nrun != 1 || strncmp(log_[0], "a ", 2) != 0) {
		printf("  DEFECT: the erased character is still part of the dispatched line\n");
		bad |= 1;
	}

	/* F6: an injection longer than the 16-byte ring must complete and run each line once */
	nrun = 0;
	pt_t pt = 0;
	pt_state_t st;
	int iter = 0;
	do {
		st = console_eval(&pt, &c, "cap 1\ncap 2\ncap 3\ncap 4\ncap 5\n");
		while (console_run(&c) == PT_YIELDED)
			;
	} while (st != PT_EXITED && ++iter < 200);
	while (console_run(&c) == PT_YIELDED)
		;
	printf("F6: eval %s after %d resumptions, %d command(s) ran:", st == PT_EXITED ? "completed" : "DID NOT COMPLETE", iter, nrun);
	for (int i = 0; i < nrun && i < 8; i++)
		printf(" [%s]", log_[i]);
	printf("\n");
	if (st != PT_EXITED || nrun != 5) {
		printf("  DEFECT: console_eval keeps its index in scratch memory that do_prompt clears "
		       "(and that lies outside the declared u16 array)\n");
		bad |= 2;
	}
	return bad;
}
