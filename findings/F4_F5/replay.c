/* F4 / F5 replay (C14 rules D3, D4) against the real library.
 *   gcc -std=gnu11 -I/repo/include -I/repo -o r /verif/findings/F4_F5/replay.c /repo/librfn/wavheader.c \
 *       /repo/librfn/pack.c /repo/librfn/string.c /repo/librfn/util.c /repo/librfn/posix/time_posix.c && ./r
 */
#include <signal.h>
#include <setjmp.h>
#include <stdio.h>
#include <stdlib.h>
#include <string.h>
#include <librfn.h>

static sigjmp_buf jb;
static void on_fpe(int sig) { (void) sig; siglongjmp(jb, 1); }

int main(void)
{
	int bad = 0;
	rf_wavheader_t wh, out;
	uint8_t buf[128];

	/* F4: a valid 44-byte PCM header whose two size fields are 0xffffffff */
	rf_wavheader_init(&wh, 44100, 2, RF_WAVHEADER_S16LE);
	int n = rf_wavheader_encode(&wh, buf, sizeof(buf));
	memset(buf + 4, 0xff, 4);	/* chunk_size */
	memset(buf + 16, 0xff, 4);	/* fmt_chunk_size */
	uint8_t *exact = malloc(n);
	memcpy(exact, buf, n);
	int r = rf_wavheader_decode(exact, n, &out);
	printf("decode(%d bytes, fmt_chunk_size=0xffffffff) = %d (RF_WAVHEADER_MIN_SIZE=%d)\n", n, r, RF_WAVHEADER_MIN_SIZE);
	if (r >= 0 && r <= n && r < RF_WAVHEADER_MIN_SIZE) {
		printf("  F4: success reported with a length shorter than the minimum header\n");
		bad |= 1;
	}
	free(exact);

	/* F5: helpers on a cleared structure */
	signal(SIGFPE, on_fpe);
	memset(&wh, 0, sizeof(wh));
	if (sigsetjmp(jb, 1)) {
		printf("  F5: rf_wavheader_tostring raised SIGFPE on a zeroed header\n");
		bad |= 2;
	} else {
		char *s = rf_wavheader_tostring(&wh);
		printf("tostring: %s\n", s);
		free(s);
	}
	return bad;
}
