/* F8 replay (C01 rule S9): three interrupt-context run requests pending at once must be dispatched in arrival order.
 *   gcc -std=gnu11 -I/repo/include -I/repo -o r /verif/findings/F8/replay.c /repo/librfn/fibre.c /repo/librfn/list.c \
 *       /repo/librfn/messageq.c /repo/librfn/util.c /repo/librfn/posix/time_posix.c && ./r
 */
#include <stdio.h>
#include <string.h>
#include <librfn/fibre.h>

static char order[16];
static int n;
static int body(fibre_t *f);
static fibre_t A = FIBRE_VAR_INIT(body), B = FIBRE_VAR_INIT(body), C = FIBRE_VAR_INIT(body);
static int body(fibre_t *f)
{
	order[n++] = (f == &A) ? 'A' : (f == &B) ? 'B' : 'C';
	return FIBRE_STATE_WAITING;
}

int main(void)
{
	fibre_run_atomic(&A);
	fibre_run_atomic(&B);
	fibre_run_atomic(&C);
	for (int i = 0; i < 4; i++)
		fibre_scheduler_next(i);
	printf("dispatch order: %s\n", order);
	if (strcmp(order, "ABC") != 0) {
		printf("DEFECT: accepted fibre_run_atomic requests are not dispatched in their order of arrival\n");
		return 1;
	}
	return 0;
}
