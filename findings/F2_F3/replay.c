/* F2 / F3 replay (C13 rules W2, W5, W3) against the real library.
 *   gcc -std=gnu11 -I/repo/include -I/repo -o r /verif/findings/F2_F3/replay.c /repo/librfn/wavheader.c \
 *       /repo/librfn/pack.c /repo/librfn/string.c /repo/librfn/util.c /repo/librfn/posix/time_posix.c && ./r
 * exit 0 = property holds; non-zero = defect shown.
 */
#include <stdio.h>
#include <string.h>
#include <librfn.h>

int main(void)
{
	int bad = 0;
	rf_wavheader_format_t fmts[] = { RF_WAVHEADER_S16LE, RF_WAVHEADER_S32LE, RF_WAVHEADER_FLOAT };
	for (int i = 0; i < 3; i++) {
		rf_wavheader_t in, out;
		uint8_t buf[128];
		memset(&in, 0xAA, sizeof(in));		/* "whatever the structure held beforehand" */
		rf_wavheader_init(&in, 48000, 2, fmts[i]);
		rf_wavheader_set_num_frames(&in, 1000);
		int v = rf_wavheader_validate(&in);
		int n = rf_wavheader_encode(&in, buf, sizeof(buf));
		int m = rf_wavheader_decode(buf, n, &out);
		int same = (0 == memcmp(&in, &out, sizeof(in)));
		long want = (long) n - 8 + in.data_chunk_size;
		printf("format %d: validate=%d encode=%d decode=%d identical=%d chunk_size=%u expected=%ld\n",
		       i, v, n, m, same, in.chunk_size, want);
		if (v != 0 || n != m || !same) { printf("  F2: dirty structure leaks into the header\n"); bad |= 1; }
		if ((long) in.chunk_size != want) { printf("  F3: RIFF size does not describe the file\n"); bad |= 2; }
	}
	return bad;
}
