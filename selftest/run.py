#!/usr/bin/env python3
"""Self-test of the checkers (never part of a verdict).

For each entry of selftest/mutants/<Cnn>.json, apply a textual edit to a scratch
copy of /repo's sources (outside /repo and /verif), run ./check <Cnn> against it
(VERIF_REPO=<scratch>) and compare with the expectation:
  "expect": "fire"   -> exit 1 and (if given) the named rule appears in a REFUTED line
  "expect": "silent" -> exit 0 (behaviour-preserving variant)
The scratch copy is removed afterwards.

usage: selftest/run.py [Cnn ...] [--only name-substring] [-v]
"""
import json
import os
import shutil
import subprocess
import sys
import tempfile

VERIF = os.path.dirname(os.path.dirname(os.path.abspath(__file__)))
REPO = "/repo"


def make_scratch():
    d = tempfile.mkdtemp(prefix="verif_selftest_")
    for sub in ("librfn", "include", "src", "tests"):
        shutil.copytree(os.path.join(REPO, sub), os.path.join(d, sub),
                        ignore=shutil.ignore_patterns("*.o", "*.a", "*.log", "*.trs"))
    return d


def run_one(pid, mut, scratch, verbose):
    saved = {}
    if mut.get("patch"):
        # a whole patch (one of the seeded changes) instead of textual edits
        pf = os.path.join(VERIF, mut["patch"])
        r = subprocess.run(["patch", "-p1", "-s", "-d", scratch, "-i", pf], capture_output=True, text=True)
        if r.returncode != 0:
            subprocess.run(["patch", "-p1", "-s", "-R", "-f", "-d", scratch, "-i", pf], capture_output=True, text=True)
            return "BROKEN", "patch does not apply: %s" % (r.stdout + r.stderr)[-200:]
        edits = mut.get("edits") or []      # (textual edits on top of the patch)
    else:
        edits = mut.get("edits") or [{"file": mut["file"], "old": mut["old"], "new": mut["new"]}]
    try:
        for e in edits:
            path = os.path.join(scratch, e["file"])
            src = open(path).read()
            saved.setdefault(path, src)
            if src.count(e["old"]) < 1:
                return "BROKEN", "pattern not found in %s: %r" % (e["file"], e["old"])
            src = src.replace(e["old"], e["new"], e.get("count", 1))
            open(path, "w").write(src)
        env = dict(os.environ, VERIF_REPO=scratch)
        r = subprocess.run([os.path.join(VERIF, "check"), pid], capture_output=True, text=True, env=env, cwd=VERIF)
        out = r.stdout + r.stderr
        exp = mut["expect"]
        if exp == "fire":
            ok = r.returncode == 1 and "VIOLATION property=%s" % pid in out
            if ok and mut.get("rule"):
                ok = any(("rule=" + mut["rule"]) in l for l in out.splitlines() if l.startswith("REFUTED"))
        elif exp == "silent":
            ok = r.returncode == 0 and "VIOLATION" not in out
        elif exp == "inconclusive":
            ok = r.returncode == 2
        else:
            return "BROKEN", "bad expectation"
        detail = "exit=%d" % r.returncode
        if verbose or not ok:
            detail += "\n" + "\n".join("      " + l for l in out.splitlines()
                                       if l.startswith(("REFUTED", "INCONCLUSIVE", "KNOWN", pid)))[:3000]
        return ("ok" if ok else "MISMATCH"), detail
    finally:
        for path, src in saved.items():
            open(path, "w").write(src)
        if mut.get("patch"):
            subprocess.run(["patch", "-p1", "-s", "-R", "-f", "-d", scratch, "-i", os.path.join(VERIF, mut["patch"])], capture_output=True, text=True)
            for root, dirs, files in os.walk(scratch):
                for f in files:
                    if f.endswith((".orig", ".rej")):
                        os.unlink(os.path.join(root, f))


def main():
    args = [a for a in sys.argv[1:] if not a.startswith("-")]
    verbose = "-v" in sys.argv
    only = None
    if "--only" in sys.argv:
        only = sys.argv[sys.argv.index("--only") + 1]
        args = [a for a in args if a != only]
    mdir = os.path.join(VERIF, "selftest", "mutants")
    pids = args or sorted(f[:-5] for f in os.listdir(mdir) if f.endswith(".json"))
    scratch = make_scratch()
    bad = 0
    try:
        for pid in pids:
            muts = json.load(open(os.path.join(mdir, pid + ".json")))
            for mut in muts:
                if only and only not in mut["name"]:
                    continue
                st, detail = run_one(pid, mut, scratch, verbose)
                print("%-8s %s %-55s expect=%-7s %s" % (st, pid, mut["name"], mut["expect"], detail))
                if st != "ok":
                    bad += 1
    finally:
        shutil.rmtree(scratch, ignore_errors=True)
    print("selftest: %d mismatches" % bad)
    return 1 if bad else 0


if __name__ == "__main__":
    sys.exit(main())
