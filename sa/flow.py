"""Pointer normalisation, access table, call graph and small value utilities."""
import re

from .ir import AnalysisError, Value, int_bits

MEM_INTRINSICS = ("llvm.memset.", "llvm.memcpy.", "llvm.memmove.")
ORDER_RANK = {"notatomic": 0, "unordered": 1, "monotonic": 2, "acquire": 3, "release": 3,
              "acq_rel": 4, "seq_cst": 5}


class Ptr:
    """base + off + sum(var_i * scale_i); base is an SSA value / global / null."""
    __slots__ = ("root", "off", "var", "root_ty")

    def __init__(self, root, off, var, root_ty):
        self.root = root
        self.off = off
        self.var = tuple(var)
        self.root_ty = root_ty      # IR pointee type the offsets are relative to

    def __repr__(self):
        s = repr(self.root)
        if self.off:
            s += "%+d" % self.off
        for v, sc in self.var:
            s += "+%r*%d" % (v, sc)
        return s

    def key(self):
        return (self.root.key(), self.off, tuple((v.key(), s) for v, s in self.var))


def strip_int_casts(v):
    """Look through zext/sext/trunc/bitcast of an SSA value."""
    while True:
        i = v.inst
        if i is not None and i.op in ("zext", "sext", "trunc", "bitcast"):
            v = i.ops[0]
        else:
            return v


def resolve_ptr(v, module, depth=0):
    """Normalise a pointer-typed value to Ptr(root, off, var)."""
    off = 0
    var = []
    root_ty = None
    while True:
        if depth > 64:
            raise AnalysisError("pointer chain too deep")
        depth += 1
        if v.k == "inst":
            i = v.inst
            if i is None:
                raise AnalysisError("undefined SSA value %r" % v)
            if i.op == "getelementptr":
                if "off" not in i.d:
                    raise AnalysisError("GEP without decomposable offset at %s" % i.loc)
                off += i["off"]
                for vv, sc in i["var_offs"]:
                    var.append((Value(vv, v.fn), sc))
                root_ty = i["src_ty"]
                v = i.ops[0]
                continue
            if i.op == "bitcast":
                src = i.ops[0]
                # keep the most informative (struct) view nearest to the root
                if root_ty is None:
                    root_ty = module.pointee(i.ty)
                v = src
                continue
            if i.op == "inttoptr":
                src = i.ops[0].inst
                if src is not None and src.op == "ptrtoint":
                    v = src.ops[0]
                    continue
            break
        if v.k == "cexpr":
            op = v.d["op"]
            if op == "getelementptr":
                if "off" not in v.d:
                    raise AnalysisError("constant GEP without offset")
                off += v.d["off"]
                root_ty = v.d["src_ty"]
                v = v.cexpr_ops()[0]
                continue
            if op == "bitcast":
                if root_ty is None:
                    root_ty = module.pointee(v.ty)
                v = v.cexpr_ops()[0]
                continue
            break
        break
    # prefer the root's own pointee type when it is a struct
    own = module.pointee(v.ty) if v.ty else None
    if v.k == "global":
        own = module.globals[v.name]["ty"] if v.name in module.globals else own
    if own and (own.startswith("%struct.") or own.startswith("%union.")) and not own.endswith("*"):
        root_ty = own
    elif root_ty is None:
        root_ty = own
    return Ptr(v, off, var, root_ty)


class Access:
    """One memory access (load/store/rmw/cmpxchg/mem intrinsic operand)."""

    def __init__(self, inst, kind, ptr, size, value=None):
        self.inst = inst
        self.kind = kind            # load store rmw cmpxchg memset memcpy_dst memcpy_src
        self.ptr = ptr
        self.size = size            # bytes, int or None (variable)
        self.value = value
        self.atomic = inst.is_atomic()
        self.ordering = inst.ordering if self.atomic else "notatomic"
        self.struct = None
        self.field = None

    @property
    def writes(self):
        return self.kind in ("store", "rmw", "cmpxchg", "memset", "memcpy_dst")

    @property
    def reads(self):
        return self.kind in ("load", "rmw", "cmpxchg", "memcpy_src")

    def __repr__(self):
        return "<%s %s.%s via %r size=%s %s @%s>" % (self.kind, self.struct, self.field, self.ptr,
                                                      self.size, self.ordering, self.inst.loc)


def di_struct_of_ptr(p, module):
    """(DI composite id, display name) for the object a Ptr's offsets are relative to."""
    r = p.root
    if r.k == "global":
        g = module.globals.get(r.name)
        if g and g.get("di_ty"):
            tid = module.di_strip(g["di_ty"])
            t = module.ditypes.get(tid)
            if t and t["tag"] in ("DW_TAG_structure_type", "DW_TAG_union_type"):
                return tid, r.name
            if t and t["tag"] == "DW_TAG_array_type":
                return g["di_ty"], r.name
        return 0, r.name
    ty = p.root_ty
    if ty:
        tid = module.di_struct_for_ir(ty)
        if tid:
            n = ty.rstrip("*")
            n = n.split(".", 1)[1] if "." in n else n
            return tid, n
    return 0, None


def name_field(p, module):
    tid, sname = di_struct_of_ptr(p, module)
    if not tid:
        return sname, None
    if p.off < 0:
        return sname, None
    path, leaf, resid = module.di_field_path(tid, p.off)
    s = ""
    for c in path:
        if c.startswith("["):
            s += "[]"
        else:
            s += ("." if s else "") + c
    return sname, s


def accesses(fn, module):
    """All memory accesses of a function with resolved pointers."""
    out = []
    for i in fn.real_insts():
        try:
            if i.op == "load":
                out.append(Access(i, "load", resolve_ptr(i.ops[0], module), i["size"]))
            elif i.op == "store":
                out.append(Access(i, "store", resolve_ptr(i.ops[1], module), i["size"], i.ops[0]))
            elif i.op == "atomicrmw":
                out.append(Access(i, "rmw", resolve_ptr(i.ops[0], module), i["size"], i.ops[1]))
            elif i.op == "cmpxchg":
                out.append(Access(i, "cmpxchg", resolve_ptr(i.ops[0], module), i["size"], i.ops[2]))
            elif i.op == "call" and i.callee and i.callee.startswith(MEM_INTRINSICS):
                ln = i.args[2]
                size = ln.uval if ln.is_const_int() else None
                if i.callee.startswith("llvm.memset."):
                    out.append(Access(i, "memset", resolve_ptr(i.args[0], module), size, i.args[1]))
                else:
                    out.append(Access(i, "memcpy_dst", resolve_ptr(i.args[0], module), size))
                    out.append(Access(i, "memcpy_src", resolve_ptr(i.args[1], module), size))
        except AnalysisError:
            raise
    for a in out:
        a.struct, a.field = name_field(a.ptr, module)
    return out


# ---- call graph ----------------------------------------------------------------

class Program:
    """A set of modules compiled with one configuration."""

    def __init__(self, modules):
        self.modules = modules
        self.fns = {}
        for m in modules:
            for f in m.defined_functions():
                if f.internal:
                    self.fns[(m.unit, f.name)] = f
                else:
                    self.fns.setdefault((None, f.name), f)

    def lookup(self, name, from_module=None):
        if from_module is not None:
            f = self.fns.get((from_module.unit, name))
            if f:
                return f
        f = self.fns.get((None, name))
        if f:
            return f
        if from_module is not None and from_module.has_fn(name):
            return from_module.functions[name]
        return None

    def callees(self, fn):
        """Directly called defined functions; also returns whether an indirect call exists."""
        out = []
        indirect = []
        for c in fn.calls():
            if c.callee is None:
                indirect.append(c)
                continue
            if c.callee.startswith("llvm."):
                continue
            g = self.lookup(c.callee, fn.module)
            out.append((c, c.callee, g))
        return out, indirect

    def closure(self, fn, stop=()):
        """Transitive closure of defined callees (including fn)."""
        seen = {}
        stack = [fn]
        while stack:
            f = stack.pop()
            key = (f.module.unit if f.internal else None, f.name)
            if key in seen:
                continue
            seen[key] = f
            cs, _ = self.callees(f)
            for c, name, g in cs:
                if g is not None and name not in stop:
                    stack.append(g)
        return list(seen.values())


def const_int(v):
    if v.is_const_int():
        return v.uval
    return None


def fmt_loc(inst):
    return inst.loc
