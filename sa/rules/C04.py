"""C04 - message queue, many senders / one receiver: protocol-shape clauses.

Decides (every path of every function touching messageq_t, both atomics builds):
 R1 shared state (num_free, sendp, full_flags) accessed only atomically and modified only by RMW/CAS
 R2 reservation pairing (claim: net -1 and non-NULL, or net 0 and NULL without touching sendp; release +1)
 R3 transient representability of the optimistic reservation counter
 R4 slot index handed out is the value validated by the successful CAS; the CAS's desired value is
    the wrapped successor of *its own* expected value
 R5 flag protocol (one-bit atomic OR to send; one atomic AND-NOT to receive, deciding on the old value)
 R6 receivep is touched only by the receiver role
Not decided: linearizability / claim-order delivery over all interleavings.
"""
from .. import build, flow, paths
from ..domains.cyc import IndexModel
from ..domains.lin import Lin
from ..paths import fmt, ptr_parts, strip_casts, eval_concrete, NoValue
from . import mq


def _mq_field(ptr, fn, m):
    return mq.field(ptr, fn, m)


def _events_on(p, fn, m, fieldname, kinds=None):
    return [e for e in p.events if e.ptr is not None and e.kind in (kinds or ("load", "store", "rmw", "cmpxchg"))
            and _mq_field(e.ptr, fn, m) == fieldname]


def _net_reservation(p, fn, m):
    """Net effect of the path on num_free through constant RMW add/sub; None if not constant."""
    net = 0
    for e in _events_on(p, fn, m, "num_free", ("rmw",)):
        if e.val[0] != "c":
            return None
        v = e.val[2]
        if e.extra == "sub":
            net -= v
        elif e.extra == "add":
            net += v
        else:
            return None
    return net


def _is_null(e):
    return e is not None and e[0] == "null"


def check_r1(chk, cfg, fns):
    n = 0
    for m, fn, acc in fns:
        rs = mq.roles(fn, acc)
        for a in acc:
            f = mq.acc_field(a)
            if f not in mq.ATOMIC_FIELDS:
                continue
            n += 1
            inst = "%s[%s] %s %s" % (fn.name, cfg, a.kind, f)
            if "init" in rs:
                chk.ob("R1.init-exception", inst, True, mq.INIT_FUNCS[fn.name], a.inst.loc, fn.name)
                continue
            if not a.atomic:
                chk.ob("R1.atomic-only", inst, False,
                       "plain (non-atomic) %s of shared field %s" % (a.kind, f), a.inst.loc, fn.name)
                continue
            if a.kind == "store":
                chk.ob("R1.rmw-only", inst, False,
                       "shared field %s is overwritten by an atomic store: concurrent RMW updates by other "
                       "senders/the receiver between the preceding load and this store are erased" % f,
                       a.inst.loc, fn.name)
                continue
            chk.ob("R1.atomic-only", inst, True, "atomic %s (%s)" % (a.kind, a.ordering), a.inst.loc, fn.name)
    chk.expect("R1", "atomic accesses to shared fields [%s]" % cfg, n, 8)


SUCCESS_VALUES = list(range(1, 33))
# 0 = exhausted; 255.. = 0 minus 1..8 optimistic decrements of concurrently failing claimers (as i8)
FAIL_VALUES = [0] + [(-k) & 0xff for k in range(1, 9)]


def _own_slot_flag_found_set(p, fn, m):
    """A condition of the path says that bit `1 << X` of the flag word is set, X being the expected value validated by the
    successful compare-exchange on sendp (the slot this claim hands out)."""
    cas = [e for e in _events_on(p, fn, m, "sendp", ("cmpxchg",))]
    if not cas:
        return False
    own = strip_casts(cas[-1].extra)
    for c, taken, inst in p.conds:
        cc = strip_casts(c)
        if cc[0] != "icmp" or cc[1] not in ("eq", "ne") or cc[3][0] != "c" or cc[3][2] != 0:
            continue
        a = strip_casts(cc[2])
        if a[0] == "b" and a[1] == "and":
            for x, y in ((a[3], a[4]), (a[4], a[3])):
                bit = _one_bit_mask(y)
                xs = strip_casts(x)
                if bit is not None and xs[0] in ("ald", "ld") and _mq_field(xs[1], fn, m) == "full_flags" and strip_casts(bit) == own:
                    if (cc[1] == "ne") == bool(taken):
                        return True
    return False


def check_claim(chk, cfg, m, fn):
    tag = "%s[%s]" % (fn.name, cfg)
    # messageq_claim contains the compare-exchange retry loop: paths with at most one retry are examined, every CAS
    # event on them is checked against the value loaded in the same iteration (the rules are per-iteration)
    # (a retry loop that is counted by a small constant is unrolled that many times, so that its give-up exit is seen)
    lb = 1
    for h in fn.loops_headers():
        cl = fn.counted_loop(h)
        if cl and 1 < cl[0] <= 4:
            lb = max(lb, cl[0])
    ps = [p for p in paths.enumerate_paths(fn, m, loop_bound=lb) if not paths.is_assert_fail_path(p)]
    n_cas = 0
    optimistic = False
    for p in ps:
        pathid = "%s path %s" % (tag, "->".join(b.lstrip("%") for b in p.blocks))
        if _own_slot_flag_found_set(p, fn, m):
            # ring invariant (assumption, stated in the evidence): the flag of the slot a successful compare-exchange hands out is
            # clear - flags are set only by the send of a claimed slot and cleared by receive before release returns the permit,
            # so with a permit in hand the slot at the cursor carries no message.  A defensive re-check of exactly that bit is dead.
            continue
        subs = [e for e in _events_on(p, fn, m, "num_free", ("rmw",)) if e.extra == "sub"]
        cas_nf = _events_on(p, fn, m, "num_free", ("cmpxchg",))
        if subs:
            optimistic = True
        if cas_nf and not subs:
            # pessimistic reservation: num_free goes from e to e-1 by compare-exchange, only for an observed e != 0
            probs = []
            outcomes = []
            for e in cas_nf:
                flag = None
                for c, taken, inst in p.conds:
                    cc = strip_casts(c)
                    if cc[0] == "cx" and cc[1] == e.ptr and cc[2] == e.extra and cc[-1] == 1:
                        flag = bool(taken)
                outcomes.append(flag)
                try:
                    d = (eval_concrete(e.val, {e.extra: 5}) - 5) & 0xff
                except NoValue:
                    d = None
                if d != 0xff:
                    probs.append("the compare-exchange on num_free does not install (expected - 1)")
                nz = False
                for c, taken, inst in p.conds:
                    cc = strip_casts(c)
                    if cc[0] == "icmp" and cc[1] in ("eq", "ne") and strip_casts(cc[2]) == e.extra and cc[3][0] == "c" and cc[3][2] == 0:
                        nz = (cc[1] == "ne") == bool(taken)
                if not nz:
                    probs.append("the expected value of the compare-exchange is not known to be non-zero")
            if None in outcomes:
                chk.unknown("R2.reservation", pathid, "outcome of a compare-exchange on num_free is not tested", cas_nf[0].inst.loc)
                continue
            won = outcomes.count(True)
            # the most recent observation of the counter: the value a failed exchange reports, else the load
            last = cas_nf[-1]
            last_obs = ("cx",) + tuple(last.res[1:]) + (0,) if outcomes[-1] is False else None
            saw_zero = False
            if last_obs is not None:
                for c, taken, inst in p.conds:
                    cc = strip_casts(c)
                    if cc[0] == "icmp" and cc[1] in ("eq", "ne") and strip_casts(cc[2]) == last_obs and cc[3][0] == "c" and cc[3][2] == 0 \
                            and (cc[1] == "eq") == bool(taken):
                        saw_zero = True
            if won == 0 and _is_null(p.ret) and saw_zero:
                pass            # the failed exchange itself reported 0: the queue was full at that instant
            elif won == 0 and _is_null(p.ret):
                probs.append("claim refuses after its compare-exchange on num_free failed, without looking at the counter again: "
                             "a failed exchange means the counter CHANGED (another claim, or a release), not that it is zero, so a "
                             "claimer is turned away while buffers are free")
            elif won == 1 and _is_null(p.ret):
                probs.append("a reservation is taken but NULL is returned")
            elif won == 0 and not _is_null(p.ret):
                probs.append("a buffer is returned without a successful reservation")
            elif won > 1:
                probs.append("%d reservations on one path" % won)
            chk.ob("R2.reservation", pathid, not probs, "; ".join(probs) if probs else
                   "compare-exchange reservation: one successful exchange e -> e-1 with e != 0 on the path that returns a buffer",
                   cas_nf[0].inst.loc, fn.name)
            if probs or _is_null(p.ret):
                continue
            cas_reserved = True
        net = _net_reservation(p, fn, m)
        sendp_w = _events_on(p, fn, m, "sendp", ("cmpxchg", "rmw", "store"))
        loc = p.ret_inst.loc
        if cas_nf and not subs:
            net = -1            # established by the compare-exchange reservation above
        elif net is None:
            chk.unknown("R2.reservation", pathid, "non-constant update of num_free", loc)
            continue
        if net == -1 and cas_nf and not subs:
            pass
        elif net == -1:
            chk.ob("R2.reservation", pathid, not _is_null(p.ret),
                   "net effect -1 on num_free: must return a buffer (returns %s)" % fmt(p.ret)[:80], loc, fn.name)
            # the permit is granted by the decrement itself: the path that keeps it must have looked at the value THAT operation
            # returned.  A separate earlier look (load, then decrement) lets two claimers see the same last permit and both take it
            if subs and not _is_null(p.ret):
                seen = any(paths.contains(c, lambda x, r=e_.res: x == r) for e_ in subs for c, taken, inst in p.conds)
                chk.ob("R2.reservation", pathid + " grant", seen,
                       "the permit is kept on the strength of the value the decrement itself returned" if seen else
                       "the permit is kept without testing what the decrement returned (the counter was examined by a separate, earlier "
                       "operation): two claimers that both observe the last permit both decrement and both go on to take a slot - one "
                       "of them a slot that still holds an unreceived message", subs[0].inst.loc, fn.name)
        elif net == 0:
            if subs and _is_null(p.ret):
                # "fails only if no buffer was free": the path that hands the permit back and refuses must be one on which the decrement
                # found none (returned <= 0).  Evaluate the path's conditions over the decrement's result alone with a permit in hand
                res = subs[0].res
                own = [(c, t, i) for c, t, i in p.conds if paths.contains(c, lambda x: x == res) and
                       not [x for x in paths.arith_subexprs(c) if x != res and x[0] in ("ld", "ald", "rmw", "cx", "cxres", "call", "arg", "sym")]]
                feasible_with_permit = None
                if own:
                    try:
                        feasible_with_permit = any(all(paths.cond_holds(cd, {res: v}) for cd in own) for v in (1, 2, 5, 31))
                    except NoValue:
                        feasible_with_permit = None
                if feasible_with_permit is not None:
                    chk.ob("R2.reservation", pathid + " refusal", not feasible_with_permit,
                           "claim refuses (and undoes its decrement) only where the decrement found no permit" if not feasible_with_permit else
                           "claim hands its permit back and returns NULL on a path where the decrement DID obtain a permit (it gave up for "
                           "another reason, e.g. after losing the race for the cursor a few times): a claimer is turned away while "
                           "buffers are free", subs[0].inst.loc, fn.name)
            ok = _is_null(p.ret) and not sendp_w
            why = "net effect 0 on num_free: must return NULL and leave sendp alone"
            if not _is_null(p.ret):
                why += "; returns a buffer without holding a reservation" if not subs else \
                       "; the reservation is undone on a path that returns a buffer"
            if sendp_w:
                why += "; advances sendp at %s" % sendp_w[0].inst.loc
            chk.ob("R2.reservation", pathid, ok, why, loc, fn.name)
        else:
            chk.ob("R2.reservation", pathid, False,
                   "net effect %+d on num_free on one path (a failing claim must undo exactly its own decrement)"
                   % net, loc, fn.name)
        # R4: CAS hand-out
        cas = _events_on(p, fn, m, "sendp", ("cmpxchg",))
        other_w = [e for e in sendp_w if e.kind != "cmpxchg"]
        for e in other_w:
            if e.kind == "rmw" and e.extra == "add" and all(len(_events_on(q_, fn, m, "sendp", ("cmpxchg", "rmw", "store"))) <= 1 for q_ in ps) \
                    and p.ret is not None and \
                    paths.contains(p.ret, lambda x, r=e.res: x[0] == "b" and x[1] in ("urem", "srem") and paths.contains(x[3], lambda y: y == r)
                                   and not (x[4][0] == "c" and x[4][2] & (x[4][2] - 1) == 0)):
                # a free-running ticket (never brought back into range) reduced modulo the depth: the counter is 8 bits wide, so the
                # slot sequence is periodic only if the depth divides 256
                chk.ob("R4.cas-handout", pathid, False,
                       "sendp is a free-running counter (fetch-and-add, never brought back) and the slot is its value modulo queue_len: when "
                       "the 8-bit counter wraps from 255 to 0 the sequence of slots jumps unless queue_len divides 256 (depth 3: slot 0 is "
                       "handed out twice in a row while slot 1 still holds an unreceived message)", e.inst.loc, fn.name)
                continue
            if e.kind == "rmw" and e.extra in ("add", "sub"):
                # a fetch-and-add hands every claimer a different ticket; whether the scheme is right then hinges on how the ticket
                # counter is brought back into range, which is a protocol of its own that these rules have no model of
                chk.unknown("R4.cas-handout", pathid, "sendp is advanced by an atomic fetch-and-%s (a ticket scheme), not by the "
                            "compare-exchange these rules are stated over: how tickets map to slots across the wrap is not decided"
                            % e.extra, e.inst.loc)
                continue
            chk.ob("R4.cas-handout", pathid, False,
                   "sendp is advanced by %s, not by a compare-exchange: two claimers can obtain the same slot"
                   % e.kind, e.inst.loc, fn.name)
        for k, e in enumerate(cas):
            n_cas += 1
            expected, new = e.extra, e.val

            def classify(x, expected=expected):
                if x == expected:
                    return "own"
                if x[0] == "ld" and _mq_field(x[1], fn, m) == "queue_len":
                    return "L"
                if x[0] in ("ald", "cx") and _mq_field(x[1], fn, m) == "sendp":
                    return "peer"
                return None
            model = IndexModel(classify, min_len=1, max_len=255)
            for c, taken, inst in p.conds:
                model.add_cond(c, taken)
            if model.infeasible():
                continue
            N = model.lin(new)
            res = model.decide_is_successor(N)
            inst_id = "%s cas#%d" % (pathid, k)
            detail = "desired value %s of the compare-exchange is the wrapped successor of its own expected value" % N
            if res == "proved":
                chk.ob("R4.successor", inst_id, True, detail, e.inst.loc, fn.name)
            elif isinstance(res, tuple):
                env = {str(a): int(v) for a, v in res[1].items()}
                chk.ob("R4.successor", inst_id, False,
                       detail + "; counterexample (own = expected value, L = queue_len, peer = an earlier "
                       "observed sendp): %s -> a retry after an intervening claim re-publishes a stale index" % env,
                       e.inst.loc, fn.name)
            else:
                chk.unknown("R4.successor", inst_id, "cannot prove or refute: " + detail, e.inst.loc)
        if net == -1 and not _is_null(p.ret) and cas:
            last = cas[-1]
            root, off, var = ptr_parts(p.ret)
            ok = False
            why = "returned address %s" % fmt(p.ret)[:120]
            if len(var) == 1:
                idx = strip_casts(var[0][0])
                cands = []
                if idx[0] == "b" and idx[1] == "mul":
                    cands = [strip_casts(idx[3]), strip_casts(idx[4])]
                elif var[0][1] != 1:
                    cands = [idx]
                good = (last.extra, ("cx",) + tuple(last.res[1:]) + (0,))
                for c in cands:
                    if c in good:
                        ok = True
                    if c[0] == "ald" and _mq_field(c[1], fn, m) == "sendp":
                        why = "slot index is a separate atomic load of sendp at the return, not the value " \
                              "validated by the successful compare-exchange"
            chk.ob("R4.index-from-cas", pathid, ok,
                   "slot index of the returned buffer is the expected value validated by the successful "
                   "compare-exchange (%s)" % why, p.ret_inst.loc, fn.name)
    # R3: transient representability (optimistic reservation only)
    if optimistic:
        for v in SUCCESS_VALUES + FAIL_VALUES:
            want = -1 if v in SUCCESS_VALUES else 0
            for p in ps:
                if _own_slot_flag_found_set(p, fn, m):
                    continue
                subs = [e for e in _events_on(p, fn, m, "num_free", ("rmw",)) if e.extra == "sub"]
                if not subs:
                    continue
                old = subs[0].res
                env = {old: v}
                consistent = True
                decided = 0
                for c, taken, inst in p.conds:
                    try:
                        val = eval_concrete(c, env)
                    except NoValue:
                        continue
                    decided += 1
                    tv = (1 if taken else 0) if isinstance(taken, bool) else taken
                    if (val != 0) != (tv != 0) if isinstance(taken, bool) else val != tv:
                        consistent = False
                        break
                if not consistent or not decided:
                    continue
                net = _net_reservation(p, fn, m)
                if net is None:
                    continue
                sv = v if v < 128 else v - 256
                inst_id = "%s fetched=%d" % (tag, sv)
                if v in SUCCESS_VALUES:
                    chk.ob("R3.transient", inst_id, net == -1,
                           "fetched counter %d (buffers free) must take the granting path" % v,
                           subs[0].inst.loc, fn.name)
                else:
                    chk.ob("R3.transient", inst_id, net == 0,
                           "fetched counter %d must take the refusing path%s" %
                           (sv, "" if net == 0 else
                            ": the counter's byte %d is what a claimer reads while %d other refused claimer(s) sit "
                            "between their optimistic decrement and their undo; it is compared as %d > 0 "
                            "(zero-extended), so a buffer of a full queue is handed out twice" % (v, -sv, v)),
                           subs[0].inst.loc, fn.name)
    return n_cas


def check_release(chk, cfg, m, fn):
    tag = "%s[%s]" % (fn.name, cfg)
    for p in paths.enumerate_paths(fn, m):
        if paths.is_assert_fail_path(p):
            continue
        # a flag cleared by release (a defensive reset of the slot's own bit): it must happen BEFORE the buffer is given back -
        # once num_free is incremented a sender may claim the slot and send, and a clear after that wipes the new message's flag
        clr = [k for k, e in enumerate(p.events) if e.kind == "rmw" and _mq_field(e.ptr, fn, m) == "full_flags" and e.extra == "and"]
        give = [k for k, e in enumerate(p.events) if e.kind == "rmw" and _mq_field(e.ptr, fn, m) == "num_free" and e.extra == "add"]
        if clr:
            one_bit = all(strip_casts(p.events[k].val)[0] == "b" and strip_casts(p.events[k].val)[1] == "xor" and
                          _one_bit_mask(strip_casts(p.events[k].val)[3]) is not None for k in clr)
            okc = bool(give) and max(clr) < min(give) and one_bit
            chk.ob("R5.release-clear", "%s path %s" % (tag, "->".join(b.lstrip("%") for b in p.blocks)), okc,
                   "release clears only its own slot's flag, and before it returns the buffer to the pool" if okc else
                   "release clears a flag AFTER (or without) returning the buffer to the pool, or clears more than one bit: a sender "
                   "that claims the freed slot and sends in between has its flag wiped - the message is never received and the queue "
                   "wedges", p.events[clr[0]].inst.loc, fn.name)
        net = _net_reservation(p, fn, m)
        chk.ob("R2.release", "%s path %s" % (tag, "->".join(b.lstrip("%") for b in p.blocks)), net == 1,
               "release returns exactly one buffer to the pool (net effect %s)" % net, p.ret_inst.loc, fn.name)


def _one_bit_mask(e):
    """e == 1 << x ? returns x."""
    e = strip_casts(e)
    if e[0] == "b" and e[1] == "shl" and e[3][0] == "c" and e[3][2] == 1:
        return e[4]
    return None


def _claimed_pointer_takes(p, fn, m):
    """None if no claimed pointer satisfies the path's conditions (the path is outside the property's scope), a description of a
    claimed pointer that does, or False if the conditions are not evaluable."""
    exprs = [c for c, t, i in p.conds]
    lens = set(x for e_ in exprs for x in paths.subexprs(e_) if x[0] == "ld" and _mq_field(x[1], fn, m) == "msg_len")
    qls = set(x for e_ in exprs for x in paths.subexprs(e_) if x[0] == "ld" and _mq_field(x[1], fn, m) == "queue_len")
    offs = set(x for e_ in exprs for x in paths.subexprs(e_) if x[0] == "b" and x[1] == "sub" and
               paths.contains(x[3], lambda y: y == ("arg", 1)) and paths.contains(x[4], lambda y: y[0] == "ld" and _mq_field(y[1], fn, m) == "basep"))
    ptr_cmp = [c for c in exprs if paths.contains(c, lambda y: y == ("arg", 1)) and not any(paths.contains(c, lambda y, o=o: y == o) for o in offs)]
    try:
        for L in range(1, 33):
            for ml in list(range(1, 41)) + [64, 255, 4096]:
                for k in sorted({0, L // 2, L - 1}):
                    env = {}
                    for x in lens:
                        env[x] = ml
                    for x in qls:
                        env[x] = L
                    for x in offs:
                        env[x] = k * ml
                    holds = True
                    for cd in p.conds:
                        if cd[0] in ptr_cmp:
                            # a direct comparison of the pointers (msg < basep): false for a claimed buffer
                            cc = strip_casts(cd[0])
                            if cc[0] == "icmp" and cc[1] in ("ult", "ugt", "ule", "uge"):
                                a_is_msg = paths.contains(cc[2], lambda y: y == ("arg", 1))
                                val = {"ult": False, "ugt": True, "ule": k == 0, "uge": True}[cc[1]] if a_is_msg else \
                                      {"ult": True, "ugt": False, "ule": True, "uge": k == 0}[cc[1]]
                                if k == 0 and cc[1] in ("ugt",) and a_is_msg:
                                    val = False
                                if k == 0 and cc[1] in ("ult",) and not a_is_msg:
                                    val = False
                                if bool(val) != bool(cd[1]):
                                    holds = False
                                    break
                                continue
                            return False
                        if not paths.cond_holds(cd, env):
                            holds = False
                            break
                    if holds:
                        return "depth %d, message size %d, slot %d" % (L, ml, k)
    except NoValue:
        return False
    return None


def check_send(chk, cfg, m, fn):
    tag = "%s[%s]" % (fn.name, cfg)
    for p in paths.enumerate_paths(fn, m):
        if paths.is_assert_fail_path(p):
            continue
        pathid = "%s path %s" % (tag, "->".join(b.lstrip("%") for b in p.blocks))
        ors = [e for e in _events_on(p, fn, m, "full_flags", ("rmw",))]
        ok = len(ors) == 1 and ors[0].extra == "or" and _one_bit_mask(ors[0].val) is not None
        note = ""
        if not ors:
            # a path that publishes nothing (a defensive rejection of pointers that are no queue buffers): harmless exactly if no
            # pointer that messageq_claim can have returned takes it - evaluated for msg = basep + slot * msg_len over every depth
            # 1..32, slot below it, and message sizes 1..40, 64, 255, 4096
            w = _claimed_pointer_takes(p, fn, m)
            if w is None:
                continue
            if w is not False:
                chk.ob("R5.send", pathid, False,
                       "send returns without publishing for a buffer that claim hands out: %s - the message is never received and the "
                       "receiver stalls at that slot" % w, p.ret_inst.loc, fn.name)
                continue
        if not ok and len(ors) == 1 and ors[0].extra == "or":
            # the operand is 1 << slot combined with something else (a mask of the bits that exist, ...): evaluated for every depth
            # 1..32 and every slot below it, under the path's conditions, it must be exactly that one bit
            val = ors[0].val
            idx = [x[4] for x in paths.subexprs(val) if x[0] == "b" and x[1] == "shl" and x[3][0] == "c" and x[3][2] == 1]
            qls = set(x for e_ in [val] + [c_ for c_, t_, i_ in p.conds] for x in paths.subexprs(e_)
                      if x[0] == "ld" and _mq_field(x[1], fn, m) == "queue_len")
            if len(set(idx)) == 1:
                bad = None
                feasible = 0
                for L in range(1, 33):
                    for k in range(L):
                        env = {idx[0]: k}
                        for x in qls:
                            env[x] = L
                        try:
                            if not all(paths.cond_holds(cd, env) for cd in p.conds):
                                continue
                            feasible += 1
                            got = eval_concrete(val, env) & 0xffffffff
                        except NoValue as nv:
                            got = "undefined (%s)" % fmt(nv.args[0])[:50]
                        if got != (1 << k) and bad is None:
                            bad = "with depth %d the flag of slot %d is published as %s" % (L, k, got if isinstance(got, str) else hex(got))
                if feasible == 0:
                    continue
                ok = bad is None
                note = "; evaluated for depths 1..32: " + ("always exactly bit `slot`" if ok else bad)
        chk.ob("R5.send", pathid, ok,
               "send publishes with exactly one atomic OR of a one-bit mask (found %d RMW: %s)%s" %
               (len(ors), ", ".join("%s %s" % (e.extra, fmt(e.val)[:60]) for e in ors), note),
               (ors[0].inst.loc if ors else p.ret_inst.loc), fn.name)


def _pool_pointer_is_null(p, fn, m):
    """True if the path requires a pointer computed from the queue's pool (basep + offset) to be NULL: the pool is an object,
    such paths do not exist (they appear when an operation is rebuilt on a helper that returns the slot or NULL)."""
    for c, taken, inst in p.conds:
        cc = strip_casts(c)
        if cc[0] == "icmp" and cc[1] in ("eq", "ne") and ("null",) in (strip_casts(cc[2]), strip_casts(cc[3])):
            x = strip_casts(cc[2]) if strip_casts(cc[3]) == ("null",) else strip_casts(cc[3])
            if x[0] == "p":
                r = ptr_parts(x)[0]
                if r[0] == "ld" and _mq_field(r[1], fn, m) == "basep" and ((cc[1] == "eq") == bool(taken)):
                    return True
    return False


def check_receive(chk, cfg, m, fn):
    """The receiver tests bit receivep of full_flags and, when it returns a message, clears exactly that bit with one
    atomic AND.  The test may use the old value returned by the AND itself, or an atomic load made before it: only the
    receiver side ever clears bits (R5.clear-owner), so a bit it saw set is still set when it clears it."""
    tag = "%s[%s]" % (fn.name, cfg)
    for p in paths.enumerate_paths(fn, m):
        if paths.is_assert_fail_path(p) or _pool_pointer_is_null(p, fn, m):
            continue
        pathid = "%s path %s" % (tag, "->".join(b.lstrip("%") for b in p.blocks))
        rm = _events_on(p, fn, m, "full_flags", ("rmw",))
        other = _events_on(p, fn, m, "full_flags", ("load", "store", "cmpxchg"))
        writes = [e for e in other if e.kind != "load"]
        loads = [e for e in other if e.kind == "load"]
        returns_msg = not _is_null(p.ret)
        if writes or len(rm) > 1 or any(e.extra != "and" for e in rm) or (returns_msg and len(rm) != 1):
            chk.ob("R5.receive", pathid, False,
                   "receive must clear its flag with one atomic AND and with nothing else (found RMW %s, other writes %s%s): "
                   "a separate load/store pair loses a send that lands in between" %
                   ([e.extra for e in rm], [e.kind for e in writes], "; a message is returned without clearing its flag"
                    if returns_msg and not rm else ""),
                   (rm or writes or [p.events[-1]])[0].inst.loc, fn.name)
            continue
        rp = None
        if rm:
            e = rm[0]
            operand = strip_casts(e.val)
            bit = None
            if operand[0] == "b" and operand[1] == "xor" and operand[4][0] == "c" and operand[4][2] == (1 << operand[2]) - 1:
                bit = _one_bit_mask(operand[3])
            ok = bit is not None and strip_casts(bit)[0] == "ld" and _mq_field(strip_casts(bit)[1], fn, m) == "receivep"
            chk.ob("R5.receive-mask", pathid, ok,
                   "the AND operand is ~(1 << receivep) (operand %s)" % fmt(e.val)[:80], e.inst.loc, fn.name)
            rp = strip_casts(bit) if ok else None
        # observations of the flag word, in program order; the decision must rest on the first one that is tested
        obs = sorted(loads + rm, key=lambda e: p.events.index(e))
        vals = [(o, o.res if o.kind == "rmw" else o.val) for o in obs]
        vals = [(o, v) for o, v in vals if v is not None]
        deciding = [(c, taken, inst) for c, taken, inst in p.conds if any(paths.contains(c, lambda x, v=v: x == v) for o, v in vals)]
        anchor = (rm or loads or [p.events[-1]])[0].inst
        if not deciding:
            chk.ob("R5.receive-decides-on-old", pathid, False,
                   "the outcome of receive does not depend on an atomic observation of the flag word (the value returned by the "
                   "atomic AND, or an atomic load before it)", anchor.loc, fn.name)
            continue
        if rm:
            late = [o for o, v in vals if o.kind == "load" and p.events.index(o) > p.events.index(rm[0])
                    and any(paths.contains(c, lambda x, v=v: x == v) for c, t, i in deciding)]
            if late:
                chk.ob("R5.receive-decides-on-old", pathid, False, "the flag word is tested after it was cleared", late[0].inst.loc, fn.name)
                continue
        if rp is None:
            for c, taken, inst in deciding:
                for x in paths.subexprs(c):
                    if x[0] == "ld" and _mq_field(x[1], fn, m) == "receivep":
                        rp = x
        try:
            good = True
            for flagval in (0, 1 << 3, 0xffffffff ^ (1 << 3), 0xffffffff):
                env = {v: flagval for o, v in vals}
                if rp is not None:
                    env[rp] = 3
                on_path = all(paths.cond_holds(cd, env) for cd in deciding)
                bitset = bool(flagval & (1 << 3))
                if on_path and (bitset != returns_msg):
                    good = False
            chk.ob("R5.receive-decides-on-old", pathid, good and rp is not None,
                   "returns a message exactly when bit receivep of the observed flag word was set", anchor.loc, fn.name)
        except NoValue:
            chk.unknown("R5.receive-decides-on-old", pathid, "decision %s not evaluable" % fmt(deciding[0][0])[:100], anchor.loc)


def check_observer(chk, cfg, m, fn):
    tag = "%s[%s]" % (fn.name, cfg)
    for p in paths.enumerate_paths(fn, m):
        if paths.is_assert_fail_path(p) or p.ret is None:
            continue
        lds = _events_on(p, fn, m, "full_flags", ("load",))
        if not lds:
            continue
        r = strip_casts(p.ret)
        ok = False
        if fn.ret_ty.endswith("*"):
            # an observer that hands out the slot or NULL (a peek): on each path, NULL exactly when the bit it tested is clear
            rp = None
            for c, t, i in p.conds:
                for x in paths.subexprs(c):
                    if x[0] == "ld" and _mq_field(x[1], fn, m) == "receivep":
                        rp = x
            try:
                good = rp is not None
                for flagval in (0, 1 << 3, 0xffffffff ^ (1 << 3), 0xffffffff):
                    env = {lds[0].val: flagval, rp: 3} if rp is not None else {lds[0].val: flagval}
                    mine = [cd for cd in p.conds if paths.contains(cd[0], lambda x: x == lds[0].val)]
                    if all(paths.cond_holds(cd, env) for cd in mine) and (bool(flagval & 8) == _is_null(p.ret)):
                        good = False
                chk.ob("R5.empty-observer", tag + " " + ("NULL" if _is_null(p.ret) else "slot"), good,
                       "the observer reports 'nothing there' (NULL) exactly when bit receivep of full_flags is clear", p.ret_inst.loc, fn.name)
            except NoValue:
                chk.unknown("R5.empty-observer", tag, "decision not evaluable", p.ret_inst.loc)
            continue
        try:
            rps = set(x for x in paths.subexprs(r) if x[0] == "ld" and _mq_field(x[1], fn, m) == "receivep")
            for c_, t_, i_ in p.conds:
                rps |= set(x for x in paths.subexprs(c_) if x[0] == "ld" and _mq_field(x[1], fn, m) == "receivep")
            qls = set(x for e_ in [r] + [c_ for c_, t_, i_ in p.conds] for x in paths.subexprs(e_)
                      if x[0] == "ld" and _mq_field(x[1], fn, m) == "queue_len")
            good = True
            feasible = 0
            # every depth 1..32, the receive cursor at both ends and in the middle, the flag word with nothing / only that bit /
            # everything but that bit / everything set (flag bits exist only below the depth)
            for L in range(1, 33):
                full = (1 << L) - 1
                for rpv in sorted({0, L // 2, L - 1}):
                    for flagval in (0, 1 << rpv, full ^ (1 << rpv), full):
                        env = {lds[0].val: flagval}
                        for x in rps:
                            env[x] = rpv
                        for x in qls:
                            env[x] = L
                        if not all(paths.cond_holds(cd, env) for cd in p.conds):
                            continue
                        feasible += 1
                        val = eval_concrete(r, env)
                        if bool(val) != (not (flagval & (1 << rpv))):
                            good = False
            if not feasible:
                continue
            ok = good and bool(rps)
        except NoValue:
            chk.unknown("R5.empty-observer", tag, "result %s not evaluable" % fmt(r)[:100], p.ret_inst.loc)
            continue
        chk.ob("R5.empty-observer", tag, ok,
               "empty() is true exactly when bit receivep of full_flags is clear (what receive would test)",
               p.ret_inst.loc, fn.name)


def run_config(chk, cfg):
    mods = build.load_units(build.library_units(), cfg)
    for m in mods:
        chk.note_unit(m)
    fns = mq.mq_functions(mods)
    check_r1(chk, cfg, fns)
    seen = {}
    n_cas = 0
    for m, fn, acc in fns:
        chk.note_fn(fn)
        rs = mq.roles(fn, acc)
        for r in rs:
            seen.setdefault(r, []).append(fn.name)
        # R6
        for a in acc:
            if mq.acc_field(a) == "receivep" and (rs & {"claim", "send", "release"}):
                chk.ob("R6.receivep-owner", "%s[%s] %s receivep" % (fn.name, cfg, a.kind), False,
                       "receivep is single-owner bookkeeping of the receiver; a sender-side function (%s) accesses it"
                       % ",".join(sorted(rs)), a.inst.loc, fn.name)
            elif mq.acc_field(a) == "receivep":
                chk.ob("R6.receivep-owner", "%s[%s] %s receivep" % (fn.name, cfg, a.kind), True,
                       "role %s" % ",".join(sorted(rs)), a.inst.loc, fn.name)
        for a in acc:
            if mq.acc_field(a) == "full_flags" and "init" not in rs:
                rmop = a.inst.get("rmwop") if a.kind == "rmw" else None
                clears = (a.kind == "rmw" and rmop != "or") or (a.kind in ("store", "cmpxchg"))
                if clears:
                    chk.ob("R5.clear-owner", "%s[%s] %s full_flags" % (fn.name, cfg, rmop or a.kind), not (rs & {"claim", "send"}),
                           "flag bits are cleared only on the receiver's side (roles %s): a bit the receiver has seen set stays "
                           "set until the receiver clears it" % ",".join(sorted(rs)), a.inst.loc, fn.name)
        if "init" in rs:
            continue
        if "claim" in rs:
            n_cas += check_claim(chk, cfg, m, fn)
        if "release" in rs:
            check_release(chk, cfg, m, fn)
        if "send" in rs:
            check_send(chk, cfg, m, fn)
        if "receive" in rs:
            check_receive(chk, cfg, m, fn)
        if rs == {"observer"}:
            check_observer(chk, cfg, m, fn)
    # every slot needs its own bit in the flag word: the header documents queues of up to 32 messages (and nothing stops a
    # caller from making one), so the word must have 32 bits - a narrower member truncates `1 << slot` to nothing for the
    # higher slots: the send is acknowledged and never received
    for m in mods:
        tid = m.di_by_name.get("messageq_t")
        if tid:
            sz = {pth: size for pth, off, size, ty in m.di_leaves(tid)}
            bits = 8 * sz.get("full_flags", 0)
            chk.ob("R5.flag-width", "messageq_t.full_flags[%s]" % cfg, bits >= 32,
                   "full_flags has %d bits: one for each of the up to 32 slots" % bits if bits >= 32 else
                   "full_flags has only %d bits: in a queue of more than %d messages the mask `1 << slot` of slots %d.. is truncated to 0, so "
                   "messageq_send sets no flag and the message is never received" % (bits, bits, bits), "include/librfn/messageq.h", "messageq_t")
            break
    # the API functions exist by name even when (in some build) their body no longer touches the queue: a release that
    # releases nothing, a send that sets no flag
    for api, role, what in (("messageq_release", "release", "returns no buffer to the pool (num_free is never incremented)"),
                            ("messageq_send", "send", "sets no flag (the message is never seen by the receiver)"),
                            ("messageq_claim", "claim", "reserves nothing")):
        if not seen.get(role):
            for m in mods:
                if m.has_fn(api):
                    chk.ob("R2.release" if role == "release" else "R5.send" if role == "send" else "R2.reservation", "%s[%s]" % (api, cfg), False,
                           "%s does not access the queue's shared state in this build: it %s" % (api, what), m.fn(api).loc, api)
    for r in ("claim", "send", "receive", "release", "observer"):
        chk.expect("roles", "%s-role functions [%s]" % (r, cfg), len(seen.get(r, [])), 1)
    chk.expect("R4", "compare-exchange sites on paths [%s]" % cfg, n_cas, 2)


def run(chk):
    chk.explanation = (
        "Static protocol-shape analysis of every function touching messageq_t in both atomics builds "
        "(path enumeration over the IR, finite-set evaluation of the reservation test, cyclic-index model "
        "for the CAS). Decides atomic-only/RMW-only shared state, reservation pairing, representability of "
        "the optimistic counter's transient, CAS hand-out and successor, the one-bit OR / AND-NOT flag "
        "protocol and single ownership of receivep. Each is a necessary condition of C04 with a concrete "
        "failing interleaving when broken. It does NOT decide linearizability or claim-order delivery over "
        "all interleavings.")
    chk.rule("R1", "num_free, sendp, full_flags: every access atomic; modified only by RMW / compare-exchange outside initialisers")
    chk.rule("R2", "claim: every path has net -1 on num_free and returns a buffer, or net 0 and returns NULL without touching sendp; release: +1 exactly once")
    chk.rule("R3", "optimistic reservation: for fetched values 1..32 the granting path is taken; for 0 and for 0 minus 1..8 in-flight refused claimers (as the counter's own type) the refusing path is taken")
    chk.rule("R4", "sendp advanced only by compare-exchange whose desired value is the wrapped successor of its own expected value; returned slot index is that validated expected value")
    chk.rule("R5", "send = one atomic OR of 1<<slot; receive = one atomic AND of ~(1<<receivep) deciding on the returned old value; empty() tests the same bit")
    chk.rule("R6", "receivep accessed only by receiver-role functions and initialisers")
    chk.assumptions += [
        "queue_len in [1, 255] (the header documents <= 32); indices observed in sendp are in [0, queue_len-1] (inductive)",
        "ring invariant: the flag of the slot that a successful compare-exchange on sendp hands out is clear (used only to discard paths that re-check exactly that bit)",
        "clang's lowering of <stdatomic.h>/__atomic builtins is the C11 operation of the same name (the repo builds with gcc)",
        "headline behaviour (linearizability, claim-order delivery, quiescent free count under all interleavings) is NOT decided",
    ]
    chk.not_decided += ["linearizability, claim-order delivery and quiescent free count over all interleavings"]
    for cfg in ("default", "noatomics"):
        run_config(chk, cfg)
    # the slot a claimer is handed, the flag bit a sender sets and the slot a receiver reads are the same message only if
    # index -> address and address -> index are exact inverses: C10's addressing rule, on the same functions
    from . import C10
    chk.rule("C10.G3", "claim/receive return basep + index*msg_len computed without narrowing; send recovers the index from the un-narrowed byte offset")
    chk.rule_prefix = "C10."
    chk.rule_filter = lambda r: r.startswith("G3")
    try:
        for cfg in ("default", "noatomics"):
            mods = build.load_units(build.library_units(), cfg)
            for m, fn, acc in mq.mq_functions(mods):
                rs = mq.roles(fn, acc)
                for role in ("receive", "claim", "send"):
                    if role in rs and "init" not in rs:
                        C10.check_addressing(chk, cfg, m, fn, role)
    finally:
        chk.rule_prefix = ""
        chk.rule_filter = None
    # the queue's capacity (queue_len, num_free) as set by the static initialiser is base_len / msg_len of the caller's argument
    # expressions, each taken as a unit (C10 G1): a wrong depth hands out slots beyond the pool or never uses part of it
    chk.rule("C10.G1", "MESSAGEQ_VAR_INIT and messageq_init describe the same queue; the macro uses each argument as one expression")
    chk.rule_prefix = "C10."
    chk.rule_filter = lambda r: r.startswith("G1")
    try:
        for cfg in ("default", "noatomics"):
            C10.check_g1(chk, cfg)
            C10.check_macro_arguments(chk, cfg)
    finally:
        chk.rule_prefix = ""
        chk.rule_filter = None
    # "a claimed buffer belongs to its claimer until sent and then to the receiver until released": the library's own users of
    # the queue must stay inside that window (C07.R3: slot written before send, read before release)
    from . import C07
    chk.rule("C07.R3", "in-tree users: every write of a claimed slot precedes messageq_send, every read of a received slot precedes messageq_release")
    chk.rule_prefix = "C07."
    chk.rule_filter = lambda r: r.startswith("R3.slot")
    try:
        for cfg in ("default", "noatomics"):
            C07.check_r3_slots(chk, cfg, build.load_units(build.library_units(), cfg))
    finally:
        chk.rule_prefix = ""
        chk.rule_filter = None
