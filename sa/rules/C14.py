"""C14 - decoding untrusted WAV bytes is memory-safe and reports length faithfully.

 D1 all input goes through the checked cursor: the byte pointer flows only into rf_pack_init and the local
    rf_pack_t is only ever handed to rf_(un)pack_* (never inspected); the cursor itself is sticky and guarded
    (C12 rules P1-P3 on pack.c)
 D2 the value returned on success is sz - remaining; the shortest successful walk is RF_WAVHEADER_MIN_SIZE
 D3 every length taken from the input and used to advance the cursor is bounded first
 D4 validate / get_format / tostring cannot fault: every division by a non-constant is guarded against zero,
    no loops, switches total
"""
from .. import build, flow, paths
from ..ir import AnalysisError
from ..paths import fmt, ptr_parts, strip_casts
from . import wav, C12

HELPERS = ["rf_wavheader_validate", "rf_wavheader_get_format", "rf_wavheader_tostring"]


def check_d1(chk, m):
    fn = m.fn("rf_wavheader_decode")
    chk.note_fn(fn)
    # the const uint8_t* parameter
    pidx = None
    for i, a in enumerate(fn.args):
        if a.ty == "i8*":
            pidx = i
            break
    if pidx is None:
        raise AnalysisError("anchor vanished: byte pointer parameter of rf_wavheader_decode")
    uses = fn.users(fn.args[pidx])
    bad = []
    work = list(uses)
    seen = set()
    while work:
        u = work.pop()
        if id(u) in seen:
            continue
        seen.add(id(u))
        if u.op == "bitcast" or u.op == "getelementptr":
            work += fn.users(u.value)
        elif u.op == "call" and u.callee == "rf_pack_init":
            pass
        elif u.op == "call" and u.callee and u.callee.startswith("llvm.dbg"):
            pass
        else:
            bad.append(u)
    direct_ok = False
    if bad and all(u.op == "load" or (u.op == "call" and (u.callee or "").startswith(("llvm.memcpy", "memcpy"))) for u in bad):
        # the decoder also reads the input directly: every such read must lie below a length the path has already compared the
        # size argument with (one bounds check covering a fixed prefix)
        szidx = [i for i, a in enumerate(fn.args) if a.ty == "i32"]
        direct_ok = bool(szidx)
        n_direct = 0
        worst = None
        for p in paths.enumerate_paths(fn, m, call_effects=wav.EFFECTS) if szidx else []:
            if paths.is_assert_fail_path(p):
                continue
            for k, e in enumerate(p.events):
                src = e.ptr if e.kind == "load" else (e.val if e.kind == "memcpy" else None)
                if src is None or e.kind == "memcpy" and ptr_parts(e.ptr)[0] == ("arg", pidx):
                    if e.kind == "memcpy" and ptr_parts(e.ptr)[0] == ("arg", pidx):
                        direct_ok, worst = False, "the input is written at %s" % e.inst.loc
                    continue
                root, off, var = ptr_parts(src)
                if root != ("arg", pidx):
                    continue
                n_direct += 1
                size = e.size if e.kind == "load" else (e.extra[2] if e.extra is not None and e.extra[0] == "c" else None)
                if var or size is None:
                    direct_ok, worst = False, "a direct read at a variable offset / of a variable length at %s" % e.inst.loc
                    continue
                mine = [cd for cd, pos in zip(p.conds, p.cond_pos) if pos <= k and
                        not [x for x in paths.subexprs(cd[0]) if x[0] in ("ld", "call", "sym") or (x[0] == "arg" and x[1] != szidx[-1])]
                        and paths.contains(cd[0], lambda x: x == ("arg", szidx[-1]))]
                least = None
                for v in range(0, 4097):
                    try:
                        if all(paths.cond_holds(cd, {("arg", szidx[-1]): v}) for cd in mine):
                            least = v
                            break
                    except paths.NoValue:
                        break
                if least is None or least < off + size:
                    direct_ok = False
                    worst = "bytes %d..%d of the input are read at %s on a path that has only established a length of %s" % (
                        off, off + size - 1, e.inst.loc, least)
        if direct_ok and n_direct:
            chk.ob("D1.input-only-via-cursor", "rf_wavheader_decode parameter %d" % pidx, True,
                   "besides rf_pack_init the input is read directly %d time(s), each below a length the path has compared the size "
                   "argument with" % n_direct, fn.loc, fn.name)
        elif worst:
            chk.ob("D1.input-only-via-cursor", "rf_wavheader_decode parameter %d" % pidx, False, worst, fn.loc, fn.name)
            direct_ok = True
    if not direct_ok:
        chk.ob("D1.input-only-via-cursor", "rf_wavheader_decode parameter %d" % pidx, not bad,
               "the input pointer flows only into rf_pack_init" + ("" if not bad else "; also used by %s at %s" % (bad[0].op, bad[0].loc)),
               fn.loc, fn.name)
    # the local rf_pack_t is opaque
    n = 0
    for f in m.defined_functions():
        for i in f.real_insts():
            if i.op == "alloca" and i["alloc_ty"] in ("%struct.rf_pack",):
                n += 1
                work = list(f.users(i.value))
                seen = set()
                bad = []
                while work:
                    u = work.pop()
                    if id(u) in seen:
                        continue
                    seen.add(id(u))
                    if u.op in ("bitcast", "getelementptr"):
                        if u.op == "getelementptr" and (u.get("off", 0) != 0 or u.get("var_offs")):
                            bad.append(u)
                        work += f.users(u.value)
                    elif u.op == "call" and u.callee and (u.callee.startswith(("rf_pack_", "rf_unpack_", "llvm.dbg", "llvm.lifetime"))):
                        pass
                    else:
                        bad.append(u)
                chk.ob("D1.cursor-opaque", "%s local %s" % (f.name, i.name), not bad,
                       "the rf_pack_t is only handed to rf_(un)pack_* functions, never inspected or dereferenced directly"
                       + ("" if not bad else "; %s at %s reads or addresses its fields (bytes at the raw cursor may lie "
                          "beyond the supplied length)" % (bad[0].op, bad[0].loc)), f.loc, f.name)
    chk.expect("D1", "local rf_pack_t objects in wavheader.c", n, 2)


def ret_equals_consumed(p, fn, m, wh, items, res2field):
    """The success value is computed from the decoded members (a size function of the header): it must equal the number of bytes the
    walk consumed.  Both sides are expressions over the members the path compares and adds; they are evaluated on a grid of member
    values around every constant those members are compared with, for every outcome of the chunk-id comparisons that is consistent
    (two comparisons of the same bytes with the same constant agree; a member still zero from the initial memset is not equal to a
    four-character id).  -> (True / False / None / 'infeasible', text)"""
    ev_ = p.events
    # what each header byte-array member holds at each moment: an item read from the input, zero, or unknown
    content, zeroed, mclass, n_items = {}, False, {}, 0
    for e in ev_:
        if e.kind == "memset" and ptr_parts(e.ptr) == (("arg", wh), 0, ()) and e.val[0] == "c" and e.val[2] == 0:
            content, zeroed = {}, True
        elif e.kind == "call" and e.callee == "rf_unpack_bytes":
            f = wav.field_name(e.args[1], fn, m, wh) or wav.local_name(e.args[1])
            n_items += 1
            if f:
                content[f] = ("item", n_items)
        elif e.kind == "memcpy" and e.val is not None:
            d = wav.field_name(e.ptr, fn, m, wh) or wav.local_name(e.ptr)
            s_ = wav.field_name(e.val, fn, m, wh) or wav.local_name(e.val)
            if d:
                content[d] = content.get(s_, ("zero",) if (zeroed and s_ and not s_.startswith("<local")) else ("unk", fmt(e.val)[:30]))
        elif e.kind == "call" and e.callee in ("memcmp", "bcmp") and len(e.args) == 3:
            g = [a for a in e.args[:2] if ptr_parts(a)[0][0] == "g"]
            o = [a for a in e.args[:2] if ptr_parts(a)[0][0] != "g"]
            if len(g) == 1 and len(o) == 1:
                f = wav.field_name(o[0], fn, m, wh) or wav.local_name(o[0])
                mclass[e.res] = (ptr_parts(g[0])[0][1], content.get(f, ("zero",) if zeroed and f and not f.startswith("<local") else ("unk", f)))

    def norm(x):
        if isinstance(x, tuple) and x in mclass:
            return ("M",) + mclass[x]
        if not isinstance(x, tuple):
            return x
        if x in res2field:
            return ("F", res2field[x])
        if x and x[0] == "ld":
            f = wav.field_name(x[1], fn, m, wh)
            if f:
                return ("F", f)
        if x and x[0] == "cast":
            return norm(x[4])
        return tuple(norm(y) if isinstance(y, tuple) else y for y in x)
    ret = norm(p.ret)
    lens = []
    fixed = 0
    for it in items:
        if it.kind == "int":
            fixed += it.width
        else:
            lens.append(norm(it.length_expr))
    conds = [(norm(c), t) for c, t, i in p.conds if not (i is not None and getattr(i, "op", None) == "switch")]
    atoms = lambda x: set(y for y in paths.subexprs(x) if isinstance(y, tuple) and y and y[0] in ("F", "M"))
    rel = atoms(ret)
    for l in lens:
        rel |= atoms(l)
    # conditions over the relevant members only decide feasibility; a condition that mixes them with other values is left out
    use = []
    for c, t in conds:
        a = atoms(c)
        others = [y for y in paths.subexprs(c) if isinstance(y, tuple) and y and y[0] in ("ld", "call", "arg", "sym")]
        if a and not others:
            use.append((c, t))
            rel |= a
    cand = {}
    for a in rel:
        if a[0] == "M":
            cand[a] = [1] if a[2] == ("zero",) else [0, 1]
        else:
            core = a in atoms(ret) or any(a in atoms(l) for l in lens)
            ks = {0, 1, 0xffff, 0x10000 + 18, 0xffffffff} if core else {0, 1}
            for c, t in use + [(ret, None)] + [(l, None) for l in lens]:
                if a not in atoms(c):
                    continue
                for y in paths.subexprs(c):
                    if isinstance(y, tuple) and y and y[0] == "c":
                        ks |= {max(0, y[2] - 1), y[2], y[2] + 1}
            cand[a] = sorted(k for k in ks if 0 <= k <= 0xffffffff)
    names = sorted(cand, key=str)
    total = 1
    for a in names:
        total *= len(cand[a])
    if total > 200000:
        return None, "too many member values to evaluate"

    def ev(x, val):
        k = x[0]
        if k == "c":
            return x[2]
        if k == "null":
            return 0
        if k in ("F", "M"):
            return val[x]
        if k == "b":
            r = paths.fold_bin(x[1], x[2], ("c", x[2], ev(x[3], val) & paths.mask(x[2])), ("c", x[2], ev(x[4], val) & paths.mask(x[2])))
            if r is None:
                raise NoValue(x)
            return r[2]
        if k == "icmp":
            bits = paths.expr_bits(x[2]) or paths.expr_bits(x[3]) or 32
            return paths.fold_icmp(x[1], ("c", bits, ev(x[2], val) & paths.mask(bits)), ("c", bits, ev(x[3], val) & paths.mask(bits)))[2]
        if k == "sel":
            return ev(x[2] if ev(x[1], val) else x[3], val)
        raise NoValue(x)
    import itertools
    feasible = 0
    try:
        for combo in itertools.product(*[cand[a] for a in names]):
            val = dict(zip(names, combo))
            if not all(bool(ev(c, val)) == bool(t) for c, t in use):
                continue
            feasible += 1
            consumed = fixed + sum(ev(l, val) for l in lens)
            rv = ev(ret, val) & 0xffffffff
            if rv != consumed & 0xffffffff:
                show = ", ".join("%s=%s" % (a[1] if a[0] == "F" else "%s-id-matches" % a[1], (v if a[0] == "F" else (v == 0))) for a, v in sorted(val.items(), key=str))
                return False, "the value returned is computed from the decoded members and differs from the bytes consumed: with %s the walk consumes %d bytes and %d is returned" % (show, consumed, rv)
    except NoValue as nv:
        return None, "not evaluable: %s" % fmt(nv.args[0])[:40]
    if not feasible:
        return "infeasible", ""
    return True, "a value computed from the decoded members that equals the bytes consumed for every evaluated combination of member values (%d)" % feasible


def check_d2_d3(chk, m):
    fn = m.fn("rf_wavheader_decode")
    wh = wav.wh_index(fn)
    # RF_WAVHEADER_MIN_SIZE from the header, via a witness
    wm = build.compile_text("c14_witness.c", "#include <librfn/wavheader.h>\nint w_min(void) { return RF_WAVHEADER_MIN_SIZE; }\n")
    r = paths.enumerate_paths(wm.fn("w_min"), wm)[0].ret
    if r is None or r[0] != "c":
        raise AnalysisError("RF_WAVHEADER_MIN_SIZE is not a constant")
    min_size = r[2]
    sz_arg = None
    for i, a in enumerate(fn.args):
        if a.ty == "i32":
            sz_arg = i
    succ = wav.success_paths(fn, m)
    mins = []
    for p in succ:
        pid = "path " + "->".join(b.lstrip("%") for b in p.blocks)
        guards, items, res2field = wav.grammar_of_path(p, fn, m, wh, "decode")
        # D2 return formula (accepted idioms: sz - remaining, consumed; `sz + k` reports "incomplete")
        rr = strip_casts(p.ret)
        last_item = max([k for k, e in enumerate(p.events) if e.kind == "call" and isinstance(e.callee, str)
                         and e.callee.startswith("rf_unpack_")], default=-1)
        if rr[0] == "b" and rr[1] == "add" and rr[3] == ("arg", sz_arg) and rr[4][0] == "c" and 0 < rr[4][2] < (1 << 31):
            continue    # explicit "header incomplete" report (> sz): not a success path
        verdict = None
        narrow = [x for x in paths.subexprs(p.ret) if x[0] == "cast" and x[1] == "trunc" and x[3] < 32 and
                  paths.contains(x[4], lambda y: y[0] == "call" and y[1] in ("rf_pack_consumed", "rf_pack_remaining"))]
        if narrow:
            verdict = False
            why = ("the byte count is narrowed to %d bits on its way to the result: the longest header the decoder accepts is 46 + 65535 "
                   "bytes, so a length of 65536 + k is reported as k (a truncated input is then reported as a short success)" % narrow[0][3])
        elif rr[0] == "b" and rr[1] == "sub" and rr[3] == ("arg", sz_arg) and rr[4][0] == "call" and rr[4][1] == "rf_pack_remaining":
            q = [k for k, e in enumerate(p.events) if e.kind == "call" and e.res == rr[4]]
            verdict = bool(q) and q[0] > last_item
            why = "sz - rf_pack_remaining()" + ("" if verdict else " queried BEFORE the last item is consumed (stale count)")
        elif rr[0] == "call" and rr[1] == "rf_pack_consumed":
            q = [k for k, e in enumerate(p.events) if e.kind == "call" and e.res == rr]
            verdict = bool(q) and q[0] > last_item
            why = "rf_pack_consumed()" + ("" if verdict else " queried BEFORE the last item is consumed (stale count)")
        elif rr == ("arg", sz_arg):
            verdict = False
            why = "%s, which is not the number of bytes the header occupies" % fmt(p.ret)
        if verdict is None:
            verdict, why = ret_equals_consumed(p, fn, m, wh, items, res2field)
            if verdict == "infeasible":
                continue
        if verdict is None:
            chk.unknown("D2.return-consumed", pid, "success value %s is not one of the modelled idioms%s" % (fmt(p.ret)[:80], why and " (%s)" % why or ""), p.ret_inst.loc)
        else:
            chk.ob("D2.return-consumed", pid, verdict,
                   "success returns the bytes the header occupies as counted by the cursor after the last item (> sz when "
                   "incomplete): " + why, p.ret_inst.loc, fn.name)
        total = 0
        for it in items:
            if it.kind == "int":
                total += it.width
            elif it.length_expr[0] == "c":
                total += it.length_expr[2]
        mins.append(total)
        # D3 untrusted lengths
        # (a member may also be filled from bytes read directly: the stored expression then stands for the member)
        res2field = dict(res2field)
        for e in p.events:
            if e.kind == "store" and wav.field_name(e.ptr, fn, m, wh) and strip_casts(e.val)[0] not in ("c", "null", "call"):
                res2field.setdefault(strip_casts(e.val), wav.field_name(e.ptr, fn, m, wh))
        for k, e in enumerate(p.events):
            if e.kind == "call" and e.callee == "rf_unpack_bytes" and e.args[2][0] != "c":
                L = wav.normalise(e.args[2], res2field, fn, m, wh)
                fields = set(x[1] for x in paths.subexprs(L) if x[0] == "F")
                bounded = None
                for (c, taken, inst), pos in zip(p.conds, p.cond_pos):
                    if pos > k:
                        continue
                    n = wav.normalise(c, res2field, fn, m, wh)
                    if n[0] != "icmp":
                        continue
                    pred, a, b = n[1], n[2], n[3]
                    if not taken:
                        pred = {"eq": "ne", "ne": "eq", "ult": "uge", "uge": "ult", "ugt": "ule", "ule": "ugt",
                                "slt": "sge", "sge": "slt", "sgt": "sle", "sle": "sgt"}[pred]
                    fa = set(x[1] for x in paths.subexprs(a) if x[0] == "F")
                    fb = set(x[1] for x in paths.subexprs(b) if x[0] == "F")
                    upper = None
                    if pred in ("ule", "ult") and (fa & fields) and not (fb & fields):
                        upper = b
                    if pred in ("uge", "ugt") and (fb & fields) and not (fa & fields):
                        upper = a
                    if upper is not None:
                        is_const = upper[0] == "c" and upper[2] < (1 << 31) - 4096
                        rel_sz = paths.contains(upper, lambda x: x == ("arg", sz_arg) or (x[0] == "call" and x[1] == "rf_pack_remaining"))
                        if is_const or rel_sz:
                            bounded = (n, inst)
                chk.ob("D3.bounded-length", "%s skip %s" % (pid, fmt(L)[:50]), bounded is not None,
                       "a length taken from the input (%s) advances the cursor%s" %
                       (fmt(L)[:60], " after being bounded by %s at %s" % (fmt(bounded[0])[:60], bounded[1].loc) if bounded else
                        " without an upper bound: a 32-bit size field wraps the cursor / the int-narrowed remaining count, so "
                        "a short positive length (< RF_WAVHEADER_MIN_SIZE) is reported as success"),
                       e.inst.loc, fn.name)
    chk.ob("D2.min-size", "rf_wavheader_decode", bool(mins) and min(mins) == min_size,
           "the shortest successful walk consumes %s bytes; RF_WAVHEADER_MIN_SIZE is %d" % (min(mins) if mins else None, min_size),
           fn.loc, fn.name)
    chk.expect("D2", "successful decoder paths", len(succ), 4)


def check_table_index(chk, m, prog):
    """D4.table-index: in the helpers that run on a decoded (untrusted) structure, a load from a global array at a variable index
    is inside the array on every path: the path's conditions bound the index below by 0 and above by the element count.  A signed
    index (an enum with a negative member) tested on one side only reads before the table."""
    n = 0
    seen = set()
    for name in HELPERS:
        for f in prog.closure(m.fn(name)):
            if f.module is not m or f.name in seen:
                continue
            seen.add(f.name)
            for p in paths.enumerate_paths(f, m):
                for e in p.events:
                    if e.kind != "load" or not isinstance(e.ptr, tuple) or e.ptr[0] != "p" or e.ptr[1][0] != "g" or not e.ptr[3]:
                        continue
                    g = m.globals.get(e.ptr[1][1])
                    if g is None or len(e.ptr[3]) != 1 or not g.get("size"):
                        chk.unknown("D4.table-index", "%s %s" % (f.name, e.inst.loc), "table load not of the form global[index]", e.inst.loc)
                        continue
                    idx, stride = e.ptr[3][0]
                    # element i is read at off + i*stride .. + width: inside the object for i <= (size - off - width) / stride
                    width = getattr(e, "size", None) or 1
                    count = (g["size"] - e.ptr[2] - width) // stride + 1
                    core = paths.strip_casts(idx)
                    lo, hi, unsigned_hi = None, None, None
                    for c, taken, inst in p.conds:
                        if inst is not None and inst.op == "switch":
                            continue
                        cc = paths.strip_casts(c) if c[0] == "cast" else c
                        if cc[0] != "icmp":
                            continue
                        a, b, pred = cc[2], cc[3], cc[1]
                        if b[0] != "c" and a[0] == "c":
                            a, b = b, a
                            pred = {"slt": "sgt", "sgt": "slt", "sle": "sge", "sge": "sle", "ult": "ugt", "ugt": "ult", "ule": "uge",
                                    "uge": "ule"}.get(pred, pred)
                        if paths.strip_casts(a) != core or b[0] != "c":
                            continue
                        if not taken:
                            pred = {"slt": "sge", "sge": "slt", "sgt": "sle", "sle": "sgt", "ult": "uge", "uge": "ult", "ugt": "ule",
                                    "ule": "ugt", "eq": "ne", "ne": "eq"}[pred]
                        bits = b[1]
                        sv = b[2] - (1 << bits) if b[2] >> (bits - 1) else b[2]
                        if pred == "sle":
                            hi = sv if hi is None else min(hi, sv)
                        elif pred == "slt":
                            hi = sv - 1 if hi is None else min(hi, sv - 1)
                        elif pred == "sge":
                            lo = sv if lo is None else max(lo, sv)
                        elif pred == "sgt":
                            lo = sv + 1 if lo is None else max(lo, sv + 1)
                        elif pred == "ule":
                            unsigned_hi = b[2] if unsigned_hi is None else min(unsigned_hi, b[2])
                        elif pred == "ult":
                            unsigned_hi = b[2] - 1 if unsigned_hi is None else min(unsigned_hi, b[2] - 1)
                        elif pred == "eq":
                            lo = hi = sv
                    if unsigned_hi is not None:         # an unsigned bound holds for the value read as unsigned: both sides at once
                        lo = 0 if lo is None else max(lo, 0)
                        hi = unsigned_hi if hi is None else min(hi, unsigned_hi)
                    n += 1
                    inst_ = "%s %s[%s] %s" % (f.name, g["name"], fmt(idx)[:40], "->".join(b_.lstrip("%") for b_ in p.blocks)[-60:])
                    if lo is None and hi is None:
                        chk.unknown("D4.table-index", inst_, "no comparison of the index with a constant on this path", e.inst.loc)
                        continue
                    ok = lo is not None and hi is not None and lo >= 0 and hi <= count - 1
                    chk.ob("D4.table-index", inst_, ok,
                           "index into %s (%d elements) is within [%s, %s] on this path" % (g["name"], count, lo, hi) if ok else
                           "index into %s (%d elements) is only known to be in [%s, %s] on this path: %s" % (
                               g["name"], count, "-inf" if lo is None else lo, "+inf" if hi is None else hi,
                               "a negative value (RF_WAVHEADER_UNKNOWN is -1, and a decoded header of an unrecognised format yields it) "
                               "reads before the table" if lo is None or lo < 0 else "a value beyond the last element reads past the table"),
                           e.inst.loc, f.name)
    # (no instance on the unchanged tree - the helpers use switches; positive examples in selftest/mutants/C14.json)
    chk.expect("D4.table-index", "variable-index loads from global tables in the helpers", n, 0)


def check_d4(chk, m, prog):
    n_div = 0
    for name in HELPERS:
        fn = m.fn(name)
        for f in prog.closure(fn):
            if f.module is not m:
                continue
            chk.note_fn(f)
            heads = f.loops_headers()
            counted = {h: f.counted_loop(h) for h in heads}
            if heads and all(counted.values()):
                chk.ob("D4.no-loop", f.name, True, "every loop in %s is counted by a constant (%s): terminates on every structure"
                       % (f.name, "; ".join("at most %d rounds, %s" % c for c in counted.values())), f.loc, f.name)
            elif heads:
                chk.unknown("D4.no-loop", f.name, "%s contains a loop that is not counted by a constant (%s): termination on every "
                            "structure is not decided" % (f.name, ", ".join(h for h in heads if not counted[h])), f.loc)
            else:
                chk.ob("D4.no-loop", f.name, True, "no loop in %s (terminates on every structure)" % f.name, f.loc, f.name)
            # ... and no recursion: a helper that can reach itself through calls recurses on attacker-chosen fields
            rec = [c for c in f.calls() if c.callee and m.has_fn(c.callee) and f in prog.closure(m.functions[c.callee])]
            chk.ob("D4.no-recursion", f.name, not rec,
                   "%s cannot reach itself through calls" % f.name if not rec else
                   "%s calls %s, which can reach %s again: the recursion depth is controlled by header fields (stack exhaustion)"
                   % (f.name, rec[0].callee, f.name), (rec[0].loc if rec else f.loc), f.name)
            ps = paths.enumerate_paths(f, m, call_effects=wav.EFFECTS)
            for p in ps:
                for k, e in enumerate(p.events):
                    if e.kind != "div":
                        continue
                    n_div += 1
                    d = strip_casts(e.val)
                    guarded = False
                    for (c, taken, inst), pos in zip(p.conds, p.cond_pos):
                        if pos > k:
                            continue
                        cc = strip_casts(c)
                        if cc[0] == "icmp":
                            a, b = strip_casts(cc[2]), strip_casts(cc[3])
                            for x, y in ((a, b), (b, a)):
                                if x == d and y[0] == "c" and y[2] == 0:
                                    if (cc[1] == "ne" and taken) or (cc[1] == "eq" and not taken) or (cc[1] == "ugt" and taken and y is b):
                                        guarded = True
                        elif cc == d and taken:
                            guarded = True
                    chk.ob("D4.div-guarded", "%s %s by %s" % (f.name, e.extra, fmt(e.val)[:50]), guarded,
                           "division by a value taken from the (untrusted) structure%s" %
                           (" is guarded by a non-zero test" if guarded else
                            " is not guarded: a zero field (e.g. a cleared or hostile header) raises SIGFPE"),
                           e.inst.loc, f.name)
            for i in f.real_insts():
                if i.op == "switch":
                    dflt = f.blocks[i["default"]]
                    ok = dflt.term.op != "unreachable"
                    chk.ob("D4.switch-total", "%s switch" % f.name, ok, "switch has a reachable default", i.loc, f.name)
    chk.expect("D4", "divisions by non-constants in the helpers", n_div, 1)


def run(chk):
    chk.explanation = (
        "Static taint/guard analysis of the WAV decoder and its helpers over the IR: the input pointer reaches only "
        "rf_pack_init and the cursor object is never inspected by the decoder; the cursor functions themselves are "
        "sticky and guarded (C12 P1-P3 re-checked on pack.c); the success value is sz minus the remaining count taken "
        "after the last item and the shortest walk equals RF_WAVHEADER_MIN_SIZE; every input-derived length is "
        "upper-bounded before it advances the cursor; helper functions have no loop, total switches and guarded "
        "divisions. Comparison with a reference parser on all byte strings is NOT performed.")
    chk.rule("D1", "input pointer -> rf_pack_init only; local rf_pack_t handed only to rf_(un)pack_*; pack.c cursor sticky and guarded (C12.P1-P3)")
    chk.rule("D2", "success returns sz - rf_pack_remaining() queried after the last item; min over successful walks of the summed item widths == RF_WAVHEADER_MIN_SIZE")
    chk.rule("D3", "every non-constant length passed to a cursor advance is upper-bounded on that path by a constant < 2^31 or by sz/remaining")
    chk.rule("D4", "helpers: no loops, no recursion, switches with reachable default, every division by a non-constant dominated by a non-zero test of the same value")
    chk.assumptions += [
        "rf_(un)pack_* never read or write outside [basep, endp) (C12), so reads are confined to the supplied bytes",
        "the libc formatter behind strdup_printf (vsnprintf, vsprintf) terminates and is memory safe; strdup_printf itself is checked (str.S1, str.S2)",
    ]
    m = wav.load()
    chk.note_unit(m)
    prog = flow.Program([m])
    check_d1(chk, m)
    check_d2_d3(chk, m)
    check_d4(chk, m, prog)
    check_table_index(chk, m, prog)
    # the cursor the decoder relies on: sticky, guarded (truncation never yields success)
    chk.rule_prefix = "pack."
    chk.rule_filter = lambda r: r.startswith(("P1", "P2", "P3", "P4.zero-on-overflow", "P6"))
    mp = build.load_unit("librfn/pack.c")
    chk.note_unit(mp)
    for fn in mp.defined_functions():
        if C12.is_pack_fn(fn) and C12.NAME_RE.match(fn.name):
            C12.check_transfer(chk, mp, fn)
    # "a value larger than the supplied length when the header is incomplete" is sz - rf_pack_remaining() with remaining < 0
    C12.check_aux(chk, mp)
    chk.rule_prefix = ""
    chk.rule_filter = None
    # the text itself is produced by strdup_printf: its contract (complete text, own buffer) is part of this property's clause
    from . import strdep
    strdep.import_into(chk)
