"""C01 - fibres are dispatched exactly when runnable, once per reason, in FIFO order: code-shape clauses.

 S1 one dispatch per pass (exactly one indirect call through fibre_t.fn under fibre_scheduler_next, on no cycle)
 S2 FIFO discipline: the run queue is only appended to / extracted from the head / searched / removed from;
    the timer queue is only inserted into by list_insert_sorted(duetime_cmp); nobody outside list.c writes links
 S3 membership typestate: at every insertion of a fibre into a kernel queue there is evidence on the path that it
    is on neither queue (guard / removal / just moved by the iterator), with no may-insert call in between
 S4 pass order on the slow path: drain -> re-queue/reset the previous fibre -> expire timers -> pop -> dispatch
 S5 reset on exit/fail and only then; re-queue on yield and only then
 S6 the fast path is taken only under yielded AND run queue empty AND timer queue empty AND atomic queue empty
 S7 fibre_self returns kernel.current, which is only ever set from the popped run-queue head
 S8 fibre_kill: drain first; both queues are searched (short-circuit allowed); result is the OR of the removals
 S9 the atomic-queue drain is not re-entered between receiving a request and appending its fibre (arrival order)
Not decided: equality with the FIFO model over all histories.
"""
from .. import build, flow, paths
from ..ir import AnalysisError
from ..paths import fmt, ptr_parts, strip_casts, eval_concrete, NoValue
from . import fib

RUNQ_OK = {"list_insert", "list_extract", "list_contains", "list_remove", "list_empty", "list_peek"}
TIMERQ_OK = {"list_insert_sorted", "list_iterate", "list_contains", "list_remove", "list_extract", "list_empty", "list_peek"}
MAY_INSERT = {"fibre_run", "handle_atomic_runq", "update_current_state", "handle_timerq", "<indirect>",
              "list_insert", "list_insert_sorted", "list_push", "list_iterator_insert", "fibre_scheduler_next"}
LINK_INIT_EXCEPTIONS = {"fibre_init": "initialiser (memset of the fibre_t before it is ever queued)",
                        "console_init": "initialiser (memset of console_t, which embeds its fibre)",
                        "fibre_eventq_init": "initialiser"}


def check_s1(chk, m, K, prog):
    fn = m.fn("fibre_scheduler_next")
    sites = []
    for f in prog.closure(fn):
        if f.module is not m:
            continue
        for c in f.calls():
            if c.callee is None:
                sites.append((f, c))
    good = []
    for f, c in sites:
        ld = c.callee_val.inst
        ok = False
        if ld is not None and ld.op == "load":
            try:
                pp = flow.resolve_ptr(ld.ops[0], m)
                ok = pp.off == K.fibre["fn"][0] and not pp.var
            except AnalysisError:
                pass
        if ok:
            good.append((f, c))
    chk.ob("S1.one-dispatch", "fibre_scheduler_next", len(good) == 1 and len(sites) == 1,
           "%d indirect call(s) under fibre_scheduler_next, %d of them through fibre_t.fn (exactly one dispatch per pass)"
           % (len(sites), len(good)), fn.loc, fn.name)
    for f, c in good:
        chk.ob("S1.dispatch-not-in-loop", "%s %s" % (f.name, c.loc), not f.in_cycle(c) and f.name == "fibre_scheduler_next",
               "the dispatch lies on no cycle of fibre_scheduler_next", c.loc, f.name)


def check_s2(chk, m, K, lib_mods):
    n = 0
    for f in m.defined_functions():
        iters = {}      # alloca name -> queue it iterates
        for c in f.calls():
            if c.callee in fib.LIST_API and c.args:
                try:
                    pp = flow.resolve_ptr(c.args[0], m)
                except AnalysisError:
                    continue
                q = None
                if pp.root.k == "global" and pp.root.name == "kernel" and not pp.var:
                    for name in ("runq", "timerq"):
                        if pp.off == K.members[name][0]:
                            q = name
                if q is None:
                    continue
                n += 1
                allowed = RUNQ_OK if q == "runq" else TIMERQ_OK
                why = {"runq": "the run queue is FIFO: fibres join at the tail (list_insert) and leave at the head (list_extract)",
                       "timerq": "the timer queue is ordered by due time: fibres join only through list_insert_sorted"}[q]
                chk.ob("S2.queue-discipline", "%s: %s(&kernel.%s)" % (f.name, c.callee, q), c.callee in allowed,
                       "%s; %s is %s" % (why, c.callee, "allowed" if c.callee in allowed else "not one of %s" % sorted(allowed)),
                       c.loc, f.name)
                if c.callee == "list_insert_sorted":
                    cmpv = c.args[2]
                    ok = cmpv.k == "func" and cmpv.name == "duetime_cmp"
                    chk.ob("S2.timer-comparator", "%s: list_insert_sorted(&kernel.timerq, ., %s)" % (f.name, cmpv), ok,
                           "sleepers are ordered by duetime_cmp", c.loc, f.name)
    chk.expect("S2", "list-API calls on kernel queues", n, 9)
    # nobody outside list.c writes list links
    n_w = 0
    for mod in lib_mods:
        if mod.unit.endswith("list.c"):
            continue
        for f in mod.defined_functions():
            for a in flow.accesses(f, mod):
                if not a.writes or a.field is None:
                    continue
                fld = a.field
                is_link = fld.endswith("link.next") or (a.struct in ("list_t", "list_node_t", "list_node") and fld in ("head", "tail", "next")) \
                    or fld in ("runq.head", "runq.tail", "timerq.head", "timerq.tail")
                if a.kind in ("memset", "memcpy_dst") and a.struct in ("fibre_t", "fibre", "console_t", "console", "fibre_eventq_t", "fibre_eventq"):
                    is_link = True if f.name in LINK_INIT_EXCEPTIONS else is_link
                if not is_link:
                    continue
                n_w += 1
                if f.name in LINK_INIT_EXCEPTIONS:
                    chk.ob("S2.links-owned-by-list", "%s %s" % (f.name, a.kind), True, LINK_INIT_EXCEPTIONS[f.name], a.inst.loc, f.name)
                else:
                    chk.ob("S2.links-owned-by-list", "%s writes %s.%s" % (f.name, a.struct, fld), False,
                           "list links are written outside list.c: the queues can no longer be reasoned about through the list API",
                           a.inst.loc, f.name)


def insertion_sites(p, K):
    out = []
    for k, e in fib.calls_on(p):
        if e.callee in ("list_insert", "list_insert_sorted", "list_push") and e.args:
            q = K.queue_arg(e.args[0])
            if q in ("runq", "timerq"):
                out.append((k, e, q, e.args[1]))
    return out


def evidence_not_in(p, K, k_ins, node, q, fn, m):
    """(kind, index) of the latest evidence before event k_ins that `node` is not on kernel queue q."""
    best = None
    for k, e, truth in fib.cond_truth_of_call(p, "list_contains", lambda a: K.queue_arg(a[0]) == q and a[1] == node):
        if k < k_ins and truth is False:
            best = ("guard !list_contains(&kernel.%s, n)" % q, k)
    for k, e in fib.calls_on(p):
        if k < k_ins and e.callee == "list_remove" and K.queue_arg(e.args[0]) == q and e.args[1] == node:
            if best is None or k > best[1]:
                best = ("list_remove(&kernel.%s, n)" % q, k)
        if k < k_ins and e.callee == "list_extract" and K.queue_arg(e.args[0]) == q and e.res == node:
            best = ("n = list_extract(&kernel.%s)" % q, k)
    # list.c's shape invariant: the last node of a list is list->tail and only the last node has a NULL next, so a node whose
    # next is NULL and which is not the queue's tail is not on the queue
    try:
        tid = m.di_by_name.get("list_t")
        nid = m.di_by_name.get("list_node_t") or m.di_by_name.get("list_node")
        tail_o = {p_: o for p_, o, s_, t_ in m.di_leaves(tid)}["tail"]
        next_o = {p_: o for p_, o, s_, t_ in m.di_leaves(nid)}["next"]
    except Exception:
        tail_o = next_o = None
    if tail_o is not None:
        next_null = not_tail = None
        for (c, taken, inst), pos in zip(p.conds, p.cond_pos):
            cc = strip_casts(c)
            if pos > k_ins or cc[0] != "icmp" or cc[1] not in ("eq", "ne"):
                continue
            a, b = strip_casts(cc[2]), strip_casts(cc[3])
            for x, y in ((a, b), (b, a)):
                if x[0] == "ld" and y == ("null",) and ptr_parts(x[1]) == ptr_parts(paths.mkptr(node, next_o)) and (cc[1] == "eq") == bool(taken):
                    next_null = pos
                if x[0] == "ld" and K.member_of(x[1]) and K.member_of(x[1]) == (q, tail_o) and y == strip_casts(node) and (cc[1] == "ne") == bool(taken):
                    not_tail = pos
        if next_null is not None and not_tail is not None and (best is None or max(next_null, not_tail) > best[1]):
            muts = [k for k, e in fib.calls_on(p) if min(next_null, not_tail) <= k < k_ins and fib.callee_name(e) in MAY_INSERT]
            if not muts:
                best = ("n->next == NULL and n is not kernel.%s's tail (only the tail of a list has a NULL next)" % q, max(next_null, not_tail))
    # an empty queue holds nobody
    fact = fib.queue_empty_facts(p, K).get(q)
    if fact is not None and fact[0] is True and fact[1] < k_ins and (best is None or fact[1] > best[1]):
        best = ("kernel.%s tested empty" % q, fact[1])
    return best


def check_s3(chk, m, K):
    n_sites = 0
    for f in m.defined_functions():
        has = any(c.callee in ("list_insert", "list_insert_sorted", "list_push") for c in f.calls())
        if not has:
            continue
        loops = f.loops_headers()
        if loops:
            runs = [(s, p) for s, p in paths.enumerate_segments(f, m, call_effects=fib.EFFECTS) if p.end != "unreachable"]
        else:
            runs = [(f.entry.name, p) for p in paths.enumerate_paths(f, m, call_effects=fib.EFFECTS) if not paths.is_assert_fail_path(p)]
        # iterator allocas and the queue they walk (IR level)
        iter_q = {}
        for c in f.calls("list_iterate"):
            try:
                pq = flow.resolve_ptr(c.args[0], m)
                pi = flow.resolve_ptr(c.args[1], m)
            except AnalysisError:
                continue
            if pq.root.k == "global" and pq.root.name == "kernel":
                for name in ("runq", "timerq"):
                    if pq.off == K.members[name][0]:
                        iter_q[pi.root.name] = name
        for start, p in runs:
            for k_ins, e, q, node in insertion_sites(p, K):
                n_sites += 1
                sid = "%s: %s(&kernel.%s, %s) [%s]" % (f.name, e.callee, q, fmt(node)[:40], "->".join(b.lstrip("%") for b in p.blocks[-4:]))
                problems = []
                unknowns = []
                for other in ("runq", "timerq"):
                    ev = evidence_not_in(p, K, k_ins, node, other, f, m)
                    if ev is None:
                        # moved by an iterator over `other` in this run?
                        moved = None
                        for k, c in fib.calls_on(p):
                            if k < k_ins and c.callee == "list_iterator_remove":
                                it = ptr_parts(c.args[0])[0]
                                if it[0] in ("alloca", "sym") and iter_q.get(it[1]):
                                    moved = (iter_q[it[1]], k)
                        # ... or the node is the head just peeked and the head has been extracted since
                        for k, c in fib.calls_on(p):
                            if k < k_ins and c.callee == "list_peek" and c.res == node and K.queue_arg(c.args[0]) in ("runq", "timerq"):
                                qq = K.queue_arg(c.args[0])
                                ext = [k2 for k2, c2 in fib.calls_on(p) if k < k2 < k_ins and c2.callee == "list_extract"
                                       and K.queue_arg(c2.args[0]) == qq]
                                muts = [k2 for k2, c2 in fib.calls_on(p) if k < k2 < (ext[0] if ext else k_ins)
                                        and fib.callee_name(c2) in MAY_INSERT | {"list_remove", "list_iterator_remove", "list_extract"}
                                        and k2 not in ext[:1]]
                                if len(ext) == 1 and not muts and (q != qq):
                                    moved = (qq, ext[0])
                        # ... or the node IS the result of extracting the head of the other kernel queue: it was on that queue, a node
                        # is on at most one queue (one link member), and it is now on none
                        for k, c in fib.calls_on(p):
                            if k < k_ins and c.callee == "list_extract" and strip_casts(c.res) == strip_casts(node) and \
                                    K.queue_arg(c.args[0]) in ("runq", "timerq") and K.queue_arg(c.args[0]) != q:
                                moved = (K.queue_arg(c.args[0]), k)
                        if moved is not None:
                            # the node being inserted is the one the iterator designated
                            ev = ("moved out of kernel.%s by list_iterator_remove / list_extract (a node is on at most one queue)" % moved[0], moved[1])
                    if ev is None and f.name == "fibre_timeout" and other == "timerq" and q == "timerq":
                        ev = ("listed exception: the running fibre was popped for dispatch and, within the property's scope, has at most "
                              "one unsatisfied fibre_timeout per dispatch", -1)
                    if ev is None:
                        # is membership decided from state this rule does not interpret?  A test, on this path, of a member of the
                        # fibre's own descriptor other than its link (a 'queued' bit in f->state, a counter) means the code keeps
                        # membership somewhere else: whether that bookkeeping is right is not something S3 can decide
                        fib_root = ptr_parts(node)[0]
                        opaque = None
                        for c, taken, inst in p.conds:
                            for x in paths.subexprs(c):
                                if x[0] == "ld" and x[1] is not None and ptr_parts(x[1])[0] == fib_root and not ptr_parts(x[1])[2]:
                                    offx = ptr_parts(x[1])[1] - (ptr_parts(node)[1] - K.link_off)
                                    if offx not in [o for o, sz in K.fibre.values()]:
                                        opaque = x          # a member the documented descriptor does not have
                                    elif offx == K.fibre["state"][0]:
                                        # a single BIT of the state word tested: a flag kept next to the result code (comparing the
                                        # whole word with a FIBRE_STATE_* value is the scheduler's ordinary state, not bookkeeping
                                        # of queue membership, and is no evidence)
                                        for y in paths.subexprs(c):
                                            if y[0] == "b" and y[1] == "and" and y[4][0] == "c" and paths.contains(y[3], lambda z: z == x) \
                                                    and bin(y[4][2]).count("1") == 1:
                                                opaque = x
                        if opaque is not None and other == "runq":
                            # a bit of the fibre's own state used as "is on the run queue": sound if S11 holds
                            mask = None
                            for c, taken, inst in p.conds:
                                cc = strip_casts(c)
                                if cc[0] == "icmp" and cc[1] in ("eq", "ne"):
                                    for a, z in ((cc[2], cc[3]), (cc[3], cc[2])):
                                        a, z = strip_casts(a), strip_casts(z)
                                        if z[0] == "c" and z[2] == 0 and a[0] == "b" and a[1] == "and" and a[4][0] == "c" and \
                                                paths.contains(a[3], lambda x: x == opaque) and (cc[1] == "eq") == bool(taken):
                                            mask = a[4][2]
                            if mask is not None and ptr_parts(opaque[1])[1] - (ptr_parts(node)[1] - K.link_off) == K.fibre["state"][0]:
                                v = fib.check_flag_tracks_runq(chk, m, K, mask)
                                if v is True:
                                    ev = ("membership bit %#x of the fibre's state is clear (S11: the bit tracks the run queue)" % mask, 0)
                                elif v is False:
                                    ev = ("membership bit tested (S11 reports where it does not track the run queue)", 0)
                        if ev is None and opaque is not None:
                            unknowns.append("membership in kernel.%s is decided from %s, which this rule does not interpret" % (other, fmt(opaque)[:40]))
                            continue
                        if ev is None:
                            problems.append("no evidence that the fibre is not already on kernel.%s" % other)
                            continue
                    between = [fib.callee_name(c) for k, c in fib.calls_on(p) if ev[1] < k < k_ins and fib.callee_name(c) in MAY_INSERT]
                    if between:
                        problems.append("%s may queue the fibre between the evidence (%s) and the insertion" % (between[0], ev[0]))
                if unknowns and not problems:
                    chk.unknown("S3.membership", sid, "; ".join(unknowns), e.inst.loc)
                    continue
                chk.ob("S3.membership", sid, not problems,
                       "; ".join(problems) + (": the node would be linked into two lists (or twice into one) and share one next pointer"
                                              if problems else "") if problems else
                       "evidence on this path that the fibre is on neither queue", e.inst.loc, f.name)
    chk.expect("S3", "queue insertions on paths", n_sites, 2)    # at least: one into the run queue, one into the timer queue


def _ucs_guards_itself(m, K):
    """update_current_state() does nothing on every path on which kernel.current is NULL, and tests it on every path that does
    something."""
    try:
        fn, ps = fib.fn_paths(m, "update_current_state")
    except Exception:
        return False
    for p in ps:
        if paths.is_assert_fail_path(p):
            continue
        cur = None
        first_effect = min([k for k, e in enumerate(p.events) if e.kind in ("store", "call", "rmw", "cmpxchg", "memset", "memcpy")], default=None)
        for (c, taken, inst), pos in zip(p.conds, p.cond_pos):
            cc = strip_casts(c)
            if cc[0] == "icmp" and cc[1] in ("eq", "ne") and ("null",) in (cc[2], cc[3]):
                o = strip_casts(cc[2] if cc[3] == ("null",) else cc[3])
                if o[0] == "ld" and o[1] == K.kptr("current") and cur is None and (first_effect is None or pos <= first_effect):
                    cur = (cc[1] == "ne") == bool(taken)
        if cur is None and first_effect is not None:
            return False
        if cur is False and first_effect is not None:
            return False
    return True


def _no_time_has_passed(p, K, m=None):
    """A condition of the path says  time == kernel.now (as loaded before this pass stored the new time)  over all 32 bits:
    `(time - now) == 0` or `time == now`, not a narrowed difference."""
    nowp = K.kptr("now")
    for c, taken, inst in p.conds:
        cc = c
        # strip only value-preserving wrappers of the whole comparison (not of its operands)
        while cc[0] == "cast" and (cc[1] in ("zext", "sext") or (
                cc[1] == "trunc" and cc[3] == 1 and cc[4][0] == "cast" and cc[4][1] == "zext" and cc[4][2] == 1)):
            # (also a Boolean kept in a `bool` local: trunc-to-i1 of the zext of an i1 is that i1)
            cc = cc[4]
        if cc[0] != "icmp" or cc[1] not in ("eq", "ne") or (cc[1] == "eq") != bool(taken):
            continue
        a, b = cc[2], cc[3]
        if b[0] == "c" and b[2] == 0 and a[0] == "ld" and a[2] == 4 and K.member_of(a[1]) and K.member_of(a[1])[1] == 0 \
                and K.member_of(a[1])[0] not in ("now", "state", "current") and m is not None:
            # a 32-bit kernel member tested against 0: what this path stored to it, if nothing else in the unit writes it
            mem = a[1]
            st = [e for e in p.events if e.kind == "store" and e.ptr == mem]
            if len(st) == 1 and st[0].size == 4 and _only_writer(m, K, mem, st[0].inst):
                a = st[0].val
        if b[0] == "c" and b[2] == 0 and a[0] == "b" and a[1] == "sub" and a[2] == 32:
            a, b = a[3], a[4]
        if {a[0], b[0]} == {"arg", "ld"}:
            ld = a if a[0] == "ld" else b
            if ld[1] == nowp and ld[2] == 4:
                return True
    return False


def _only_writer(m, K, mem, inst):
    from .. import flow
    off = ptr_parts(mem)[1]
    for fn in m.defined_functions():
        for i in fn.insts():
            if i is inst:
                continue
            if i.op == "store":
                ptr, size = i.ops[1], i["size"]
            elif i.op == "call" and isinstance(i.callee, str) and i.callee.startswith(("llvm.mem",)):
                ptr, size = i.args[0], None
            else:
                continue
            try:
                pp = flow.resolve_ptr(ptr, m)
            except AnalysisError:
                continue
            if pp.root.k == "global" and pp.root.name == "kernel" and (pp.var or size is None or (pp.off < off + 4 and off < pp.off + size)):
                return False
    return True


def check_s4_s6(chk, m, K):
    fn, ps = fib.fn_paths(m, "fibre_scheduler_next")
    chk.note_fn(fn)
    fib.validate_counters(chk, m, K)      # (a validated run-queue counter tested against 0 is an emptiness test: S12)
    yielded = K.enums.get("FIBRE_STATE_YIELDED")
    n_slow = n_fast = 0
    for p in ps:
        # (the pop may be written out in place: list_extract(&kernel.runq) is what get_next_task does)
        names = ["get_next_task" if (e.callee == "list_extract" and e.args and K.queue_arg(e.args[0]) == "runq") else fib.callee_name(e)
                 for k, e in fib.calls_on(p)]
        pid = "fibre_scheduler_next " + "->".join(b.lstrip("%") for b in p.blocks)
        key = [x for x in names if x in ("handle_atomic_runq", "update_current_state", "handle_timerq", "get_next_task", "<indirect>")]
        if "get_next_task" in names:
            n_slow += 1
            want = ["handle_atomic_runq"]
            # current != NULL on this path?
            cur = None
            for c, taken, inst in p.conds:
                cc = strip_casts(c)
                if cc[0] == "icmp" and cc[2][0] == "ld" and cc[2][1] == K.kptr("current") and cc[3] == ("null",):
                    if cur is None:
                        cur = (cc[1] == "ne") == bool(taken)
            if cur:
                want.append("update_current_state")
            elif cur is None and "update_current_state" in names and _ucs_guards_itself(m, K):
                # called without a test here: the callee returns at once, having done nothing, when there is no previous fibre
                want.append("update_current_state")
            want += ["handle_timerq", "get_next_task"]
            core = [x for x in key if x != "<indirect>"]
            if core == [x for x in want if x != "handle_timerq"] and _no_time_has_passed(p, K, m):
                # the expiry step may be skipped on a pass whose time argument equals (all 32 bits) the time of the previous pass:
                # every fibre the previous pass left on the timer queue is due strictly after that time (the expiry predicate takes
                # all that are not, fibre_timeout queues nothing that is not: C02 T3), so the step would find nothing
                chk.ob("S4.pass-order", pid, True, "drain -> %spop, with the expiry step skipped only where time == the previous pass's "
                       "kernel.now (full width): nothing can have become due" % ("re-queue/reset previous fibre -> " if cur else ""),
                       p.ret_inst.loc, fn.name)
                continue
            if core == [x for x in want if x != "handle_timerq"] and fib.must_call(m, "get_next_task", "handle_timerq"):
                # the expiry walk has moved into the pop helper (which runs it on every path): the order of the two inside it is that
                # helper's business (C02 T3.expiry-every-pass), not something this rule reads off the caller
                chk.unknown("S4.pass-order", pid, "the expiry walk is run by get_next_task itself (on every path of it), not by "
                            "fibre_scheduler_next: its order relative to the pop is not decided here", p.ret_inst.loc)
                continue
            chk.ob("S4.pass-order", pid, core == want,
                   "slow path order must be drain -> %sexpire timers -> pop; observed %s" %
                   ("re-queue/reset previous fibre -> " if cur else "", core), p.ret_inst.loc, fn.name)
            if "<indirect>" in key:
                chk.ob("S4.dispatch-after-pop", pid, key.index("<indirect>") > key.index("get_next_task"),
                       "the dispatch follows the pop", p.ret_inst.loc, fn.name)
        else:
            if "<indirect>" not in names:
                continue
            n_fast += 1
            facts = {"yielded": False, "runq": False, "timerq": False, "atomic": False}
            for c, taken, inst in p.conds:
                cc = strip_casts(c)
                if cc[0] == "icmp" and strip_casts(cc[2])[0] == "ld" and strip_casts(cc[2])[1] == K.kptr("state") and cc[3][0] == "c":
                    if cc[3][2] == yielded and ((cc[1] == "ne" and not taken) or (cc[1] == "eq" and taken)):
                        facts["yielded"] = True
            qf = fib.queue_empty_facts(p, K)
            for q in ("runq", "timerq", "atomic"):
                if q in qf and qf[q][0] is True:
                    facts[q] = True
            # draining the atomic queue before the run queue is tested serves the same purpose: every request accepted
            # before the pass has then been moved to the run queue, whose emptiness is tested afterwards
            drains = [k for k, e in fib.calls_on(p) if fib.callee_name(e) == "handle_atomic_runq"]
            if drains and "runq" in qf and qf["runq"][0] is True and min(drains) < qf["runq"][1]:
                facts["atomic"] = True
            extra = [x for x in names if x in ("update_current_state", "handle_timerq")]
            if extra:
                chk.ob("S4.pass-order", pid, False, "a path that dispatches without popping the run queue calls %s" % extra,
                       p.ret_inst.loc, fn.name)
            missing = [k for k, v in facts.items() if not v]
            chk.ob("S6.fast-path-guards", pid, not missing,
                   "the scheduler skips its queues only if the previous fibre yielded and the run queue, the timer queue and the "
                   "atomic queue are all empty%s" % ("" if not missing else "; not established on this path: %s (a fibre waiting there "
                                                   "would be starved while one fibre keeps yielding)" % missing), p.ret_inst.loc, fn.name)
    chk.expect("S4", "slow paths of fibre_scheduler_next", n_slow, 2)
    chk.expect("S6", "fast paths of fibre_scheduler_next", n_fast, 1)


def check_s5(chk, m, K):
    fn, ps = fib.fn_paths(m, "update_current_state")
    chk.note_fn(fn)
    E = K.enums
    names = {E.get("FIBRE_STATE_YIELDED"): "YIELDED", E.get("FIBRE_STATE_WAITING"): "WAITING",
             E.get("FIBRE_STATE_EXITED"): "EXITED", E.get("FIBRE_STATE_FAILED"): "FAILED"}
    seen = set()
    # the outcome evaluated per state value (the handling may be written as a switch, an if-chain or a constant table indexed by
    # the state): the path taken when kernel.state holds that value
    state_ld = set(x for p in ps for c, t, i in p.conds for x in paths.subexprs(c) if x[0] == "ld" and x[1] == K.kptr("state"))
    by_eval = {}
    for sv, sname in names.items():
        if sv is None:
            continue
        feas = []
        try:
            for p in ps:
                if paths.is_assert_fail_path(p):
                    continue
                env = paths.LazyEnv(m, {x: sv for x in state_ld})
                if all(paths.cond_holds(cd, env) for cd in p.conds):
                    feas.append(p)
        except NoValue:
            feas = None
        if feas is not None and len(feas) == 1:
            by_eval[id(feas[0])] = by_eval.get(id(feas[0]), []) + [sv]
    for p in ps:
        st = None
        if by_eval:
            for sv in by_eval.get(id(p), []):
                _s5_case(chk, fn, K, p, names[sv], seen)
            continue
        for c, taken, inst in p.conds:
            cc = strip_casts(c)
            if cc[0] == "ld" and cc[1] == K.kptr("state") and not isinstance(taken, bool):
                st = taken
            elif cc[0] == "icmp" and strip_casts(cc[2])[0] == "ld" and strip_casts(cc[2])[1] == K.kptr("state") and cc[3][0] == "c" \
                    and ((cc[1] == "eq" and taken is True) or (cc[1] == "ne" and taken is False)):
                st = cc[3][2]
        if st not in names:
            continue
        _s5_case(chk, fn, K, p, names[st], seen)
    chk.expect("S5", "state cases of update_current_state", len(seen), 4)


def _reset_at_dispatch(m, K, sname):
    """In fibre_scheduler_next: on every path on which the dispatched body's result equals the given state, current->priv := 0 is
    stored after the call (and on no path on which the result is YIELDED or WAITING)."""
    E = K.enums
    want = {"EXITED": E.get("FIBRE_STATE_EXITED"), "FAILED": E.get("FIBRE_STATE_FAILED")}.get(sname)
    others = [E.get("FIBRE_STATE_YIELDED"), E.get("FIBRE_STATE_WAITING")]
    if want is None:
        return False
    try:
        fn, ps = fib.fn_paths(m, "fibre_scheduler_next")
    except Exception:
        return False
    seen_want = False
    for p in ps:
        if paths.is_assert_fail_path(p):
            continue
        ind = [(k, e) for k, e in enumerate(p.events) if e.kind == "call" and not isinstance(e.callee, str)]
        if not ind:
            continue
        k0, call = ind[0]
        resets = [k for k, e in enumerate(p.events) if k > k0 and e.kind == "store" and e.val[0] == "c" and e.val[2] == 0 and
                  ptr_parts(e.ptr)[1] == K.fibre["priv"][0] and ptr_parts(e.ptr)[0][0] == "ld" and ptr_parts(e.ptr)[0][1] == K.kptr("current")]
        mine = [cd for cd in p.conds if paths.contains(cd[0], lambda x: x == call.res)]
        try:
            for sv in [want] + others:
                if sv is None:
                    continue
                if all(paths.cond_holds(cd, {call.res: sv}) for cd in mine):
                    if sv == want:
                        seen_want = True
                        if len(resets) != 1:
                            return False
                    elif resets:
                        return False
        except NoValue:
            return False
    return seen_want


def _s5_case(chk, fn, K, p, s, seen):
    if True:
        seen.add(s)
        # (fibre_run = drain + make_runnable; inside the pass the drain has just been made - S4 checks that order - so
        # make_runnable(current) alone is the same re-queue)
        requeue = [e for k, e in fib.calls_on(p) if e.callee in ("fibre_run", "make_runnable") and e.args and strip_casts(e.args[0])[0] == "ld"
                   and strip_casts(e.args[0])[1] == K.kptr("current")]
        reset = [e for e in p.events if e.kind == "store" and e.val[0] == "c" and e.val[2] == 0 and ptr_parts(e.ptr)[1] == K.fibre["priv"][0]
                 and ptr_parts(e.ptr)[0][0] == "ld" and ptr_parts(e.ptr)[0][1] == K.kptr("current")]
        if s == "YIELDED":
            ok = len(requeue) == 1 and not reset
            why = "a fibre that yielded is made runnable again (fibre_run(current)) and keeps its resume point"
        elif s == "WAITING":
            ok = not requeue and not reset
            why = "a waiting fibre is neither re-queued nor reset"
        else:
            ok = not requeue and len(reset) == 1
            why = "an exited/failed fibre is not re-queued and restarts from its beginning (priv := 0)"
            if not requeue and not reset and _reset_at_dispatch(fn.module, K, s):
                # the rewind was moved to the point where the body returns: nothing runs between the end of that pass and this
                # function in the next one, and priv is read by the body alone
                ok = True
                why += " - done right after the body returned that state (fibre_scheduler_next)"
        chk.ob("S5.state-handling", "update_current_state state=%s" % s, ok,
               "%s; observed %d re-queue(s), %d reset(s)" % (why, len(requeue), len(reset)), fn.loc, fn.name)


def check_s7(chk, m, K):
    fn, ps = fib.fn_paths(m, "fibre_self")
    for p in ps:
        r = p.ret
        chk.ob("S7.fibre-self", "fibre_self", r is not None and r[0] == "ld" and r[1] == K.kptr("current"),
               "fibre_self returns kernel.current (got %s)" % fmt(r)[:40], fn.loc, fn.name)
    n = 0
    for f in m.defined_functions():
        for a in flow.accesses(f, m):
            if a.writes and a.struct == "kernel" and a.field == "current":
                n += 1
                ok = f.name == "fibre_scheduler_next"
                if ok:
                    v = a.value.inst if a.value is not None else None
                    ok = v is not None and v.op == "call" and v.callee == "get_next_task"
                    if not ok and a.value is not None:
                        # the pop written out in place: NULL, or the fibre containing list_extract(&kernel.runq)
                        work, seen_, srcs = [a.value], set(), []
                        while work and len(seen_) < 32:
                            x = work.pop()
                            if x.k != "inst" or x.inst is None:
                                srcs.append("null" if x.is_null() else x.k)
                                continue
                            if x.name in seen_:
                                continue
                            seen_.add(x.name)
                            d = x.inst
                            if d.op in ("getelementptr", "bitcast"):
                                work.append(d.ops[0])
                            elif d.op == "select":
                                work += [d.ops[1], d.ops[2]]
                            elif d.op == "phi":
                                work += [vv for vv, bb in d.incoming]
                            elif d.op == "call" and d.callee == "list_extract":
                                try:
                                    qa = flow.resolve_ptr(d.args[0], m)
                                    srcs.append("runq" if qa.root.k == "global" and qa.root.name == "kernel" and qa.off == K.members["runq"][0] else "otherq")
                                except AnalysisError:
                                    srcs.append("?")
                            else:
                                srcs.append(d.op)
                        ok = "runq" in srcs and all(s_ in ("runq", "null") for s_ in srcs)
                chk.ob("S7.current-writer", "%s stores kernel.current" % f.name, ok,
                       "kernel.current is set only in fibre_scheduler_next, from the popped run-queue head", a.inst.loc, f.name)
    chk.expect("S7", "stores to kernel.current", n, 1)
    # get_next_task pops the head of the run queue
    fn2, ps2 = fib.fn_paths(m, "get_next_task")
    for p in ps2:
        ex = [e for k, e in fib.calls_on(p) if e.callee == "list_extract" and K.queue_arg(e.args[0]) == "runq"]
        if p.ret == ("null",):
            continue
        ok = len(ex) == 1 and p.ret == paths.mkptr(ex[0].res, -K.link_off)
        if not ok and not ex:
            # the head of the TIMER queue popped instead: it is what the expiry walk followed by a pop of the run queue would have
            # produced exactly when the run queue is empty and that head is already due (it would have been moved first, to the front
            # of an empty queue); the rest of the walk must still run (C02 T3.expiry-every-pass)
            ext = [e for k, e in fib.calls_on(p) if e.callee == "list_extract" and K.queue_arg(e.args[0]) == "timerq"]
            facts = fib.queue_empty_facts(p, K)
            from . import C03 as _C03
            if len(ext) == 1 and p.ret == paths.mkptr(ext[0].res, -K.link_off) and facts.get("runq", (None,))[0] is True \
                    and _C03._head_already_due(p, K):
                chk.ob("S7.pop-head", "get_next_task (timer head)", True,
                       "pops the timer queue's head only where the run queue is empty and that head is already due: the fibre the expiry "
                       "walk would have put at the front of the run queue", p.ret_inst.loc, fn2.name)
                continue
        chk.ob("S7.pop-head", "get_next_task", ok, "returns containerof(list_extract(&kernel.runq)) (got %s)" % fmt(p.ret)[:60],
               fn2.loc, fn2.name)


def check_s8(chk, m, K):
    fn, ps = fib.fn_paths(m, "fibre_kill")
    chk.note_fn(fn)
    node = paths.mkptr(("arg", 0), K.link_off)
    for p in ps:
        pid = "fibre_kill " + "->".join(b.lstrip("%") for b in p.blocks)
        cs = fib.calls_on(p)
        names = [fib.callee_name(e) for k, e in cs]
        qcalls = [(k, e) for k, e in cs if e.callee in fib.LIST_API]
        drain = [k for k, e in cs if e.callee == "handle_atomic_runq"]
        ok_d = bool(drain) and (not qcalls or drain[0] < qcalls[0][0])
        chk.ob("S8.kill-drains-first", pid, ok_d,
               "pending interrupt-context run requests are drained before the queues are searched (so that they are withdrawn too)",
               p.ret_inst.loc, fn.name)
        rm = {}
        for k, e in cs:
            if e.callee == "list_remove" and e.args[1] == node:
                rm[K.queue_arg(e.args[0])] = e
        truth = {q: t for q in rm for k, e, t in fib.cond_truth_of_call(p, "list_remove", lambda a, q=q: K.queue_arg(a[0]) == q)}
        both = "runq" in rm and "timerq" in rm
        short = ("runq" in rm and truth.get("runq") is True) or ("timerq" in rm and truth.get("timerq") is True)
        chk.ob("S8.kill-both-queues", pid, both or short,
               "the fibre is removed from the run queue and from the timer queue (a hit in one queue may short-circuit the other); "
               "removals on this path: %s" % sorted(rm), p.ret_inst.loc, fn.name)
        if p.ret is not None and rm:
            res = [e.res for e in rm.values()]
            good = True
            try:
                for bits in range(1 << len(res)):
                    env = {}
                    skip = False
                    for i, r in enumerate(res):
                        env[r] = (bits >> i) & 1
                    for q, t in truth.items():
                        if t is not None and env[rm[q].res] != int(t):
                            skip = True
                    if skip:
                        continue
                    val = eval_concrete(p.ret, env)
                    if bool(val) != bool(bits):
                        good = False
            except NoValue:
                good = None
            if good is None:
                chk.unknown("S8.kill-result", pid, "result %s not evaluable" % fmt(p.ret)[:60], p.ret_inst.loc)
            else:
                chk.ob("S8.kill-result", pid, good, "returns true exactly when something was withdrawn", p.ret_inst.loc, fn.name)


def check_s9(chk, m, K, prog):
    n = 0
    for f in m.defined_functions():
        recv = [c for c in f.calls("messageq_receive")]
        if not recv or not f.loops_headers():
            continue
        try:
            pp = flow.resolve_ptr(recv[0].args[0], m)
        except AnalysisError:
            continue
        if not (pp.root.k == "global" and pp.root.name == "kernel" and pp.off == K.members["atomic_runq"][0]):
            continue
        n += 1
        # callees invoked in the drain loop
        for c in f.calls():
            if c.callee is None or c.callee.startswith(("llvm.", "messageq_")):
                continue
            g = prog.lookup(c.callee, m)
            if g is None:
                continue
            clo = prog.closure(g)
            if f not in clo:
                chk.ob("S9.drain-not-reentered", "%s -> %s" % (f.name, c.callee), True,
                       "%s does not lead back into the drain" % c.callee, c.loc, f.name)
                continue
            # re-entry: does it happen before the append inside g?
            def leads_to_insert(x):
                if x.callee in ("list_insert", "list_insert_sorted", "list_push"):
                    return True
                h = prog.lookup(x.callee, m) if x.callee else None
                if h is None or f in prog.closure(h):
                    return False
                return any(y.callee in ("list_insert", "list_insert_sorted", "list_push") for hh in prog.closure(h) for y in hh.calls())
            ins = [x for x in g.calls() if leads_to_insert(x)]
            reent = [x for x in g.calls() if x.callee and prog.lookup(x.callee, m) is not None and f in prog.closure(prog.lookup(x.callee, m))]
            before = any(g.dominates(r, i) or g.can_reach(r, i) for r in reent for i in ins)
            chk.ob("S9.drain-not-reentered", "%s -> %s" % (f.name, c.callee), not before,
                   "for the request just received, %s re-enters %s before it appends the fibre: a later request is appended first, "
                   "so three pending fibre_run_atomic requests A, B, C are dispatched C, B, A instead of in their order of arrival"
                   % (c.callee, f.name) if before else "re-entry happens only after the append", c.loc, f.name)
    chk.expect("S9", "drain loops over kernel.atomic_runq", n, 1)
    # requests made from interrupt context before this call are older than the request fibre_run() makes now: they are moved to
    # the run queue first
    fn, ps = fib.fn_paths(m, "fibre_run")
    chk.note_fn(fn)
    for p in ps:
        if paths.is_assert_fail_path(p):
            continue
        cs = fib.calls_on(p)
        drain = [k for k, e in cs if e.callee == "handle_atomic_runq" or
                 (e.callee == "messageq_receive" and e.args and K.queue_arg(e.args[0]) == "atomic_runq")]
        app = [k for k, e in cs if e.callee == "make_runnable" or
               (e.callee in ("list_insert", "list_push", "list_insert_sorted") and e.args and K.queue_arg(e.args[0]) == "runq")]
        if not app:
            continue
        ok = bool(drain) and drain[0] < app[0]
        chk.ob("S9.drain-before-append", "fibre_run path " + "->".join(b.lstrip("%") for b in p.blocks), ok,
               "pending interrupt-context requests are moved to the run queue before fibre_run appends its own fibre" if ok else
               "fibre_run appends its fibre before the atomic run queue is drained: a fibre_run_atomic() request that was made earlier "
               "ends up behind it, so fibres are not dispatched in the order they became runnable", p.events[app[0]].inst.loc, fn.name)


def run(chk):
    chk.explanation = (
        "Static shape analysis of the scheduler (fibre.c, list API users in all library units) over its IR: who-may-call "
        "rules with resolved queue arguments, a membership typestate at every queue insertion (evidence on the path that the "
        "fibre is on neither queue, no may-insert call in between), call-order on every path of fibre_scheduler_next, "
        "per-state handling of the previous fibre, the guard set of the fast path, fibre_kill's removals and result, and "
        "non-re-entrancy of the atomic-queue drain. These are necessary conditions of C01; equality with the FIFO model over "
        "all histories is NOT decided.")
    for rid, text in (("S1", "exactly one indirect call through fibre_t.fn under fibre_scheduler_next, on no cycle"),
                      ("S2", "run queue: only list_insert/extract/contains/remove/empty/peek; timer queue: only list_insert_sorted(duetime_cmp)/iterate/contains/remove/empty/peek; no writes to list links outside list.c (initialisers listed)"),
                      ("S3", "at every insertion into kernel.runq / kernel.timerq: evidence of non-membership in both queues on the path, no may-insert call between evidence and insertion"),
                      ("S4", "slow path: handle_atomic_runq -> update_current_state (iff current) -> handle_timerq -> get_next_task -> dispatch"),
                      ("S5", "YIELDED: fibre_run(current), no reset; EXITED/FAILED: priv := 0, no re-queue; WAITING: neither"),
                      ("S6", "fast path requires state == YIELDED, run queue empty, timer queue empty, atomic queue empty"),
                      ("S7", "fibre_self returns kernel.current; kernel.current stored only from get_next_task() = containerof(list_extract(&runq))"),
                      ("S8", "fibre_kill: drain first; remove from both queues (short-circuit on a hit allowed); result true iff a removal succeeded"),
                      ("S9", "the callee that appends a drained request does not re-enter the drain before appending")):
        chk.rule(rid, text)
    chk.assumptions += ["a fibre node is on at most one of the two kernel queues at every public entry (inductive invariant re-established by S3)",
                        "scope of the property: at most one unsatisfied fibre_timeout per dispatch (the listed S3 exception)",
                        "equality with the FIFO model over all histories is NOT decided; list.c is taken to implement a sequence (C09)"]
    chk.not_decided += ["equality with the FIFO model over all finite histories"]
    m, K = fib.load()
    chk.note_unit(m)
    lib = build.load_units(build.library_units(), "default")
    prog = flow.Program(lib)
    m = [x for x in lib if x.unit == fib.UNIT][0]
    K = fib.Kernel(m)
    check_s1(chk, m, K, prog)
    check_s2(chk, m, K, lib)
    check_s3(chk, m, K)
    check_s4_s6(chk, m, K)
    check_s5(chk, m, K)
    check_s7(chk, m, K)
    check_s8(chk, m, K)
    check_s9(chk, m, K, prog)
    chk.rule("S10", "kernel.atomic_runq's static initialiser: pool of this unit, pointer-sized slots, queue_len == num_free == pool bytes / msg_len, depth in [8, 32], empty")
    fib.check_atomic_queue_geometry(chk, m, K)
    chk.rule("S11", "outside the list operations and the initialisers (fibre_init, fibre_eventq_init and static helpers only they call) no store / memset / memcpy in fibre.c covers the link member of a fibre descriptor")
    fib.check_link_ownership(chk, m, K)
    # "the fibres whose timeouts that pass finds expired" are a dispatch reason: the expiry predicate and the timer order (C02)
    from . import C02
    chk.rule_prefix = "C02."
    chk.rule_filter = lambda r: r.startswith(("T1", "T2", "T3", "T4"))
    mu = build.load_unit("librfn/util.c")
    ml = [x for x in lib if x.unit == "librfn/list.c"][0]
    C02.check_t1(chk, [(m, [f.name for f in m.defined_functions()]), (mu, ["cyclecmp32"])], K)
    C02.check_t2(chk, m, mu, K)
    C02.check_t3(chk, m, K)
    C02.check_t4(chk, ml)
    chk.rule_prefix = ""
    chk.rule_filter = None
    # the run queue and the timer queue are list_t: FIFO / sorted order rest on list.c keeping head, tail and links right (C09)
    from . import C09
    chk.rule_prefix = "list."
    chk.rule_filter = lambda r: r.startswith(("N1", "N2", "N3", "N5", "N6"))
    C09.run_rules(chk)
    chk.rule_prefix = ""
    chk.rule_filter = None
    # requests accepted from interrupt context travel through kernel.atomic_runq, a messageq_t: hand-out, flag protocol and
    # slot hand-off are C04's and C07's rules
    from . import C04, C07
    chk.rule_prefix = "C04."
    chk.rule_filter = lambda r: r.startswith(("R1", "R2", "R3", "R4", "R5", "R6"))
    C04.run_config(chk, "default")
    chk.rule_prefix = "C07."
    chk.rule_filter = lambda r: r.startswith("R3")
    C07.check_r3_slots(chk, "default", build.load_units(build.library_units(), "default"))
    # "at the next scheduling pass (or fibre_run / fibre_kill call)": the drain those calls make must be complete (C06.I4)
    from . import C06
    chk.rule("C06.I4", "handle_atomic_runq stops only on an empty queue (a NULL receive, the queue's own observer, or a sound 'request posted' hint)")
    chk.rule_prefix = "C06."
    chk.rule_filter = lambda r: r.startswith("I4")
    C06.check_i4(chk, m, K)
    # "accepted fibre_run_atomic requests [join the run queue] in their order of arrival": a request is accepted (true) only after
    # it has been claimed, filled in and sent - a filter that answers true without sending loses the request (C06.I2)
    chk.rule("C06.I2", "fibre_run_atomic: claim -> store fibre into slot -> send; true only after send, false sends nothing")
    chk.rule_filter = lambda r: r.startswith("I2")
    C06.check_i2(chk, m, K)
    chk.rule_prefix = ""
    chk.rule_filter = None
    # the code under this property is written with the protothread macros: their expansion is validated as in C08
    from . import C08
    chk.rule_prefix = "pt."
    chk.rule_filter = lambda r: r.startswith(("V1", "V2"))
    C08.run_rules(chk, limit=260)
    chk.rule_prefix = ""
    chk.rule_filter = None
