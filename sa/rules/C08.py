"""C08 - protothreads resume where they blocked and relay child results: witness translation validation.

A generator enumerates protothread bodies over a small statement language (effects, PT_YIELD, PT_WAIT, PT_WAIT_UNTIL,
if/else, while, PT_EXIT(_ON), PT_FAIL(_ON), PT_SPAWN, PT_SPAWN_AND_CHECK, PT_CALL, PT_CHILD_OK) with uninterpreted
`ev`, `cond`, `child`.  Each body is emitted as C using /repo's CURRENT protothreads.h (and fibre.h's PT_BEGIN_FIBRE),
compiled to IR, and its control automaton is extracted statically: from every persistent state (value of *pt) the IR is
followed to the next event, forking over the finite outcome sets of cond() in {0,1} and child() in {yielded, waiting,
exited, failed}.  The same body is interpreted by the property's own semantics (the "spec machine").  The two labelled
transition systems are compared by a synchronous product walk from the initial state: every reachable pair of
(IR state, spec resume point) must produce the same events, return codes and successor states.
"""
import random

from .. import build
from ..ir import AnalysisError, int_bits

YIELDED, WAITING, EXITED, FAILED = 0, 1, 2, 3
CODE = {0: "PT_YIELDED", 1: "PT_WAITING", 2: "PT_EXITED", 3: "PT_FAILED"}


# ---------------------------------------------------------------------------------------------
# program generation
# ---------------------------------------------------------------------------------------------

class Gen:
    def __init__(self):
        self.k = 0

    def fresh(self):
        self.k += 1
        return self.k


def emit(stmts, g, ind=1):
    """C text (one statement per line) and a normalised AST with event ids filled in."""
    out, ast = [], []
    pad = "\t" * ind
    for s in stmts:
        t = s[0]
        if t == "ev":
            k = g.fresh()
            out.append("%sev(%d);" % (pad, k))
            ast.append(("ev", k))
        elif t == "yield":
            out.append(pad + "PT_YIELD();")
            ast.append(("yield",))
        elif t == "wait":
            out.append(pad + "PT_WAIT();")
            ast.append(("wait",))
        elif t == "wait_until":
            k = g.fresh()
            out.append("%sPT_WAIT_UNTIL(cond(%d));" % (pad, k))
            ast.append(("wait_until", k))
        elif t == "exit":
            out.append(pad + "PT_EXIT();")
            ast.append(("exit",))
        elif t == "fail":
            out.append(pad + "PT_FAIL();")
            ast.append(("fail",))
        elif t in ("exit_on", "fail_on"):
            k = g.fresh()
            out.append("%s%s(cond(%d));" % (pad, "PT_EXIT_ON" if t == "exit_on" else "PT_FAIL_ON", k))
            ast.append((t, k))
        elif t in ("spawn", "spawn_check", "call"):
            j = s[1]
            mac = {"spawn": "PT_SPAWN", "spawn_check": "PT_SPAWN_AND_CHECK", "call": "PT_CALL"}[t]
            out.append("%s%s(&cpt[%d], child(%d, &cpt[%d]));" % (pad, mac, j, j, j))
            ast.append((t, j))
        elif t == "if":
            k = g.fresh()
            o1, a1 = emit(s[1], g, ind + 1)
            o2, a2 = emit(s[2], g, ind + 1)
            out.append("%sif (cond(%d)) {" % (pad, k))
            out += o1
            if s[2]:
                out.append(pad + "} else {")
                out += o2
            out.append(pad + "}")
            ast.append(("if", k, a1, a2))
        elif t == "if_child_ok":
            o1, a1 = emit(s[1], g, ind + 1)
            o2, a2 = emit(s[2], g, ind + 1)
            out.append(pad + "if (PT_CHILD_OK()) {")
            out += o1
            if s[2]:
                out.append(pad + "} else {")
                out += o2
            out.append(pad + "}")
            ast.append(("if_child_ok", a1, a2))
        elif t == "ifu":
            # unbraced: every macro must be usable as the single statement of an if / else arm (dangling-else safe)
            k = g.fresh()
            o1, a1 = emit([s[1]], g, ind + 1)
            out.append("%sif (cond(%d))" % (pad, k))
            out += o1
            a2 = []
            if s[2] is not None:
                o2, a2 = emit([s[2]], g, ind + 1)
                out.append(pad + "else")
                out += o2
            ast.append(("if", k, a1, a2))
        elif t == "whileu":
            k = g.fresh()
            o1, a1 = emit([s[1]], g, ind + 1)
            out.append("%swhile (cond(%d))" % (pad, k))
            out += o1
            ast.append(("while", k, a1))
        elif t == "while":
            k = g.fresh()
            o1, a1 = emit(s[1], g, ind + 1)
            out.append("%swhile (cond(%d)) {" % (pad, k))
            out += o1
            out.append(pad + "}")
            ast.append(("while", k, a1))
        else:
            raise ValueError(t)
    return out, ast


BLOCKING = [("yield",), ("wait",), ("wait_until",), ("spawn", 0), ("spawn_check", 1), ("call", 2)]
SIMPLE = [("ev",), ("exit",), ("fail",), ("exit_on",), ("fail_on",)]


def contexts(b):
    """Place one statement b in every syntactic context the property's quantifier names."""
    E = ("ev",)
    return [
        [b], [E, b, E], [b, b], [E, b, ("yield",), E], [("wait",), b, E],
        [("if", [b, E], [E])], [("if", [E], [b, E])], [("if", [b], [])],
        [("while", [b, E])], [("while", [E, b])], [E, ("while", [b]), E],
        [("if", [("while", [b, E])], [E])], [("while", [("if", [b], [E])])], [("while", [("if", [E], [b])]), E],
        [("while", [("while", [b])])], [("if", [("if", [b], [E])], [b])],
        # unbraced arms: the macro as the single statement of if / else / while
        [("ifu", b, E), E], [("ifu", E, b), E], [("ifu", b, None), E], [E, ("whileu", b), E],
        [("ifu", b, b)], [("if", [("ifu", b, E)], [E]), E],
    ]


def programs(tier, seed):
    progs = []
    for b in BLOCKING + SIMPLE:
        for body in contexts(b):
            progs.append(body)
    # child result consultation right after a spawn
    for sp in (("spawn", 0), ("spawn", 1)):
        progs.append([sp, ("if_child_ok", [("ev",)], [("ev",)])])
        progs.append([("while", [sp, ("if_child_ok", [("ev",)], [("fail",)])])])
        progs.append([("if", [sp, ("if_child_ok", [("yield",)], [("exit",)])], [("ev",)]), ("ev",)])
        progs.append([sp, ("if_child_ok", [("spawn", 2), ("if_child_ok", [("ev",)], [("ev",)])], [("ev",)])])
    # all bodies of up to 2 (quick) / 3 (thorough) statements
    alpha = [("ev",), ("yield",), ("wait",), ("wait_until",), ("spawn", 0), ("spawn_check", 1), ("call", 0), ("exit_on",), ("fail_on",)]
    for a in alpha:
        for b in alpha:
            progs.append([a, b])
            if tier == "thorough":
                for c in alpha:
                    progs.append([a, b, c])
    rnd = random.Random(seed)

    def rand_body(depth, n):
        out = []
        for _ in range(n):
            r = rnd.random()
            if depth > 0 and r < 0.22:
                out.append(("if", rand_body(depth - 1, rnd.randint(1, 2)), rand_body(depth - 1, rnd.randint(0, 2))))
            elif depth > 0 and r < 0.40:
                out.append(("while", rand_body(depth - 1, rnd.randint(1, 3))))
            else:
                out.append(rnd.choice(alpha + [("exit",), ("fail",)]))
        return out
    for _ in range(2500 if tier == "thorough" else 120):
        progs.append(rand_body(3 if tier == "thorough" else 2, rnd.randint(1, 4)))
    return progs


def c_source(batch, fibre_variant):
    lines = ["#include <librfn/protothreads.h>", "#include <librfn/fibre.h>",
             "extern void ev(int);", "extern int cond(int);", "extern pt_state_t child(int, pt_t *);", ""]
    asts = []
    for n, body in enumerate(batch):
        g = Gen()
        text, ast = emit(body, g)
        if fibre_variant:
            lines.append("pt_state_t w_%d(fibre_t *f, pt_t *cpt)" % n)
            lines.append("{")
            lines.append("\tPT_BEGIN_FIBRE(f);")
        else:
            lines.append("pt_state_t w_%d(pt_t *pt, pt_t *cpt)" % n)
            lines.append("{")
            lines.append("\tPT_BEGIN(pt);")
        lines += text
        lines.append("\tPT_END();")
        lines.append("}")
        lines.append("")
        asts.append((ast, text))
    return "\n".join(lines) + "\n", asts


# ---------------------------------------------------------------------------------------------
# the specification machine
# ---------------------------------------------------------------------------------------------

def compile_spec(ast):
    """Flat code: ('ev',k) ('cond',k) ('jmpf',L) ('jmp',L) ('label',L) ('block',code,L) ('wait_until',k,L)
    ('ret',code) ('init',j) ('spawn',j,L) ('childok',) ('call',j) ('check',)"""
    code = []
    lab = [0]

    def new():
        lab[0] += 1
        return lab[0]

    def comp(stmts):
        for s in stmts:
            t = s[0]
            if t == "ev":
                code.append(("ev", s[1]))
            elif t in ("yield", "wait"):
                L = new()
                code.append(("block", YIELDED if t == "yield" else WAITING, L))
                code.append(("label", L))
            elif t == "wait_until":
                L = new()
                code.append(("label", L))
                code.append(("wait_until", s[1], L))
            elif t == "exit":
                code.append(("ret", EXITED))
            elif t == "fail":
                code.append(("ret", FAILED))
            elif t in ("exit_on", "fail_on"):
                L = new()
                code.append(("cond", s[1]))
                code.append(("jmpf", L))
                code.append(("ret", EXITED if t == "exit_on" else FAILED))
                code.append(("label", L))
            elif t in ("spawn", "spawn_check"):
                L = new()
                code.append(("init", s[1]))
                code.append(("label", L))
                code.append(("spawn", s[1], L))
                if t == "spawn_check":
                    code.append(("check",))
            elif t == "call":
                code.append(("init", s[1]))
                code.append(("call", s[1]))
            elif t == "if":
                Le, Lx = new(), new()
                code.append(("cond", s[1]))
                code.append(("jmpf", Le))
                comp(s[2])
                code.append(("jmp", Lx))
                code.append(("label", Le))
                comp(s[3])
                code.append(("label", Lx))
            elif t == "if_child_ok":
                Le, Lx = new(), new()
                code.append(("childok",))
                code.append(("jmpf", Le))
                comp(s[1])
                code.append(("jmp", Lx))
                code.append(("label", Le))
                comp(s[2])
                code.append(("label", Lx))
            elif t == "while":
                Lt, Lx = new(), new()
                code.append(("label", Lt))
                code.append(("cond", s[1]))
                code.append(("jmpf", Lx))
                comp(s[2])
                code.append(("jmp", Lt))
                code.append(("label", Lx))
    comp(ast)
    code.append(("ret", EXITED))
    labels = {c[1]: i for i, c in enumerate(code) if c[0] == "label"}
    return code, labels


class SpecRun:
    """One invocation of the spec machine from a resume label; yields events lazily."""

    def __init__(self, code, labels, resume):
        self.code, self.labels = code, labels
        self.pc = 0 if resume == 0 else labels[resume]
        self.flag = None
        self.spawn_res = EXITED
        self.next_resume = resume
        self.pending = None

    def key(self):
        return (self.pc, self.flag, self.spawn_res)

    def step(self, outcome=None):
        """Advance to the next event. Returns ('ev',k)|('cond',k)|('init',j)|('child',j)|('ret',code).
        `outcome` answers the previous cond/child event."""
        code = self.code
        if self.pending is not None:
            kind, info = self.pending
            self.pending = None
            if kind == "cond":
                self.flag = bool(outcome)
            elif kind == "wait_until":
                if not outcome:
                    self.next_resume = info
                    return ("ret", WAITING)
            elif kind == "spawn":
                if outcome < EXITED:
                    self.next_resume = info
                    return ("ret", outcome)
                self.spawn_res = outcome
            elif kind == "call":
                if outcome < EXITED:
                    self.pending = ("call", info)
                    return ("child", info)
        while True:
            c = code[self.pc]
            self.pc += 1
            t = c[0]
            if t == "label":
                continue
            if t == "ev":
                return ("ev", c[1])
            if t == "cond":
                self.pending = ("cond", None)
                return ("cond", c[1])
            if t == "jmpf":
                if not self.flag:
                    self.pc = self.labels[c[1]]
                continue
            if t == "jmp":
                self.pc = self.labels[c[1]]
                continue
            if t == "block":
                self.next_resume = c[2]
                return ("ret", c[1])
            if t == "wait_until":
                self.pending = ("wait_until", c[2])
                return ("cond", c[1])
            if t == "ret":
                self.next_resume = None
                return ("ret", c[1])
            if t == "init":
                return ("init", c[1])
            if t == "spawn":
                self.pending = ("spawn", c[2])
                return ("child", c[1])
            if t == "call":
                self.pending = ("call", c[1])
                return ("child", c[1])
            if t == "childok":
                self.flag = self.spawn_res != FAILED
                continue
            if t == "check":
                if self.spawn_res == FAILED:
                    self.next_resume = None
                    return ("ret", FAILED)
                continue
            raise AssertionError(t)


# ---------------------------------------------------------------------------------------------
# the IR-side control automaton
# ---------------------------------------------------------------------------------------------

class Unmodelled(Exception):
    pass


class IRRun:
    """One invocation of the compiled function from a persistent state (value of *pt); values are concrete ints or
    abstract pointers ('pt',) / ('cpt', j) / ('f',)."""

    def __init__(self, fn, state, priv_off):
        self.fn = fn
        self.ptval = state
        self.priv_off = priv_off
        self.env = {fn.args[0].name: ("base", 0), fn.args[1].name: ("cpt", 0)}
        self.blk = fn.entry
        self.idx = 0
        self.pred = None
        self.pending = None
        self.enter_block()

    def key(self):
        live = tuple(sorted((k, v) for k, v in self.env.items() if isinstance(v, int) and k.startswith("%pt_spawn_res")))
        return (self.blk.name, self.idx, self.ptval, live)

    def enter_block(self):
        vals = {}
        for i in self.blk.insts:
            if i.op != "phi":
                break
            for v, b in i.incoming:
                if self.pred is not None and b == self.pred.name:
                    vals[i.name] = self.val(v)
        self.env.update(vals)
        self.idx = 0
        while self.idx < len(self.blk.insts) and self.blk.insts[self.idx].op == "phi":
            self.idx += 1

    def val(self, v):
        if v.k == "int":
            return v.uval
        if v.k in ("inst", "arg"):
            if v.name not in self.env:
                raise Unmodelled("value %s undefined" % v.name)
            return self.env[v.name]
        if v.k == "null":
            return ("null",)
        if v.k == "undef":
            return 0
        raise Unmodelled("operand %s" % v.k)

    def step(self, outcome=None):
        if self.pending is not None:
            self.env[self.pending] = outcome
            self.pending = None
        while True:
            i = self.blk.insts[self.idx]
            self.idx += 1
            op = i.op
            if i.is_dbg():
                continue
            if op == "getelementptr":
                base = self.val(i.ops[0])
                off = i.get("off", 0)
                if i.get("var_offs"):
                    self.env[i.name] = ("opaque",)      # e.g. PT_BEGIN's (void)(pt + pt_spawn_res): never dereferenced
                    continue
                if isinstance(base, tuple) and base[0] in ("base", "cpt"):
                    self.env[i.name] = (base[0], base[1] + off)
                else:
                    raise Unmodelled("GEP on %s" % (base,))
            elif op == "bitcast":
                self.env[i.name] = self.val(i.ops[0])
            elif op == "load":
                p = self.val(i.ops[0])
                if p == ("base", self.priv_off) and i.ty == "i16":
                    self.env[i.name] = self.ptval
                else:
                    raise Unmodelled("load from %s" % (p,))
            elif op == "store":
                p = self.val(i.ops[1])
                v = self.val(i.ops[0])
                if p == ("base", self.priv_off):
                    if not isinstance(v, int):
                        raise Unmodelled("non-constant state stored")
                    self.ptval = v
                elif isinstance(p, tuple) and p[0] == "cpt":
                    if v != 0:
                        raise Unmodelled("child state set to %s" % (v,))
                    return ("init", p[1] // 2)
                else:
                    raise Unmodelled("store to %s" % (p,))
            elif op in ("zext", "trunc", "sext"):
                v = self.val(i.ops[0])
                fb, tb = int_bits(i.ops[0].ty), int_bits(i.ty)
                if op == "sext" and v >> (fb - 1):
                    v -= 1 << fb
                self.env[i.name] = v & ((1 << tb) - 1)
            elif op == "icmp":
                a, b = self.val(i.ops[0]), self.val(i.ops[1])
                bits = int_bits(i.ops[0].ty) or 64
                if isinstance(a, tuple) or isinstance(b, tuple):
                    # pointers: the state cell and the child cells are distinct non-NULL objects
                    if i.pred not in ("eq", "ne") or ("opaque",) in (a, b):
                        raise Unmodelled("ordered / opaque pointer comparison")
                    self.env[i.name] = 1 if (a == b) == (i.pred == "eq") else 0
                    continue
                def s(x):
                    return x - (1 << bits) if x >> (bits - 1) else x
                r = {"eq": a == b, "ne": a != b, "ult": a < b, "ule": a <= b, "ugt": a > b, "uge": a >= b,
                     "slt": s(a) < s(b), "sle": s(a) <= s(b), "sgt": s(a) > s(b), "sge": s(a) >= s(b)}[i.pred]
                self.env[i.name] = 1 if r else 0
            elif op in ("xor", "and", "or", "add", "sub"):
                a, b = self.val(i.ops[0]), self.val(i.ops[1])
                bits = int_bits(i.ty)
                r = {"xor": a ^ b, "and": a & b, "or": a | b, "add": a + b, "sub": a - b}[op]
                self.env[i.name] = r & ((1 << bits) - 1)
            elif op == "select":
                self.env[i.name] = self.val(i.ops[1]) if self.val(i.ops[0]) else self.val(i.ops[2])
            elif op == "call":
                cal = i.callee
                if cal == "ev":
                    return ("ev", self.val(i.args[0]))
                if cal == "cond":
                    self.pending = i.name
                    return ("cond", self.val(i.args[0]))
                if cal == "child":
                    self.pending = i.name
                    return ("child", self.val(i.args[0]))
                if cal == "__assert_fail":
                    return ("assert",)
                if cal and cal.startswith("llvm."):
                    continue
                raise Unmodelled("call %s" % cal)
            elif op == "br":
                if i.cond is None:
                    nxt = i.succs[0]
                else:
                    nxt = i.succs[0] if self.val(i.cond) else i.succs[1]
                self.pred, self.blk = self.blk, self.fn.blocks[nxt]
                self.enter_block()
            elif op == "switch":
                v = self.val(i.cond)
                nxt = i["default"]
                for cv, b in i["cases"]:
                    if cv == v:
                        nxt = b
                self.pred, self.blk = self.blk, self.fn.blocks[nxt]
                self.enter_block()
            elif op == "ret":
                return ("ret", self.val(i.ops[0]) & 0xffffffff)
            elif op == "unreachable":
                return ("unreachable",)
            else:
                raise Unmodelled("opcode %s" % op)


# ---------------------------------------------------------------------------------------------
# product walk
# ---------------------------------------------------------------------------------------------

def clone_ir(r):
    n = IRRun.__new__(IRRun)
    n.fn, n.ptval, n.priv_off = r.fn, r.ptval, r.priv_off
    n.env = dict(r.env)
    n.blk, n.idx, n.pred, n.pending = r.blk, r.idx, r.pred, r.pending
    return n


def clone_spec(s):
    n = SpecRun.__new__(SpecRun)
    n.code, n.labels = s.code, s.labels
    n.pc, n.flag, n.spawn_res, n.next_resume, n.pending = s.pc, s.flag, s.spawn_res, s.next_resume, s.pending
    return n


def compare(fn, ast, priv_off, max_events=80):
    """Returns None if bisimilar, else a mismatch description. Also returns statistics."""
    code, labels = compile_spec(ast)
    seen_pairs = set()
    work = [(0, 0)]
    stats = {"pairs": 0, "events": 0}
    while work:
        q, r = work.pop()
        if (q, r) in seen_pairs:
            continue
        seen_pairs.add((q, r))
        stats["pairs"] += 1
        stack = [(IRRun(fn, q, priv_off), SpecRun(code, labels, r), None, [], set())]
        while stack:
            ir, sp, outcome, trace, visited = stack.pop()
            try:
                e1 = ir.step(outcome)
            except Unmodelled as u:
                raise
            e2 = sp.step(outcome)
            stats["events"] += 1
            if e1 != e2:
                return ("from state *pt=%d / spec resume point %d, after %s: the compiled macros do %s, the specification does %s" %
                        (q, r, " ".join(map(fmt_ev, trace)) or "<start>", fmt_ev(e1), fmt_ev(e2))), stats
            trace = trace + [e1]
            if e1[0] == "ret":
                if e1[1] in (YIELDED, WAITING):
                    work.append((ir.ptval, sp.next_resume))
                continue
            key = (ir.key(), sp.key())
            if key in visited or len(trace) > max_events:
                continue
            visited = visited | {key}
            if e1[0] == "cond":
                for o in (0, 1):
                    stack.append((clone_ir(ir), clone_spec(sp), o, trace + ["=%d" % o], visited))
            elif e1[0] == "child":
                for o in (YIELDED, WAITING, EXITED, FAILED):
                    stack.append((clone_ir(ir), clone_spec(sp), o, trace + ["=%s" % CODE[o][3:].lower()], visited))
            else:
                stack.append((ir, sp, None, trace, visited))
    return None, stats


def fmt_ev(e):
    if isinstance(e, str):
        return e
    if e[0] == "ret":
        return "return %s" % CODE.get(e[1], e[1])
    if e[0] == "init":
        return "PT_INIT(child %d)" % e[1]
    if e[0] in ("ev", "cond", "child"):
        return "%s(%d)" % e
    return str(e)


def run(chk):
    chk.level = "translation_validation"
    progs = programs(chk.tier, chk.seed)
    chk.explanation = (
        "Generated protothread bodies are compiled against /repo's current protothreads.h / fibre.h; the control automaton "
        "of each compiled function is extracted from its IR by following it from every persistent state with finite outcome "
        "sets for the uninterpreted calls, and compared by a synchronous product walk with the automaton the property's "
        "semantics assigns to the same body. A macro whose expansion does not implement the stated contract in some context "
        "shows up as a differing event, return code or successor state.")
    chk.rule("V1", "for every generated body (PT_BEGIN variant) the compiled control automaton and the specification automaton are bisimilar from the initial state")
    chk.rule("V2", "the same for bodies opened with PT_BEGIN_FIBRE (state kept in fibre_t.priv of the descriptor passed in, and only there)")
    chk.assumptions += ["scope of the property: one blocking macro per line, none inside a user switch, PT_CHILD_OK consulted before the "
                        "next blocking point, no re-invocation after exit without PT_INIT (the generator stays inside this scope)",
                        "ev/cond/child are uninterpreted: cond() in {0, non-zero}, child() in the four pt_state_t values",
                        "all bodies of the generator's statement language up to the stated size, not all C programs"]
    chk.rule("V3", "PT_WAIT_UNTIL / PT_EXIT_ON / PT_FAIL_ON test the user's condition against zero in its own type (no narrowing conversion on the way)")
    run_rules(chk, progs)
    check_condition_transparency(chk)
    from . import macrohyg
    chk.rule("V4", "every PT macro that takes an expression uses it as a unit: M(E) and M((E)) compile to the same code for low-precedence E (conditional, assignment, bitwise-or)")
    prelude = ("extern pt_state_t ca(pt_t *), cb(pt_t *); extern int sel, x, y; extern pt_state_t last;\n")
    cases = []
    for mac in ("PT_WAIT_UNTIL", "PT_EXIT_ON", "PT_FAIL_ON"):
        for arg in ("sel ? x : y", "x | y", "x = y"):
            cases.append(("%s(%s)" % (mac, arg), "pt_state_t w_f(pt_t *pt) { PT_BEGIN(pt); %s(ARG); PT_END(); }" % mac, arg))
    for mac in ("PT_SPAWN", "PT_SPAWN_AND_CHECK", "PT_CALL"):
        for arg in ("sel ? ca(c) : cb(c)", "last = ca(c)"):
            cases.append(("%s(c, %s)" % (mac, arg), "pt_state_t w_f(pt_t *pt, pt_t *c) { PT_BEGIN(pt); %s(c, ARG); PT_END(); }" % mac, arg))
    macrohyg.check_parenthesised_equivalence(chk, "V4.argument-hygiene", "librfn/protothreads.h", prelude, cases)
    chk.rule("V5", "PT_CALL's polling loop is left only on the child's own result (no counter or flag ends it early)")
    check_call_runs_to_completion(chk)


def check_call_runs_to_completion(chk, cfg="default"):
    """V5.call-completes: PT_CALL(child, thread) "runs a protothread without ever yielding": the polling loop it expands to is left
    only because of what the child's latest invocation returned.  In the compiled witness every edge out of the cycle that contains
    the child's call must be decided by a comparison of that call's result with a constant - an exit decided by anything else (a
    poll counter that runs out, a timeout) lets the parent continue past an unfinished child."""
    src = ("#include <librfn/protothreads.h>\nextern pt_state_t ca(pt_t *);\n"
           "pt_state_t w_call(pt_t *pt, pt_t *c) { PT_BEGIN(pt); PT_CALL(c, ca(c)); PT_END(); }\n")
    try:
        m = build.compile_text("pt_call_completes.c", src, cfg, inline_except=())
    except AnalysisError as e:
        chk.unknown("V5.call-completes", "PT_CALL", "the witness does not compile: %s" % str(e)[-200:])
        return
    chk.note_unit(m)
    fn = m.fn("w_call")
    calls = [i for i in fn.real_insts() if i.op == "call" and i.callee == "ca"]
    if len(calls) != 1 or not fn.in_cycle(calls[0]):
        chk.ob("V5.call-completes", "PT_CALL", False,
               "PT_CALL does not poll the child in a loop (%d calls of the child, in a cycle: %s): a child that blocks once is never "
               "resumed" % (len(calls), bool(calls) and fn.in_cycle(calls[0])), "include/librfn/protothreads.h", "PT_CALL")
        return
    call = calls[0]
    cb = call.block
    # the cycle: blocks that can reach the call's block and are reachable from it
    cyc = set(b.name for b in fn.order if fn.can_reach(cb.insts[0], b.insts[0]) and fn.can_reach(b.insts[0], cb.insts[0])) | {cb.name}
    n = 0
    for bn in sorted(cyc):
        t = fn.blocks[bn].term
        if t.op != "br" or t.cond is None:
            if t.op in ("ret", "switch"):
                chk.unknown("V5.call-completes", "PT_CALL exit at %s" % bn, "%s inside the polling cycle" % t.op)
            continue
        outs = [s_ for s_ in t.succs if s_ not in cyc]
        if not outs:
            continue
        n += 1
        v = t.cond
        for _ in range(6):
            d = v.inst if v.k == "inst" else None
            if d is not None and d.op in ("zext", "sext", "trunc"):
                v = d.ops[0]
            elif d is not None and d.op == "xor" and any(o.is_const_int() for o in d.ops):
                v = [o for o in d.ops if not o.is_const_int()][0]
            else:
                break
        d = v.inst if v.k == "inst" else None
        ok = False
        if d is not None and d.op == "icmp":
            ops = list(d.ops)
            nc = [o for o in ops if not o.is_const_int()]
            if len(nc) == 1:
                x = nc[0]
                for _ in range(4):
                    if x.k == "inst" and x.inst is not None and x.inst.op in ("zext", "sext", "trunc"):
                        x = x.inst.ops[0]
                ok = x.k == "inst" and x.name == call.name
        chk.ob("V5.call-completes", "PT_CALL exit at %s" % bn.lstrip("%"), ok,
               "the polling loop is left on a comparison of the child's latest result with a constant" if ok else
               "the polling loop of PT_CALL can be left on a condition that is not the child's result (a counter, a flag): the parent "
               "then runs on past a child that has not finished", t.loc, "PT_CALL")
    chk.expect("V5", "exits of PT_CALL's polling loop", n, 1)


def check_state_cell(chk, src, cfg="default"):
    """V2.state-cell: a body opened with PT_BEGIN_FIBRE(f) keeps its resume point in f - the descriptor it was called with -
    and nowhere else.  Decided on the first fibre witness as a caller sees it (the helpers of fibre.h and fibre.c inlined):
    the pointer whose i16 content the body switches on must derive, through address arithmetic only, from the argument f.  A
    value read from a mutable object with static storage in that derivation (the scheduler's idea of the current fibre) makes the
    resume point depend on who was dispatched last: an entry point polled directly (console_process) resumes from, and
    overwrites, another fibre's state."""
    try:
        m = build.api_view("c08_cell.c", src, ["librfn/fibre.c"], ["w_0"], cfg)
    except AnalysisError as e:
        chk.unknown("V2.state-cell", "PT_BEGIN_FIBRE", "api view does not build: %s" % str(e)[-200:])
        return
    fn = m.functions.get("w_0")
    leaves = set()
    seen = set()
    sw = [blk.term for blk in fn.order if blk.term is not None and blk.term.op == "switch"]
    if not sw:
        chk.unknown("V2.state-cell", "PT_BEGIN_FIBRE", "no switch on the saved state in the witness")
        return

    def walk(v, through_load):
        if v.k == "arg":
            leaves.add(("arg", v.name))
            return
        if v.k in ("global", "cexpr"):
            g = v
            while g.k == "cexpr":
                g = g.cexpr_ops()[0]
            gd = m.globals.get(g.name) if g.k == "global" else None
            leaves.add(("static", g.name if g.k == "global" else "?", bool(gd and gd.get("const"))))
            return
        if v.k != "inst" or v.inst is None:
            if v.k not in ("int", "null", "undef"):
                leaves.add(("other", v.k))
            return
        i = v.inst
        if i.name in seen:
            return
        seen.add(i.name)
        if i.op in ("getelementptr", "bitcast", "zext", "sext", "trunc", "freeze"):
            walk(i.ops[0], through_load)
        elif i.op == "phi":
            for x, b in i.incoming:
                walk(x, through_load)
        elif i.op == "select":
            walk(i.ops[1], through_load)
            walk(i.ops[2], through_load)
        elif i.op == "load":
            walk(i.ops[0], True)
        elif i.op == "call":
            leaves.add(("call", str(i.callee)))
        else:
            leaves.add(("other", i.op))
    cond = sw[0].cond
    ld = cond.inst
    while ld is not None and ld.op in ("zext", "sext", "trunc"):
        ld = ld.ops[0].inst
    if ld is None or ld.op != "load":
        chk.unknown("V2.state-cell", "PT_BEGIN_FIBRE", "the switch does not test a loaded state")
        return
    walk(ld.ops[0], False)
    statics = sorted(x[1] for x in leaves if x[0] == "static" and not x[2])
    others = sorted(str(x) for x in leaves if x[0] in ("call", "other"))
    f_arg = ("arg", fn.args[0].name)
    if statics:
        chk.ob("V2.state-cell", "PT_BEGIN_FIBRE(f)", False,
               "the resume point is read through a pointer derived from the mutable static object %s, not only from f: which fibre's state a "
               "body resumes from depends on what the scheduler dispatched last, so an entry point invoked directly with its own descriptor "
               "continues at another fibre's resume point and overwrites it" % ", ".join(statics), "include/librfn/fibre.h", "PT_BEGIN_FIBRE")
    elif others:
        chk.unknown("V2.state-cell", "PT_BEGIN_FIBRE(f)", "the state pointer depends on %s" % ", ".join(others))
    else:
        chk.ob("V2.state-cell", "PT_BEGIN_FIBRE(f)", leaves == {f_arg},
               "the resume point lives at a fixed offset in the descriptor the body is called with", "include/librfn/fibre.h", "PT_BEGIN_FIBRE")


COND_MACROS = (("PT_WAIT_UNTIL", "PT_WAIT_UNTIL(%s);"), ("PT_EXIT_ON", "PT_EXIT_ON(%s);"), ("PT_FAIL_ON", "PT_FAIL_ON(%s);"))
COND_TYPES = (("double", "d"), ("unsigned long long", "u"), ("float", "f"))
NARROWING = ("fptosi", "fptoui", "trunc", "fptrunc", "sitofp", "uitofp", "ptrtoint")


def check_condition_transparency(chk):
    """V3: the condition a user passes to PT_WAIT_UNTIL / PT_EXIT_ON / PT_FAIL_ON is tested as C tests it in `if (c)`:
    compared against zero IN ITS OWN TYPE.  A macro that funnels it through a narrower type first (a long parameter, an
    int temporary) turns 0.5, 2^64 or a high-half flag into 'false'.  Decided on witness functions whose condition is
    a parameter of a type wider than / different from long: the data flow from the parameter to the branch may widen,
    compare against zero and negate, but never convert to a narrower or integer type before the comparison."""
    lines = ["#include <librfn/protothreads.h>"]
    names = []
    for mname, tmpl in COND_MACROS:
        for ty, tag in COND_TYPES:
            fn = "w_%s_%s" % (mname.lower(), tag)
            names.append((fn, mname, ty))
            lines.append("int %s(pt_t *pt, %s c) { PT_BEGIN(pt); %s PT_END(); }" % (fn, ty, tmpl % "c"))
    try:
        m = build.compile_text("c08_cond.c", "\n".join(lines) + "\n", inline_except=())
    except AnalysisError as e:
        chk.unknown("V3.condition-type", "witness", "condition witnesses do not compile: %s" % str(e)[-300:])
        return
    n = 0
    for fname, mname, ty in names:
        fn = m.functions.get(fname)
        inst_id = "%s(%s c)" % (mname, ty)
        raw = set()                 # names of values that are still the user's condition (possibly widened)
        argname = fn.args[1].name
        bad = None
        tested = 0
        changed = True
        while changed:
            changed = False
            for blk in fn.order:
                for i in blk.insts:
                    if i.is_dbg() or i.name in raw:
                        continue
                    ops = [o for o in i.ops if (o.k == "arg" and o.name == argname) or (o.k == "inst" and o.inst is not None and o.inst.name in raw)]
                    if i.op == "call":
                        ops = [o for o in i.args if (o.k == "arg" and o.name == argname) or (o.k == "inst" and o.inst is not None and o.inst.name in raw)]
                    if not ops:
                        continue
                    if i.op in NARROWING:
                        bad = bad or (i, "%s to %s" % (i.op, i.ty))
                    elif i.op in ("phi", "bitcast", "freeze", "zext", "sext", "fpext", "select") or \
                            (i.op == "call" and str(i.callee).startswith("llvm.expect")):
                        if i.name:
                            raw.add(i.name)
                            changed = True
                    elif i.op in ("icmp", "fcmp"):
                        other = [o for o in i.ops if o not in ops]
                        zero = other and (other[0].is_const_int() and other[0].uval == 0 or other[0].k == "fp" and float(other[0].d.get("v", 1)) == 0.0
                                          or other[0].is_null())
                        if zero:
                            tested += 1
                        else:
                            bad = bad or (i, "compared with something other than zero")
                    elif i.op == "call":
                        bad = bad or (i, "passed to %s" % i.callee)
        n += 1
        if bad:
            chk.ob("V3.condition-type", inst_id, False,
                   "the user's condition is %s before it is tested (%s): a %s condition that is non-zero but whose converted value is 0 "
                   "(0.5, 2^64, a flag in the upper half) is treated as false, so %s blocks/continues where `if (c)` would not"
                   % (bad[1], bad[0].loc, ty, mname), "include/librfn/protothreads.h", mname)
        elif not tested:
            chk.unknown("V3.condition-type", inst_id, "no comparison of the condition against zero found in the witness")
        else:
            chk.ob("V3.condition-type", inst_id, True, "the condition reaches its test against zero in its own type (%d comparison sites)" % tested,
                   "include/librfn/protothreads.h", mname)
    chk.expect("V3", "condition-type witnesses", n, len(COND_MACROS) * len(COND_TYPES))


def run_rules(chk, progs=None, limit=None):
    """The translation validation itself; also imported (with a smaller program set) by checks of code written with the macros."""
    if progs is None:
        progs = programs("quick", chk.seed)
    if limit:
        progs = progs[:limit]
    n_total = n_ok = 0
    mismatches = 0
    for variant in (False, True):
        plist = progs if not variant else progs[: max(60, len(progs) // 6)]
        for b0 in range(0, len(plist), 100):
            batch = plist[b0:b0 + 100]
            src, asts = c_source(batch, variant)
            try:
                m = build.compile_text("c08_%s_%d.c" % ("fibre" if variant else "pt", b0), src, inline_except=())
            except AnalysisError as e:
                chk.unknown("V2" if variant else "V1", "batch %d" % b0, "witness batch does not compile: %s" % str(e)[-400:])
                continue
            if variant and b0 == 0:
                check_state_cell(chk, src)
            priv_off = 0
            if variant:
                tid = m.di_by_name.get("fibre_t") or m.di_by_name.get("fibre")
                priv_off = dict((p, o) for p, o, s, t in m.di_leaves(tid))["priv"]
            for n, (ast, text) in enumerate(asts):
                fn = m.functions.get("w_%d" % n)
                n_total += 1
                rule = "V2.bisimilar-fibre" if variant else "V1.bisimilar"
                pid = "program %d%s: %s" % (b0 + n, " (PT_BEGIN_FIBRE)" if variant else "", " ".join(t.strip() for t in text))[:230]
                try:
                    res, stats = compare(fn, ast, priv_off)
                except Unmodelled as u:
                    chk.unknown(rule, pid, "IR construct outside the control-automaton fragment: %s" % u)
                    continue
                if res is None:
                    n_ok += 1
                    if n_total <= 6 or n_total % 97 == 0:
                        chk.sample({"program": [t.strip() for t in text], "state_pairs": stats["pairs"], "events_compared": stats["events"], "verdict": "bisimilar"})
                    chk.ob(rule, pid, True, "%d state pairs, %d events compared" % (stats["pairs"], stats["events"]))
                else:
                    mismatches += 1
                    if mismatches <= 12:
                        chk.ob(rule, pid, False, res, "include/librfn/protothreads.h", "PT_* macros")
                        chk.sample({"program": [t.strip() for t in text], "verdict": "MISMATCH", "detail": res})
    # V1.high-line: the same validation for bodies whose blocking points sit at source lines above 32767 and above 60000 (generated
    # or amalgamated sources): the saved state must still select its own resume point - a state cell that is signed or narrower
    # than the line number turns such a resume into the default arm
    for base in (32760, 60000):
        batch = progs[:24]
        src, asts = c_source(batch, False)
        lines_ = src.split("\n")
        last_inc = max([k for k, l in enumerate(lines_) if l.startswith("#include")] or [-1])
        lines_.insert(last_inc + 1, "#line %d" % base)
        try:
            m = build.compile_text("c08_hl_%d.c" % base, "\n".join(lines_), inline_except=())
        except AnalysisError as e:
            chk.unknown("V1.high-line", "lines from %d" % base, "witness batch does not compile: %s" % str(e)[-300:])
            continue
        n_hl = 0
        for n, (ast, text) in enumerate(asts):
            fn = m.functions.get("w_%d" % n)
            pid = "program %d at lines from %d: %s" % (n, base, " ".join(t.strip() for t in text))[:200]
            try:
                res, stats = compare(fn, ast, 0)
            except Unmodelled as u:
                chk.unknown("V1.high-line", pid, "IR construct outside the control-automaton fragment: %s" % u)
                continue
            n_hl += 1
            chk.ob("V1.high-line", pid, res is None, "%d state pairs, %d events compared" % (stats["pairs"], stats["events"])
                   if res is None else res, "include/librfn/protothreads.h", "PT_* macros")
        chk.expect("V1.high-line", "programs validated at lines from %d" % base, n_hl, 20)
    if mismatches > 12:
        chk.ob("V1.bisimilar", "further mismatching programs", False, "%d more programs disagree (not listed)" % (mismatches - 12),
               "include/librfn/protothreads.h", "PT_* macros")
    chk.extra["programs"] = n_total
    chk.extra["disagreements_checked"] = mismatches
    chk.extra["bisimilar"] = n_ok
    chk.expect("V1", "generated programs", n_total, 200 if not limit else min(limit, 100))
