"""C05 - ring buffer, one producer / one consumer: protocol-shape clauses.

Decides (every path of every function touching ringbuf_t, both atomics builds):
 R1 publication order and hand-off strength (payload before release-store of own
    index; acquire-load of the peer index before touching payload)
 R2 single writer per index (roles disjoint)
 R3 index range, symbolic in buf_len = L (0 <= idx <= L-1 for stored index and subscript)
 R4 full / empty predicates (successor function, old-slot store, return values)
 R5 bytes returned unsigned
Not decided: exactly-once in-order delivery over all interleavings.
"""
from .. import build, flow, paths
from ..domains.lin import Lin, Prover, expr_to_lin
from ..domains.cyc import IndexModel
from ..ir import AnalysisError
from ..paths import fmt, ptr_parts, strip_casts

INIT_FUNCS = {"ringbuf_init": "initialiser: runs before the descriptor is shared (header contract)"}
ACQ = ("acquire", "acq_rel", "seq_cst")
REL = ("release", "acq_rel", "seq_cst")
STRUCT = "ringbuf_t"


def _field(ptr, fn, m):
    s, f = paths.field_of(ptr, fn, m)
    return f if s in (STRUCT, STRUCT[:-2]) else None


def _is_payload_ptr(ptr, fn, m):
    """Pointer derived from a load of ringbuf_t.bufp."""
    root, off, var = ptr_parts(ptr)
    if root[0] == "ld" and _field(root[1], fn, m) == "bufp":
        return True
    return False


def _thread_fence_between(events, i0, i1, kinds):
    for e in events[i0:i1]:
        if e.kind == "fence" and e.extra[1] != "singlethread" and e.extra[0] in kinds:
            return True
    return False


def check_representation(mods):
    """The rules are stated over ringbuf_t = {bufp, buf_len, readi, writei}.  A further member that the operations' results or
    index updates depend on (a cached copy of the peer's index, a 'full' hint) is state the rules know nothing about: exit 2."""
    from .purity import member_influences_protocol
    for m in mods:
        tid = m.di_by_name.get(STRUCT) or m.di_by_name.get(STRUCT[:-2])
        if not tid:
            continue
        have = set(p_.split(".")[0].split("[")[0] for p_, o, s_, t in m.di_leaves(tid))
        for f in sorted(have - {"bufp", "buf_len", "readi", "writei"}):
            if any(member_influences_protocol(mm, (STRUCT, STRUCT[:-2]), f, ("bufp", "buf_len", "readi", "writei")) for mm in mods):
                raise AnalysisError("anchor vanished: ringbuf_t carries additional state (%s) that its operations depend on: the ring's "
                                    "representation changed and the rules stated over {bufp, buf_len, readi, writei} cannot decide this tree" % f)
        return


def ringbuf_functions(mods):
    """(module, fn, set of fields stored atomically/plainly, touched?)"""
    check_representation(mods)
    out = []
    for m in mods:
        for fn in m.defined_functions():
            acc = [a for a in flow.accesses(fn, m) if a.struct in (STRUCT, STRUCT[:-2])]
            if acc:
                out.append((m, fn, acc))
    return out


def classify(fn, acc):
    if fn.name in INIT_FUNCS:
        return "init"
    st = set(a.field for a in acc if a.kind in ("store", "rmw", "cmpxchg") and a.field in ("readi", "writei"))
    if st == {"writei"}:
        return "producer"
    if st == {"readi"}:
        return "consumer"
    if not st:
        return "observer"
    return "both"


def make_model(own, peer, fn, m):
    def classify(e):
        if e[0] == "ald":
            f = _field(e[1], fn, m)
            if f == own:
                return "own"
            if f == peer:
                return "peer"
        if e[0] == "ld" and _field(e[1], fn, m) == "buf_len":
            return "L"
        return None
    return IndexModel(classify, min_len=2)


def _verdict(chk, rule, inst, res, detail, loc, fn):
    if res == "proved":
        chk.ob(rule, inst, True, detail, loc, fn)
    elif isinstance(res, tuple) and res[0] == "refuted":
        env = {k: int(v) for k, v in res[1].items()}
        chk.ob(rule, inst, False, "%s; counterexample (index 'own', buffer length L): %s" % (detail, env), loc, fn)
    else:
        chk.unknown(rule, inst, "cannot prove or refute: " + detail, loc)


STEP_DIRS = {}             # cfg -> {+1 | -1: [who steps its index that way]}: both sides must walk the ring the same way round
FREE_SLOT_USERS = {}       # cfg -> {"consumer": (fn, loc), "producer": (fn, loc)}: who relies on the slot the ring keeps vacant


def check_role_fn(chk, m, fn, role, cfg):
    own, peer = ("writei", "readi") if role == "producer" else ("readi", "writei")
    tag = "%s[%s]" % (fn.name, cfg)
    # a wait loop that only polls (no store, RMW, call or payload access inside the cycle) may be cut after one round:
    # its iterations have no effect and the exit iteration's loads are the ones the guard rules see
    spin_only = bool(fn.loops_headers()) and all(
        i.op not in ("store", "atomicrmw", "cmpxchg", "call") or i.is_dbg() or (i.op == "call" and (i.callee or "").startswith("llvm."))
        for i in fn.real_insts() if fn.in_cycle(i))
    ps = paths.enumerate_paths(fn, m, loop_bound=1 if spin_only else None)
    # branch-free code (x - (L & -(x >= L))) is analysed as the branches it stands for
    ps = [q for p_ in ps for q in paths.expand_selects(p_)]
    n_success = 0
    for p in ps:
        if paths.is_assert_fail_path(p):
            continue
        ev = p.events
        idx_store = [k for k, e in enumerate(ev) if e.kind in ("store", "rmw", "cmpxchg")
                     and _field(e.ptr, fn, m) == own]
        pay = [k for k, e in enumerate(ev) if e.kind in ("store", "load", "memcpy", "memset")
               and e.ptr is not None and _is_payload_ptr(e.ptr, fn, m)]
        peer_loads = [k for k, e in enumerate(ev) if e.kind == "load" and _field(e.ptr, fn, m) == peer]
        model = make_model(own, peer, fn, m)
        for c, taken, inst in p.conds:
            model.add_cond(c, taken)
        if model.infeasible():
            continue
        pathid = "%s path %s" % (tag, "->".join(b.lstrip("%") for b in p.blocks))
        if idx_store:
            n_success += 1
            if len(idx_store) != 1:
                chk.ob("R4.single-publish", pathid, False, "index %s stored %d times on one path" % (own, len(idx_store)),
                       ev[idx_store[0]].inst.loc, fn.name)
                continue
            S = ev[idx_store[0]]
            k_s = idx_store[0]
            # --- R1 publication order
            if role == "producer":
                mine = [k for k in pay if ev[k].kind in ("store", "memcpy", "memset")]
                want = "payload store"
            else:
                mine = [k for k in pay if ev[k].kind == "load"]
                want = "payload load"
            chk.ob("R1.payload-present", pathid, bool(mine),
                   "a path that publishes a new %s performs a %s" % (own, want), S.inst.loc, fn.name)
            late = [k for k in pay if k > k_s]
            if role == "consumer":
                # reading the OLD slot after publishing the new readi is safe: the producer may fill slot w only while
                # next(w) != readi (R4.guard of the producer), so it cannot reach slot readi-1 until readi moves again,
                # and that is the consumer's own next publish; R4.old-slot below checks that the slot read is the old one
                # the consumer may also overwrite the slot it has just read (scrubbing it): until its NEXT publication that slot
                # is either still its own (before this publication) or the one slot the ring keeps vacant (after it)
                def scrub_of_old_slot(k):
                    if ev[k].kind != "store" or not any(j < k and ev[j].kind == "load" and ev[j].ptr == ev[k].ptr for j in pay):
                        return False
                    root, off, var = ptr_parts(ev[k].ptr)
                    if len(var) != 1 or var[0][1] != 1:
                        return False
                    idx = model.lin(var[0][0]) + off
                    return model.prove_all(lambda pr: pr.prove_eq(idx, Lin.atom("own")))
                bad = [k for k in pay if ev[k].kind != "load" and not scrub_of_old_slot(k)]
                if late and not bad:
                    FREE_SLOT_USERS.setdefault(cfg, {}).setdefault("consumer", (fn.name, ev[late[0]].inst.loc))
                chk.ob("R1.payload-before-publish", pathid, not bad,
                       "the consumer only reads the payload (or overwrites the slot it has already read)%s" % ("" if not bad else "; write at %s" % ev[bad[0]].inst.loc) +
                       ("; %d read(s) of the old slot follow the publication of %s (safe: one slot is always kept free)" % (len(late), own)
                        if late and not bad else ""), S.inst.loc, fn.name)
            else:
                chk.ob("R1.payload-before-publish", pathid, not late,
                       "every payload access precedes the store of %s%s" %
                       (own, "" if not late else "; payload access at %s follows it" % ev[late[0]].inst.loc),
                       S.inst.loc, fn.name)
            last_pay = max([k for k in pay if k < k_s], default=0)
            strong = (S.kind == "store" and S.inst.ordering in REL) or (S.kind != "store" and S.inst.ordering in REL) \
                or _thread_fence_between(ev, last_pay, k_s, REL)
            chk.ob("R1.release-publish", pathid, strong,
                   "store of %s has ordering %s (needs >= release, or a release fence after the payload access)"
                   % (own, S.inst.ordering), S.inst.loc, fn.name)
            if mine and role == "producer":
                # the producer may fill slot[writei] before it looks at readi: that slot is never part of the filled region
                # [readi, writei) and the consumer's last read of it was published by a readi the producer acquired when it
                # advanced over the previous slot (the ring never fills completely).  What it must do before PUBLISHING is an
                # acquire load of readi (the full test decides on it and later calls inherit the edge).
                acq = [k for k in peer_loads if k < k_s and
                       (ev[k].inst.ordering in ACQ or _thread_fence_between(ev, k, k_s, ACQ))]
                first_acq = min([k for k in peer_loads if ev[k].inst.ordering in ACQ], default=None)
                if first_acq is None or min(mine) < first_acq:
                    FREE_SLOT_USERS.setdefault(cfg, {}).setdefault("producer", (fn.name, ev[min(mine)].inst.loc))
                chk.ob("R1.acquire-peer", pathid, bool(acq),
                       "an atomic load of %s with ordering >= acquire precedes the publication of %s (the payload store goes to "
                       "slot[%s], which is outside the filled region whatever %s is)" % (peer, own, own, peer),
                       S.inst.loc, fn.name)
            elif mine:
                first_pay = min(mine)
                acq = [k for k in peer_loads if k < first_pay and
                       (ev[k].inst.ordering in ACQ or _thread_fence_between(ev, k, first_pay, ACQ))]
                chk.ob("R1.acquire-peer", pathid, bool(acq),
                       "an atomic load of %s with ordering >= acquire precedes the first payload access "
                       "(the peer's release of the slot must be observed)" % peer,
                       ev[first_pay].inst.loc, fn.name)
            # --- R3 / R4 index arithmetic
            N = model.lin(S.val)
            r1, r2 = model.decide_in_range(N)
            _verdict(chk, "R3.index-range", pathid + " stored>=0", r1, "stored %s = %s >= 0" % (own, N), S.inst.loc, fn.name)
            _verdict(chk, "R3.index-range", pathid + " stored<=L-1", r2, "stored %s = %s <= L-1" % (own, N), S.inst.loc, fn.name)
            res_step, direction = model.decide_is_step(N)
            STEP_DIRS.setdefault(cfg, {}).setdefault(direction if res_step == "proved" else 1, []).append("%s (%s)" % (fn.name, own))
            _verdict(chk, "R4.successor", pathid, res_step,
                     "stored %s = %s is the loaded index stepped by %+d modulo buf_len" % (own, N, direction), S.inst.loc, fn.name)
            for k in mine:
                root, off, var = ptr_parts(ev[k].ptr)
                if len(var) != 1 or var[0][1] != 1:
                    chk.unknown("R3.subscript", pathid, "payload subscript is not bufp[index]: %s" % fmt(ev[k].ptr), ev[k].inst.loc)
                    continue
                idx = model.lin(var[0][0]) + off
                ok = model.prove_all(lambda pr: pr.prove_eq(idx, Lin.atom("own")))
                if ok:
                    chk.ob("R4.old-slot", pathid, True, "payload subscript %s equals the loaded %s" % (idx, own), ev[k].inst.loc, fn.name)
                else:
                    a, b = model.decide_in_range(idx)
                    if a == "proved" and b == "proved":
                        # in range but not the old slot -> data lost/garbled; find witness
                        chk.ob("R4.old-slot", pathid, False,
                               "payload subscript %s is not the loaded %s (the slot being %s is not the one published)"
                               % (idx, own, "written" if role == "producer" else "read"), ev[k].inst.loc, fn.name)
                    else:
                        _verdict(chk, "R3.subscript", pathid, a if a != "proved" else b,
                                 "payload subscript %s within [0, L-1]" % idx, ev[k].inst.loc, fn.name)
            # the full/empty test on this path: (X == peer) false
            found = False
            for c, taken, inst in p.conds:
                cc = strip_casts(c)
                if cc[0] == "icmp" and cc[1] in ("eq", "ne"):
                    sides = [model.lin(cc[2]), model.lin(cc[3])]
                    is_eq_taken = (cc[1] == "eq") == bool(taken)
                    for x, y in (sides, sides[::-1]):
                        if len(y.co) == 1 and y.c == 0 and str(list(y.co)[0]).startswith("peer#"):
                            target = N if role == "producer" else Lin.atom("own")
                            if not is_eq_taken and model.prove_all(lambda pr: pr.prove_eq(x, target)):
                                found = True
            what = "next(%s) != %s" % (own, peer) if role == "producer" else "%s != %s" % (own, peer)
            chk.ob("R4.guard", pathid, found,
                   "publishing path is guarded by %s (%s test)" % (what, "not-full" if role == "producer" else "not-empty"),
                   S.inst.loc, fn.name)
            # return value
            if role == "producer" and fn.ret_ty == "void":
                chk.ob("R4.return", pathid, True, "blocking put: returns nothing, publishes on every returning path", p.ret_inst.loc, fn.name)
            elif role == "producer":
                ok = p.ret is not None and p.ret[0] == "c" and p.ret[2] != 0
                chk.ob("R4.return", pathid, ok, "successful put returns true (got %s)" % fmt(p.ret), p.ret_inst.loc, fn.name)
            else:
                r = p.ret
                ok = r is not None and r[0] == "cast" and r[1] == "zext" and r[2] == 8 and r[4][0] == "ld" \
                    and _is_payload_ptr(r[4][1], fn, m)
                sx = r is not None and r[0] == "cast" and r[1] == "sext"
                if ok or sx:
                    chk.ob("R5.unsigned-byte", pathid, ok,
                           "get returns the %s-extension of the loaded byte (must be zero-extension: values 0..255)"
                           % ("zero" if ok else "sign"), p.ret_inst.loc, fn.name)
                else:
                    chk.unknown("R5.unsigned-byte", pathid, "returned value is not an extension of the payload byte: %s" % fmt(r),
                                p.ret_inst.loc)
        else:
            # non-publishing path: must be the full / empty outcome
            found = False
            for c, taken, inst in p.conds:
                cc = strip_casts(c)
                if cc[0] == "icmp" and cc[1] in ("eq", "ne"):
                    is_eq_taken = (cc[1] == "eq") == bool(taken)
                    sides = [model.lin(cc[2]), model.lin(cc[3])]
                    for x, y in (sides, sides[::-1]):
                        if len(y.co) == 1 and y.c == 0 and str(list(y.co)[0]).startswith("peer#") and is_eq_taken:
                            if role == "producer":
                                # need X is successor; evaluate under hypotheses *without* the equality itself
                                res, direction = model.decide_is_step(x)
                                if res == "proved":
                                    STEP_DIRS.setdefault(cfg, {}).setdefault(direction, []).append("%s (full test)" % fn.name)
                                a, b = model.decide_in_range(x)
                                found = True
                                _verdict(chk, "R4.full-test", pathid, res,
                                         "put refuses exactly when next(%s) == %s; tested value %s" % (own, peer, x),
                                         inst.loc, fn.name)
                            else:
                                found = True
                                chk.ob("R4.empty-test", pathid, model.prove_all(lambda pr: pr.prove_eq(x, Lin.atom("own"))),
                                       "get reports empty exactly when %s == %s; tested value %s" % (own, peer, x),
                                       inst.loc, fn.name)
            chk.ob("R4.refusal-guard", pathid, found,
                   "a path that does not publish is taken only under the %s test" %
                   ("full" if role == "producer" else "empty"), p.ret_inst.loc, fn.name)
            if role == "producer":
                ok = p.ret is not None and p.ret[0] == "c" and p.ret[2] == 0
                chk.ob("R4.return", pathid, ok, "refused put returns false (got %s)" % fmt(p.ret), p.ret_inst.loc, fn.name)
            else:
                ok = p.ret is not None and p.ret[0] == "c" and p.ret[2] == (1 << p.ret[1]) - 1
                chk.ob("R4.return", pathid, ok, "empty get returns -1 (got %s)" % fmt(p.ret), p.ret_inst.loc, fn.name)
    return n_success


def _observer_by_evaluation(m, fn, want="empty"):
    """Evaluate the observer on every valid ring state of a few small sizes (0 <= readi, writei < buf_len): it must answer
    readi == writei.  Returns (ok, text), or None if the function is outside what can be evaluated."""
    from ..paths import eval_concrete, NoValue
    try:
        ps = [p for p in paths.enumerate_paths(fn, m) if not paths.is_assert_fail_path(p)]
    except AnalysisError:
        return None
    if not ps or any(p.ret is None for p in ps):
        return None
    atoms = {}
    for p in ps:
        for x in [c for c, t, i in p.conds] + [p.ret]:
            for y in paths.subexprs(x):
                if y[0] in ("ald", "ld"):
                    f = _field(y[1], fn, m)
                    if f in ("readi", "writei", "buf_len"):
                        atoms[y] = f
    if not any(f == "readi" for f in atoms.values()) or not any(f == "writei" for f in atoms.values()):
        return None
    n = 0
    for L in (1, 2, 3, 5, 8, 255, 256):
        pts = range(L) if L <= 8 else (0, 1, L - 2, L - 1)
        for r_ in pts:
            for w_ in pts:
                val = {"readi": r_, "writei": w_, "buf_len": L}
                env = {a: val[f] for a, f in atoms.items()}
                got = None
                try:
                    for p in ps:
                        if all(paths.cond_holds(cd, env) for cd in p.conds):
                            got = eval_concrete(p.ret, env) & 1
                            break
                except NoValue:
                    return None
                if got is None:
                    return None
                n += 1
                expect = (r_ == w_) if want == "empty" else ((w_ + 1) % L == r_)
                if bool(got) != expect:
                    return False, ("with buf_len %d, readi %d, writei %d the observer answers %s, but the ring is %s: a consumer that "
                                   "polls it %s" % (L, r_, w_, "empty" if got else "not empty", "empty" if r_ == w_ else "not empty",
                                                    "never fetches the bytes that are waiting" if got else "is told there is data when there is none"))
    return True, "answers (readi == writei) on all %d valid ring states evaluated (buffer sizes 1..8, 255, 256; indices within the buffer)" % n


def check_observer(chk, m, fn, cfg):
    """ringbuf_empty-like: returns readi == writei from two atomic loads."""
    tag = "%s[%s]" % (fn.name, cfg)
    verdict = _observer_by_evaluation(m, fn)
    if verdict is not None and not verdict[0] and fn.name != "ringbuf_empty":
        # another query over the two indices (a `full` test, a level): it is not the emptiness observer the property names; what it
        # must answer is not stated, so it is only required to be a pure function of the indices (it was evaluable) - no verdict
        full = _observer_by_evaluation(m, fn, want="full")
        chk.ob("R4.other-observer", tag, True, "%s is a read-only query over the indices, %s" %
               (fn.name, "true exactly when the ring is full" if full and full[0] else "not the emptiness test; what it answers is not the property's subject"),
               fn.loc, fn.name)
        return
    if verdict is not None:
        ok, detail = verdict
        chk.ob("R4.empty-observer", tag, ok, detail, fn.loc, fn.name)
        return
    n_before = len(chk.obligations) if hasattr(chk, "obligations") else None
    judged = [False]
    _ob, _unk = chk.ob, chk.unknown

    def ob2(*a, **k):
        judged[0] = True
        return _ob(*a, **k)

    def unk2(*a, **k):
        judged[0] = True
        return _unk(*a, **k)
    chk.ob, chk.unknown = ob2, unk2
    try:
        _check_observer_structurally(chk, m, fn, cfg, tag)
    finally:
        chk.ob, chk.unknown = _ob, _unk
    if not judged[0]:
        chk.unknown("R4.empty-observer", tag, "%s does not decide from the two indices (readi, writei) at all: what it reads instead is "
                    "state these rules have no model of - whether it can report 'empty' while a published byte is waiting is not decided"
                    % fn.name, fn.loc)


def _check_observer_structurally(chk, m, fn, cfg, tag):
    for p in paths.enumerate_paths(fn, m):
        if paths.is_assert_fail_path(p):
            continue
        r = strip_casts(p.ret) if p.ret is not None else None
        if r is None:
            continue
        if r[0] == "icmp" and r[1] == "eq":
            fs = set()
            for side in (r[2], r[3]):
                if side[0] == "ald":
                    fs.add(_field(side[1], fn, m))
            if not fs:
                chk.unknown("R4.empty-observer", tag, "%s does not compare the two indices: it decides from %s, state these rules have no "
                            "model of - whether it can report 'empty' while a published byte is waiting is not decided"
                            % (fn.name, fmt(r)[:60]), p.ret_inst.loc)
                continue
            chk.ob("R4.empty-observer", tag, fs == {"readi", "writei"},
                   "returns (readi == writei) computed from atomic loads (fields compared: %s)" % sorted(map(str, fs)),
                   p.ret_inst.loc, fn.name)
        else:
            loads = [e for e in p.events if e.kind == "load" and _field(e.ptr, fn, m) in ("readi", "writei")]
            if not loads:
                continue
            # a constant result selected by branches: the path conditions must pin down readi == writei (for true) or != (false)
            rl = [e.val for e in loads if _field(e.ptr, fn, m) == "readi"]
            wl = [e.val for e in loads if _field(e.ptr, fn, m) == "writei"]
            verdict = None
            if r[0] == "c" and len(rl) == 1 and len(wl) == 1:
                for c, taken, inst in p.conds:
                    cc = strip_casts(c)
                    if cc[0] == "icmp" and cc[1] in ("eq", "ne") and {strip_casts(cc[2]), strip_casts(cc[3])} == {rl[0], wl[0]}:
                        verdict = (cc[1] == "eq") == bool(taken)
            if verdict is None:
                chk.unknown("R4.empty-observer", tag, "observer result is not readi == writei: %s" % fmt(r), p.ret_inst.loc)
            else:
                chk.ob("R4.empty-observer", tag + " -> " + str(bool(r[2])), verdict == bool(r[2]),
                       "returns %s exactly on the branch where the two atomically loaded indices are %s" %
                       (bool(r[2]), "equal" if verdict else "different"), p.ret_inst.loc, fn.name)


def run_config(chk, cfg):
    units = build.library_units()
    mods = build.load_units(units, cfg)
    for m in mods:
        chk.note_unit(m)
    fns = ringbuf_functions(mods)
    roles = {}
    n_pub = 0
    for m, fn, acc in fns:
        chk.note_fn(fn)
        role = classify(fn, acc)
        roles.setdefault(role, []).append(fn.name)
        tag = "%s[%s]" % (fn.name, cfg)
        # R7-style atomicity for index fields is C07's; here: single writer
        if role == "both":
            locs = [a.inst.loc for a in acc if a.writes and a.field in ("readi", "writei")]
            chk.ob("R2.single-writer", tag, False,
                   "function stores both readi and writei: each index must have exactly one writing role", locs[0], fn.name)
            continue
        for a in acc:
            if a.writes and a.field in ("readi", "writei") and role != "init":
                chk.ob("R2.single-writer", "%s stores %s" % (tag, a.field), True,
                       "role=%s" % role, a.inst.loc, fn.name)
        if role in ("producer", "consumer"):
            n_pub += check_role_fn(chk, m, fn, role, cfg)
        elif role == "observer":
            if fn.ret_ty in ("i1", "i8", "i32") and (any(a.field in ("readi", "writei") for a in acc) or fn.name == "ringbuf_empty"):
                check_observer(chk, m, fn, cfg)
    # the API's own observer is examined even when it no longer reads the descriptor itself (it asks a helper)
    if "ringbuf_empty" not in [fn.name for m, fn, acc in fns]:
        for m in mods:
            if m.unit.endswith("ringbuf.c") and m.has_fn("ringbuf_empty") and m.fn("ringbuf_empty").blocks:
                check_observer(chk, m, m.fn("ringbuf_empty"), cfg)
    # roles are transitive inside the ring-buffer module: an API function of ringbuf.c must not act for both sides
    prog = flow.Program(mods)
    direct = {}
    for m, fn, acc in fns:
        direct[fn.name] = classify(fn, acc)
    for m in mods:
        if not m.unit.endswith("ringbuf.c"):
            continue
        for fn in m.defined_functions():
            rs = set()
            for g in prog.closure(fn):
                r = direct.get(g.name)
                if r in ("producer", "consumer"):
                    rs.add(r)
            if direct.get(fn.name) == "init" or not rs:
                continue
            chk.ob("R2.single-writer", "%s[%s] transitive role" % (fn.name, cfg), len(rs) == 1,
                   "%s acts (through its callees) as %s: %s" % (fn.name, " and ".join(sorted(rs)),
                                                              "one side only" if len(rs) == 1 else
                                                              "a producer-side API function that also advances readi races with the consumer and "
                                                              "destroys unread bytes"), fn.loc, fn.name)
    # the indices must be able to hold every position of the ring: at least as wide as buf_len, or a full unsigned int
    # (rings of 2^32 bytes and more are outside what the unsigned-int arithmetic of ringbuf.c addresses anyway)
    mr = [m for m in mods if m.unit.endswith("ringbuf.c")]
    tid = mr[0].di_by_name.get("ringbuf_t") if mr else None
    if tid:
        sz = {pth: size for pth, off, size, ty in mr[0].di_leaves(tid)}
        need = min(sz.get("buf_len", 8), 4)
        for f in ("readi", "writei"):
            ok = sz.get(f, 0) >= need
            chk.ob("R3.index-width", "ringbuf_t.%s[%s]" % (f, cfg), ok,
                   "%s is %d bytes wide, buf_len %d: every position below buf_len is representable" % (f, sz.get(f, 0), sz.get("buf_len", 0)) if ok else
                   "%s is %d bytes wide but buf_len is a %d-byte quantity that nothing limits: in a ring longer than %d bytes the stored index "
                   "wraps to 0 while the value compared with the peer index does not, so a full ring accepts a put (writei catches up with "
                   "readi) and unread bytes are overwritten" % (f, sz.get(f, 0), sz.get("buf_len", 0), 1 << (8 * sz.get(f, 0))),
                   "include/librfn/ringbuf.h", "ringbuf_t")
    else:
        chk.unknown("R3.index-width", "ringbuf_t[%s]" % cfg, "anchor vanished: ringbuf_t has no debug info")
    dirs = STEP_DIRS.pop(cfg, {})
    chk.ob("R4.same-direction", "ringbuf[%s]" % cfg, len(dirs) <= 1,
           "every index step and the full test walk the ring the same way round (%s)" % ", ".join("%+d" % d for d in dirs) if len(dirs) <= 1 else
           "the ring is walked both ways: +1 by %s, -1 by %s - the k-th byte put and the k-th byte got are then different slots"
           % (", ".join(dirs.get(1, [])), ", ".join(dirs.get(-1, []))), "", "")
    users = FREE_SLOT_USERS.pop(cfg, {})
    both = "consumer" in users and "producer" in users
    chk.ob("R1.free-slot-one-user", "ringbuf[%s]" % cfg, not both,
           "at most one side relies on the slot the ring keeps vacant (consumer reading the old slot after publishing: %s; producer "
           "filling its slot before looking at readi: %s)" % (users.get("consumer", ("no",))[0], users.get("producer", ("no",))[0]) if not both else
           "both sides spend the one vacant slot: %s reads slot readi-1 after publishing readi (%s) and %s fills slot writei before it "
           "has seen room (%s); with a full ring the producer's staged byte lands in the slot the consumer is still reading"
           % (users["consumer"][0], users["consumer"][1], users["producer"][0], users["producer"][1]), "", "")
    chk.expect("R2", "producer functions [%s]" % cfg, len(roles.get("producer", [])), 1)
    chk.expect("R2", "consumer functions [%s]" % cfg, len(roles.get("consumer", [])), 1)
    chk.expect("R1", "publishing paths [%s]" % cfg, n_pub, 2)
    return roles


def check_static_initialiser(chk):
    from . import macrohyg
    B = macrohyg.W_BASE
    macrohyg.check(chk, "R6.static-initialiser", "RINGBUF_VAR_INIT", "librfn/ringbuf.h", "ringbuf_t",
                   "RINGBUF_VAR_INIT(W + 2, a0 ? 24 : 16)", 1,
                   lambda a: {"bufp": B + 8, "buf_len": 24 if a[0] else 16, "readi": 0, "writei": 0})


def check_run_time_initialiser(chk, cfg, mods):
    """R6.init-complete: when ringbuf_init returns, on every path, bufp and buf_len are the caller's arguments and BOTH indices are
    zero (a zero-filling memset over them, or a store / atomic store of 0 after it).  An index left as it was found makes the ring
    start with whatever the memory held: bytes that were never put, or an index outside the buffer."""
    for m in mods:
        try:
            fn = m.fn("ringbuf_init")
        except Exception:
            continue
        if not fn.blocks:
            continue
        chk.note_fn(fn)
        tid = m.di_by_name.get("ringbuf_t")
        if not tid:
            chk.unknown("R6.init-complete", "ringbuf_init [%s]" % cfg, "anchor vanished: ringbuf_t")
            return
        leaves = {path: (off, size) for path, off, size, ty in m.di_leaves(tid)}
        want = {"bufp": ("arg", 1), "buf_len": ("arg", 2), "readi": ("c", 0), "writei": ("c", 0)}
        n = 0
        for p in paths.enumerate_paths(fn, m):
            if paths.is_assert_fail_path(p):
                continue
            for name, w in want.items():
                if name not in leaves:
                    chk.unknown("R6.init-complete", "ringbuf_init [%s] .%s" % (cfg, name), "anchor vanished: ringbuf_t.%s" % name)
                    continue
                off, size = leaves[name]
                last = None
                for e in p.events:
                    if e.ptr is None or e.kind not in ("store", "memset", "rmw", "cmpxchg", "memcpy"):
                        continue
                    root, o, var = ptr_parts(e.ptr)
                    if root != ("arg", 0) or var:
                        continue
                    sz = e.size
                    if sz is None or (o < off + size and off < o + sz):
                        last = e
                if last is None:
                    got = None
                elif last.kind == "memset" and last.size is not None and ptr_parts(last.ptr)[1] <= off and off + size <= ptr_parts(last.ptr)[1] + last.size \
                        and strip_casts(last.val)[0] == "c":
                    got = ("c", strip_casts(last.val)[2] & 0xff and -1)
                elif last.kind == "store" and ptr_parts(last.ptr)[1] == off and last.size == size:
                    v = strip_casts(last.val)
                    got = ("c", v[2]) if v[0] == "c" else ("c", 0) if v == ("null",) else v
                else:
                    got = "?"
                n += 1
                ok = got == w
                chk.ob("R6.init-complete", "ringbuf_init [%s] .%s" % (cfg, name), ok,
                       "on return the member holds %s" % ("the caller's argument" if w[0] == "arg" else "0") if ok else
                       "on return the member holds %s, not %s: %s" % (
                           "what the memory held before (never written)" if got is None else fmt(got)[:40] if got != "?" else "a partially written value",
                           "argument %d" % w[1] if w[0] == "arg" else "0",
                           "the ring starts with an index that was never set - bytes that were never put are delivered, or the index is "
                           "outside the buffer" if name in ("readi", "writei") else "the ring does not describe the caller's buffer"),
                       (last.inst.loc if last is not None else fn.loc), fn.name)
        chk.expect("R6", "members checked on ringbuf_init's paths [%s]" % cfg, n, 4)
        return
    chk.unknown("R6.init-complete", "ringbuf_init [%s]" % cfg, "anchor vanished: ringbuf_init")


def check_user_contexts(chk, cfg, mods):
    """R7.one-consumer-context: the ring has ONE consumer.  Among the library's own users: a function that can run in interrupt
    context (reachable from the entry points the headers document as interrupt-callable, C06.ISR_ENTRY) must not take bytes out
    of (ringbuf_get) a ring that main-context code also reads - two consumers race on readi, bytes are delivered twice or the
    read index jumps over unread data."""
    from . import C06
    prog = flow.Program(mods)
    isr = {}
    for name in C06.ISR_ENTRY:
        f = prog.lookup(name)
        if f is None:
            continue
        for g in prog.closure(f):
            isr.setdefault((g.module.unit, g.name), (g, name))

    def ring_of(c, m):
        try:
            return flow.name_field(flow.resolve_ptr(c.args[0], m), m)
        except Exception:
            return (None, None)
    consumers = {}     # ring -> [(fn, call, in_isr_via)]
    for m in mods:
        for fn in m.defined_functions():
            if fn.name.startswith("ringbuf_"):
                continue
            for c in fn.calls():
                if c.callee == "ringbuf_get" and c.args:
                    consumers.setdefault(ring_of(c, m), []).append((fn, c, isr.get((m.unit, fn.name))))
    n = 0
    for ring, users in sorted(consumers.items(), key=lambda kv: str(kv[0])):
        main = [u for u in users if u[2] is None]
        for fn, c, via in users:
            n += 1
            bad = via is not None and bool(main)
            chk.ob("R7.one-consumer-context", "%s[%s] ringbuf_get(%s.%s)" % (fn.name, cfg, ring[0], ring[1]), not bad,
                   "the ring's bytes are taken out in one context only" if not bad else
                   "%s can run in interrupt context (reachable from %s) and takes bytes out of the ring that %s reads in main context: "
                   "two consumers race on readi (a byte is delivered twice, or unread bytes are skipped)"
                   % (fn.name, via[1], main[0][0].name), c.loc, fn.name)
    chk.expect("R7", "in-tree consumers of a ring", n, 1)


def run(chk):
    chk.level = "other"
    chk.explanation = (
        "Static protocol-shape analysis of every function that touches ringbuf_t, in both atomics builds: "
        "path enumeration over the IR with symbolic index arithmetic (linear forms over the loaded index and "
        "buf_len, exact Farkas-style entailment, bounded concrete refutation). Decides publication order and "
        "release/acquire strength, single writer per index, index and subscript range for every buf_len>=2, "
        "full/empty predicates with the wrapped successor, unsigned byte delivery. It does NOT decide "
        "exactly-once in-order delivery over all interleavings; these clauses are necessary conditions of it.")
    chk.rule("R1", "payload access ordered before the release-store of the role's own index and after an acquire-load of the peer index, on every path")
    chk.rule("R2", "writei stored only by producer-role functions, readi only by consumer-role functions; no function stores both (initialisers listed)")
    chk.rule("R3", "for all L=buf_len>=2 and loaded index in [0,L-1]: stored index and payload subscript in [0,L-1]")
    chk.rule("R4", "put refuses exactly on next(writei)==readi, stores at the old index and publishes next; get/empty report empty exactly on readi==writei")
    chk.rule("R5", "value returned by a successful get is the zero-extension of the loaded byte")
    chk.assumptions += [
        "buf_len <= 2^31 and indices loaded from the descriptor are in [0, buf_len-1] (inductive: initialisers store 0; R3 re-establishes it)",
        "pointers with different roots do not alias (the descriptor and the byte array are distinct objects)",
        "clang's lowering of <stdatomic.h>/__atomic builtins is the C11 operation of the same name (the repo builds with gcc)",
        "headline behaviour (exactly-once, in-order under all interleavings) is NOT decided; only the listed protocol clauses",
    ]
    chk.not_decided += ["exactly-once, in-order delivery over all interleavings"]
    for cfg in ("default", "noatomics"):
        run_config(chk, cfg)
    chk.rule("R7", "in-tree users: no interrupt-callable function takes bytes out of a ring that main-context code reads (one consumer)")
    for cfg in ("default", "noatomics"):
        check_user_contexts(chk, cfg, build.load_units(build.library_units(), cfg))
    chk.rule("R6", "RINGBUF_VAR_INIT uses each argument as one expression: bufp is the (converted) pointer argument, buf_len the length argument, both indices 0")
    check_static_initialiser(chk)
    chk.rule("R6.init-complete", "ringbuf_init leaves bufp / buf_len equal to its arguments and both indices 0 on every path")
    for cfg in ("default", "noatomics"):
        check_run_time_initialiser(chk, cfg, build.load_units(["librfn/ringbuf.c"], cfg))
