"""strdup_printf / strdup_vprintf (librfn/string.c): the formatted-string allocator that rf_wavheader_tostring (C14) and
mlog_get_line (C20) hand their text to.  Those properties speak about the text that comes back, so the helper's contract
is a necessary condition of both; it is decided here on every path of strdup_vprintf and imported by C14 and C20.

  S1.alloc-size      the buffer returned is malloc(len + 1), len being what v(s)nprintf reported for this format and arguments
  S1.filled          on every path returning the buffer it holds the complete formatted text: written by vsprintf / vsnprintf
                     with the same format, or copied from a local buffer that vsnprintf filled WITHOUT truncation
                     (the path's comparisons must give 0 <= len < size passed to vsnprintf)
  S1.local-buffer    every copy out of / format into a local array stays inside it (length bounded by the array's size under the
                     path's comparisons)
  S1.va-list-once    the caller's va_list is consumed by at most one v*printf call on a path (a second traversal needs va_copy)
  S2.wrapper         strdup_printf passes its format and its own va_list to strdup_vprintf and returns that result
"""
from .. import build, paths
from ..ir import AnalysisError
from ..paths import fmt, ptr_parts, strip_casts

UNIT = "librfn/string.c"
VPRINTF = ("vsnprintf", "vsprintf", "vprintf", "vfprintf", "vasprintf")


def _alloca_size(fn, name):
    for blk in fn.order:
        for i in blk.insts:
            if i.op == "alloca" and i.name == name:
                return i.get("alloc_size")
    return None


def _bounds(p, x):
    """[lo, hi] of the 32-bit signed value x from the path's comparisons of x (or a sign extension of it) with constants."""
    lo, hi = -(1 << 31), (1 << 31) - 1
    neg = {"sgt": "sle", "sle": "sgt", "sge": "slt", "slt": "sge", "eq": "ne", "ne": "eq", "ugt": "ule", "ule": "ugt", "uge": "ult", "ult": "uge"}
    for c, taken, inst in p.conds:
        cc = strip_casts(c)
        if cc[0] != "icmp" or cc[3][0] != "c" or strip_casts(cc[2]) != x:
            continue
        bits = cc[3][1]
        v = cc[3][2]
        if v >> (bits - 1):
            v -= 1 << bits
        pred = cc[1] if taken else neg[cc[1]]
        if pred == "sgt":
            lo = max(lo, v + 1)
        elif pred == "sge":
            lo = max(lo, v)
        elif pred == "slt":
            hi = min(hi, v - 1)
        elif pred == "sle":
            hi = min(hi, v)
        elif pred == "eq":
            lo, hi = max(lo, v), min(hi, v)
        elif pred in ("ult", "ule") and v >= 0:
            # unsigned below a non-negative constant: 0 <= x as well
            lo = max(lo, 0)
            hi = min(hi, v - 1 if pred == "ult" else v)
    return lo, hi


def run_rules(chk):
    m = build.load_unit(UNIT)
    chk.note_unit(m)
    if not m.has_fn("strdup_vprintf"):
        chk.unknown("S1.filled", "strdup_vprintf", "anchor vanished: strdup_vprintf is not defined in %s" % UNIT)
        return
    fn = m.fn("strdup_vprintf")
    chk.note_fn(fn)
    try:
        ps = [p for p in paths.enumerate_paths(fn, m) if not paths.is_assert_fail_path(p)]
    except AnalysisError as e:
        chk.unknown("S1.filled", "strdup_vprintf", str(e), fn.loc)
        return
    n_ret = 0
    for p in ps:
        pid = "strdup_vprintf " + "->".join(b.lstrip("%") for b in p.blocks)
        calls = [(k, e) for k, e in enumerate(p.events) if e.kind == "call" and isinstance(e.callee, str)]
        fmts = [(k, e) for k, e in calls if e.callee in VPRINTF]
        used = [e for k, e in fmts if e.args and e.args[-1] == ("arg", 1)]
        chk.ob("S1.va-list-once", pid, len(used) <= 1,
               "the caller's va_list is traversed by at most one v*printf call (%d here); any other traversal uses a va_copy" % len(used),
               (used[-1].inst.loc if used else fn.loc), fn.name)
        ret = strip_casts(p.ret) if p.ret is not None else None
        mallocs = [(k, e) for k, e in calls if e.callee in ("malloc", "xmalloc", "calloc")]
        if ret is None or ret == ("null",) or not mallocs:
            if ret is not None and ret != ("null",):
                chk.ob("S1.alloc-size", pid, False, "the value returned (%s) is not a buffer this function allocated" % fmt(ret)[:50], p.ret_inst.loc, fn.name)
            continue
        km, em = mallocs[-1]
        if ret != em.res:
            chk.ob("S1.alloc-size", pid, False, "the value returned (%s) is not the allocated buffer" % fmt(ret)[:50], p.ret_inst.loc, fn.name)
            continue
        isnull = None
        for c, taken, inst in p.conds:
            cc = strip_casts(c)
            if cc[0] == "icmp" and cc[1] in ("eq", "ne") and {strip_casts(cc[2]), strip_casts(cc[3])} == {em.res, ("null",)}:
                isnull = (cc[1] == "eq") == bool(taken)
        if isnull:
            continue                    # allocation failed: NULL is returned
        n_ret += 1
        # the measured length
        measures = [(k, e) for k, e in fmts if e.callee == "vsnprintf" and k < km and len(e.args) == 4 and e.args[2] == ("arg", 0)]
        size = strip_casts(em.args[0])
        LEN = None
        for k, e in measures:
            if size[0] == "b" and size[1] == "add" and strip_casts(size[3]) == e.res and size[4][0] == "c" and size[4][2] == 1:
                LEN = e
        chk.ob("S1.alloc-size", pid, LEN is not None,
               "the buffer is malloc(len + 1) with len the length vsnprintf reported for this format" if LEN is not None else
               "the buffer's size %s is not (length reported by vsnprintf for this format) + 1" % fmt(size)[:60], em.inst.loc, fn.name)
        if LEN is None:
            continue
        lo, hi = _bounds(p, LEN.res)
        # local arrays: every formatted write / copy stays inside
        for k, e in calls:
            if e.callee == "vsnprintf" and ptr_parts(e.args[0])[0][0] == "alloca":
                B = _alloca_size(fn, ptr_parts(e.args[0])[0][1])
                sz = strip_casts(e.args[1])
                ok = B is not None and sz[0] == "c" and ptr_parts(e.args[0])[1] + sz[2] <= B
                chk.ob("S1.local-buffer", pid + " vsnprintf", ok, "vsnprintf into a local array is given at most the array's size (%s of %s)" %
                       (fmt(sz), B), e.inst.loc, fn.name)
            if e.callee in ("vsprintf", "sprintf", "strcpy") and ptr_parts(e.args[0])[0][0] == "alloca":
                chk.ob("S1.local-buffer", pid + " " + e.callee, False, "unbounded %s into a local array" % e.callee, e.inst.loc, fn.name)
        filled = None
        why = "nothing writes the formatted text into the returned buffer"
        for k, e in calls:
            if k < km:
                continue
            if e.callee == "vsprintf" and e.args[0] == em.res and e.args[1] == ("arg", 0):
                filled = "vsprintf(str, fmt, ap)"
            if e.callee == "vsnprintf" and e.args[0] == em.res and e.args[2] == ("arg", 0):
                if strip_casts(e.args[1]) == size:
                    filled = "vsnprintf(str, len + 1, fmt, ap)"
                else:
                    why = "vsnprintf into the buffer is limited to %s, not len + 1: the text is truncated" % fmt(e.args[1])[:40]
        for e in p.events:
            if e.kind == "memcpy" and e.ptr == em.res:
                src = e.val
                n = strip_casts(e.extra) if e.extra is not None else None
                root = ptr_parts(src)[0] if src is not None else None
                if root is None or root[0] != "alloca":
                    why = "the buffer is filled by a copy from %s, which is not the formatted text" % (fmt(src)[:40] if src is not None else "?")
                    continue
                B = _alloca_size(fn, root[1])
                # the local buffer must have been filled by the measuring call itself, un-truncated
                if LEN.args[0] != src or strip_casts(LEN.args[1])[0] != "c":
                    why = "the local buffer copied from was not filled by the vsnprintf call that measured the text"
                    continue
                sz = strip_casts(LEN.args[1])[2]
                full = n is not None and (n == size or (n[0] == "b" and n[1] == "add" and strip_casts(n[3]) == LEN.res and n[4][0] == "c" and n[4][2] == 1))
                if not full:
                    why = "the copy is %s bytes, not len + 1" % (fmt(n)[:40] if n is not None else "?")
                    continue
                if lo < 0 or hi >= sz:
                    k_bad = max(sz, lo) if hi >= sz else lo
                    chk.ob("S1.local-buffer", pid + " copy", False,
                           "the text is copied out of a %s-byte local buffer that vsnprintf filled with a limit of %d, on a path that allows "
                           "len in [%d, %d]: for len == %d vsnprintf kept only %d characters (and the copy of len + 1 = %d bytes %s), so the "
                           "string returned is not the formatted text" %
                           (B, sz, lo, hi, k_bad, sz - 1, k_bad + 1, "reads beyond the array" if B is not None and k_bad + 1 > B else "ends in the truncation NUL"),
                           e.inst.loc, fn.name)
                    why = None
                    filled = False
                    continue
                chk.ob("S1.local-buffer", pid + " copy", B is not None and hi + 1 <= B,
                       "len + 1 <= %s bytes are copied from a %s-byte array whose content is the complete text (0 <= len <= %d < %d)" % (hi + 1, B, hi, sz),
                       e.inst.loc, fn.name)
                filled = "copy of the un-truncated local formatting"
        if filled is False:
            continue
        chk.ob("S1.filled", pid, bool(filled),
               "the returned buffer holds the complete formatted text (%s)" % filled if filled else why, p.ret_inst.loc, fn.name)
    chk.expect("S1", "paths of strdup_vprintf returning a buffer", n_ret, 1)
    if m.has_fn("strdup_printf"):
        f2 = m.fn("strdup_printf")
        chk.note_fn(f2)
        try:
            for p in paths.enumerate_paths(f2, m):
                cs = [e for e in p.events if e.kind == "call" and e.callee == "strdup_vprintf"]
                ok = len(cs) == 1 and cs[0].args[0] == ("arg", 0) and strip_casts(p.ret) == cs[0].res
                chk.ob("S2.wrapper", "strdup_printf", ok, "strdup_printf returns strdup_vprintf(fmt, its own va_list)", f2.loc, f2.name)
        except AnalysisError as e:
            chk.unknown("S2.wrapper", "strdup_printf", str(e), f2.loc)


def import_into(chk):
    chk.rule("str.S1", "strdup_vprintf returns malloc(len+1) holding the complete formatted text; local staging buffers are never over-read or used truncated; the va_list is traversed once")
    chk.rule("str.S2", "strdup_printf forwards its format and arguments to strdup_vprintf")
    old_p, old_f = chk.rule_prefix, chk.rule_filter
    chk.rule_prefix, chk.rule_filter = "str.", None
    try:
        run_rules(chk)
    finally:
        chk.rule_prefix, chk.rule_filter = old_p, old_f
