"""C11 - binary-tree iterators and bintree_free: pairing and discipline clauses.

bintree.c is not built or tested by the suite.  Visiting order and complete restoration of links for EVERY tree shape
depend on heap shape and are NOT decided.  Decided (loop-free segments of the IR):
 M1 thread / un-thread pairing in the in-order and pre-order Morris iterators: the link prev->right is set to curr only
    when it was NULL and reset to NULL whenever it is found equal to curr; the node is returned at the documented moment
 M2 tag / untag pairing of the post-order iterator: the marking pass sets exactly bit 0 of left; every read of left used for
    navigation and the final restore clear exactly bit 0 (nodes are only 2-byte aligned); the restore precedes the return
 M3 bintree_free discipline: after dealloc(n) nothing is read or written through n; the parent's link to n is overwritten
    before the iterator is advanced; post_order_iterator clears iter->curr before returning the root
 M4 bintree_free_left / _right free only a present subtree and clear the parent's link afterwards
"""
from .. import build, paths
from ..ir import AnalysisError
from ..paths import fmt, ptr_parts, strip_casts

UNIT = "librfn/bintree.c"


def layout(m):
    def offs(*names):
        for n in names:
            tid = m.di_by_name.get(n)
            if tid:
                # members of an anonymous struct / union are members of the enclosing type
                return {p.replace("<anon>.", ""): o for p, o, s, t in m.di_leaves(tid)}
        raise AnalysisError("anchor vanished: %s" % names[0])
    N = offs("bintree_node_t", "bintree_node")
    I = offs("bintree_iterator_t", "bintree_iterator")
    for d, ks, what in ((N, ("left", "right"), "bintree_node_t"), (I, ("curr", "parent"), "bintree_iterator_t")):
        for k_ in ks:
            if k_ not in d:
                raise AnalysisError("anchor vanished: %s.%s (members now: %s): the iterator's representation changed and the rules stated "
                                    "over the documented members cannot decide this tree" % (what, k_, ", ".join(sorted(d))))
    return N["left"], N["right"], I["curr"], I["parent"]


def segs(m, name, seed=None):
    fn = m.fn(name)
    return fn, [(s, p) for s, p in paths.enumerate_segments(fn, m, seed=seed) if p.end != "unreachable"]


def cursor_invariant(fn, ss, CUR):
    """The walk keeps its position both in a local and in iter->curr.  Returns the name of the loop-carried local if
    `local == iter->curr` holds at every loop header (established at entry, re-established by every segment that reaches the outer
    header, and iter->curr is written nowhere else), else a string saying what fails."""
    cur_ptr = (("arg", 0), CUR, ())
    cand = None
    for s, p in ss:
        if s != fn.entry.name or not p.end.startswith("cut:"):
            continue
        for k, v in (getattr(p, "carried", None) or {}).items():
            if v[0] == "ld" and ptr_parts(v[1]) == cur_ptr and not any(e.kind == "store" and ptr_parts(e.ptr) == cur_ptr for e in p.events):
                cand = (p.end[4:], k)
    if cand is None:
        return "no loop-carried local is initialised from iter->curr"
    head, phi = cand
    for s, p in ss:
        st = [e for e in p.events if e.kind == "store" and ptr_parts(e.ptr) == cur_ptr]
        if s == fn.entry.name:
            if st and p.end.startswith("cut:"):
                return "iter->curr is written before the loop (%s)" % st[0].inst.loc
            continue
        if p.end == "cut:" + head:
            carried = (getattr(p, "carried", None) or {}).get(phi)
            if st:
                if strip_casts(st[-1].val) != strip_casts(carried):
                    return "at %s the local continues at %s but iter->curr holds %s" % (p.ret_inst.loc, fmt(carried)[:40], fmt(st[-1].val)[:40])
            elif carried != ("sym", phi):
                return "at %s the local moves on to %s but iter->curr is not updated" % (p.ret_inst.loc, fmt(carried)[:40])
        elif p.end.startswith("cut:") and st:
            return "iter->curr is written inside an inner loop (%s)" % st[0].inst.loc
    return (phi,)


def null_fact(p, e):
    for c, taken, inst in p.conds:
        cc = strip_casts(c)
        if cc[0] == "icmp" and ("null",) in (cc[2], cc[3]):
            o = cc[2] if cc[3] == ("null",) else cc[3]
            if o == e:
                return (cc[1] == "eq") == bool(taken)
    return None


def eq_fact(p, a, b):
    for c, taken, inst in p.conds:
        cc = strip_casts(c)
        if cc[0] == "icmp" and cc[1] in ("eq", "ne") and {cc[2], cc[3]} == {a, b}:
            return (cc[1] == "eq") == bool(taken)
    return None


def slot_null_fact(p, slot):
    """Last fact on the path about (load of slot) being NULL."""
    fact = None
    for c, taken, inst in p.conds:
        cc = strip_casts(c)
        if cc[0] == "icmp" and ("null",) in (cc[2], cc[3]):
            o = cc[2] if cc[3] == ("null",) else cc[3]
            if o[0] == "ld" and o[1] == slot:
                fact = (cc[1] == "eq") == bool(taken)
    return fact


def depth_zero_flag(fn, name):
    """Is the SSA value `name` a phi that is NULL only when the loop is entered and a dereferenced (hence non-NULL) node
    pointer on every back edge?"""
    phi = fn.defs.get(name)
    if phi is None or phi.op != "phi":
        return False
    nulls, others = [], []
    for v, b in phi.incoming:
        (nulls if v.is_null() else others).append((v, b))
    if len(nulls) != 1 or not others:
        return False
    hdr = phi.block
    nb = fn.blocks[nulls[0][1]]
    if fn.can_reach(hdr.insts[-1], nb.insts[-1]) and nb is not hdr:
        return False            # the NULL arrives on a back edge
    for v, b in others:
        if v.k != "inst":
            return False
        derefd = any(u.op in ("load", "getelementptr") and u.ops and u.ops[0].k == "inst" and u.ops[0].name == v.name
                     for u in fn.real_insts())
        if not derefd:
            return False
    return True


def depth_counter(fn, name, node_name):
    """Is the SSA value `name` an integer phi that is 0 only when the loop is entered and, on every back edge, is itself plus one
    exactly where the walk's node (phi `node_name` of the same header) moves and itself where it stays?  Then (as long as it cannot
    wrap) counter == 0 <=> the node is the one the loop started at.  Returns its width in bits, or None."""
    phi = fn.defs.get(name)
    nphi = fn.defs.get(node_name)
    if phi is None or phi.op != "phi" or nphi is None or nphi.op != "phi" or nphi.block is not phi.block or not phi.ty.startswith("i"):
        return None
    try:
        bits = int(phi.ty[1:])
    except ValueError:
        return None
    node_in = {b: v for v, b in nphi.incoming}
    zeros = 0
    for v, b in phi.incoming:
        nv = node_in.get(b)
        if nv is None:
            return None
        node_stays = nv.k == "inst" and nv.name == nphi.name
        if v.is_const_int() and v.uval == 0:
            blk = fn.blocks[b]
            if fn.can_reach(phi.block.insts[-1], blk.insts[-1]) and blk is not phi.block:
                return None         # a zero arrives on a back edge
            zeros += 1
            continue
        if v.k != "inst":
            return None
        if v.name == phi.name:
            if not node_stays:
                return None
            continue
        d = v.inst
        # (a counter narrower than int is incremented as trunc(ext(counter) + 1))
        if d is not None and d.op == "trunc" and d.ops[0].k == "inst":
            d = d.ops[0].inst
        base = d.ops[0] if d is not None and d.op == "add" else None
        if base is not None and base.k == "inst" and base.inst is not None and base.inst.op in ("zext", "sext"):
            base = base.inst.ops[0]
        if d is not None and d.op == "add" and base.k == "inst" and base.name == phi.name and d.ops[1].is_const_int() and d.ops[1].uval == 1:
            if node_stays:
                return None
            continue
        return None
    return bits if zeros == 1 else None


def search_provenance(fn, m, owner, L, R, cursor_field=None):
    """Is the node `owner` (a loop-carried SSA value) produced only by  x->left  of the current node or  owner->right ?"""
    from .. import flow
    if owner[0] != "sym":
        return "the owning node %s is not the loop-carried search variable" % fmt(owner)[:40]
    phi = fn.defs.get(owner[1])
    if phi is None or phi.op != "phi":
        return "%s is not a loop-carried value" % owner[1]
    for v, b in phi.incoming:
        ld = v.inst
        if ld is None or ld.op != "load":
            return "incoming value %r is not loaded from a child link" % v
        try:
            pp = flow.resolve_ptr(ld.ops[0], m)
        except AnalysisError:
            return "incoming value not resolvable"
        if pp.var:
            return "incoming value through a variable offset"
        if pp.root.k == "inst" and pp.root.name == phi.name and pp.off == R:
            continue                    # prev = prev->right
        if pp.off == L and pp.root.k == "inst" and pp.root.inst is not None and pp.root.inst.op == "phi":
            continue                    # prev = curr->left  (curr is the outer loop's node)
        if cursor_field is not None and pp.off == L and pp.root.k == "inst" and pp.root.inst is not None and pp.root.inst.op == "load":
            try:
                q = flow.resolve_ptr(pp.root.inst.ops[0], m)
            except AnalysisError:
                q = None
            if q is not None and not q.var and q.root.k == "arg" and q.root.name == fn.args[0].name and q.off == cursor_field:
                continue                # prev = iter->curr->left, with iter->curr == curr established
        return "it is loaded from offset %d of %r" % (pp.off, pp.root)
    return True


def _search_starts_at_iterator(fn, m, L, CUR):
    from .. import flow
    for i in fn.insts():
        if i.op != "load":
            continue
        try:
            pp = flow.resolve_ptr(i.ops[0], m)
        except AnalysisError:
            continue
        if pp.var or pp.off != L or pp.root.k != "inst" or pp.root.inst is None or pp.root.inst.op != "load":
            continue
        try:
            q = flow.resolve_ptr(pp.root.inst.ops[0], m)
        except AnalysisError:
            continue
        if not q.var and q.root.k == "arg" and q.root.name == fn.args[0].name and q.off == CUR and pp.root.inst.block.name != fn.entry.name:
            return True
    return False


def check_morris(chk, m, name, order, L, R, CUR):
    fn, ss = segs(m, name)
    chk.note_fn(fn)
    n_thread = n_unthread = n_dec = 0
    cursor_phi = None
    # the rules below follow the walk's position in a local (loaded from iter->curr once, at entry); a walk that re-reads its position
    # from the iterator inside the loop relies on an invariant (local == iter->curr) that is not established here
    for s, p in ss:
        if s == fn.entry.name:
            continue
        rd = [e for e in p.events if e.kind == "load" and ptr_parts(e.ptr) == (("arg", 0), CUR, ())]
        if rd:
            inv = cursor_invariant(fn, ss, CUR)
            if isinstance(inv, tuple):
                # the invariant is inductive: re-enumerate with it as a memory fact at every loop header
                cursor_phi = inv[0]
                fn, ss = segs(m, name, seed={paths.mkptr(("arg", 0), CUR): (("sym", cursor_phi), m.ptr_size)})
                chk.ob("M1.cursor", name, True, "the walk's position is kept both in a local and in iter->curr: the two agree at every loop "
                       "header (established at entry, re-established on every arrival at the outer header, iter->curr written nowhere else)",
                       rd[0].inst.loc, name)
                break
            if inv.startswith("at ") and _search_starts_at_iterator(fn, m, L, CUR):
                chk.ob("M1.cursor", name, False, "the predecessor search starts at iter->curr->left, but iter->curr is not the walk's "
                       "position on every iteration: %s; the search then finds the predecessor of a node the walk has already left, and "
                       "the thread is created or removed in the wrong place" % inv, rd[0].inst.loc, name)
                return
            chk.unknown("M1.cursor", name, "the walk re-reads its position from iter->curr inside the loop (%s): the threading rules follow "
                        "the position in a local variable, and the two are not shown to agree: %s" % (rd[0].inst.loc, inv), rd[0].inst.loc)
            return
    for s, p in ss:
        sid = "%s %s..%s [%s]" % (name, s.lstrip("%"), p.end, "->".join(b.lstrip("%") for b in p.blocks[-3:]))
        stores = [e for e in p.events if e.kind == "store" and ptr_parts(e.ptr)[1] == R and ptr_parts(e.ptr)[0][0] in ("sym", "ld", "call")
                  and not ptr_parts(e.ptr)[2]]
        # prune the infeasible combination  prev->right == NULL  and  prev->right == curr  (curr is dereferenced, hence non-NULL)
        infeasible = False
        for c, taken, inst in p.conds:
            cc = strip_casts(c)
            if cc[0] == "icmp" and cc[1] in ("eq", "ne") and cc[2][0] == "ld" and cc[3][0] == "sym" and ptr_parts(cc[2][1])[1] == R:
                if (cc[1] == "eq") == bool(taken) and slot_null_fact(p, cc[2][1]) is True:
                    infeasible = True
        if infeasible:
            continue
        for e in stores:
            f = slot_null_fact(p, e.ptr)
            if e.val == ("null",):
                n_unthread += 1
                owner = ptr_parts(e.ptr)[0]
                prov = search_provenance(fn, m, owner, L, R, CUR if cursor_phi else None)
                if prov is not True and owner[0] == "call":
                    chk.unknown("M1.unthread-provenance", sid, "the node whose link is reset is the result of %s(), which is not "
                                "summarised: whether it is the in-order predecessor is not decided" % owner[1], e.inst.loc)
                    continue
                chk.ob("M1.unthread-provenance", sid, prov is True,
                       "the link that is reset was reached by the predecessor search (prev = curr->left, then prev = prev->right ...): %s" %
                       ("yes" if prov is True else "NO - %s; a link found any other way may be a genuine right child, which would be "
                        "cut off together with its subtree" % prov), e.inst.loc, name)
                chk.ob("M1.unthread", sid, f is False,
                       "prev->right is reset to NULL only where the search found it non-NULL, i.e. found the thread back to curr "
                       "(NULL-ness of the slot on this path: %s)" % f, e.inst.loc, name)
            elif e.val[0] == "sym":
                n_thread += 1
                chk.ob("M1.thread", sid, f is True,
                       "prev->right is pointed at curr only where it was NULL (a thread never overwrites a real right child; "
                       "NULL-ness of the slot on this path: %s)" % f, e.inst.loc, name)
        # the segment that ends the predecessor search must act on what it found
        if s != fn.entry.name and p.end != "cut:" + s:
            slots = set(strip_casts(c[0])[2][1] for c in p.conds if strip_casts(c[0])[0] == "icmp" and strip_casts(c[0])[2][0] == "ld"
                        and ptr_parts(strip_casts(c[0])[2][1])[1] == R and ptr_parts(strip_casts(c[0])[2][1])[0][0] == "sym")
            for slot in slots:
                f = slot_null_fact(p, slot)
                if f is None:
                    continue
                n_dec += 1
                th = [e for e in stores if e.ptr == slot and e.val[0] == "sym"]
                un = [e for e in stores if e.ptr == slot and e.val == ("null",)]
                if f:
                    chk.ob("M1.decision", sid, len(th) == 1 and not un, "search ended at a NULL right link: the thread is created", p.ret_inst.loc, name)
                else:
                    chk.ob("M1.decision", sid, len(un) == 1 and not th,
                           "search ended at the thread back to curr: it is removed (otherwise the tree keeps a cycle after iteration)",
                           p.ret_inst.loc, name)
        # what is returned when
        if p.end == "ret" and p.ret is not None and p.ret[0] == "sym":
            curr = p.ret
            no_left = False
            for c, taken, inst in p.conds:
                cc = strip_casts(c)
                if cc[0] == "icmp" and cc[2][0] == "ld" and ptr_parts(cc[2][1]) == (curr, L, ()) and cc[3] == ("null",):
                    no_left = (cc[1] == "eq") == bool(taken)
            threaded = any(e.val == curr for e in stores)
            unthreaded = any(e.val == ("null",) for e in stores)
            nxt = [e for e in p.events if e.kind == "store" and ptr_parts(e.ptr) == (("arg", 0), CUR, ())]
            if order == "in":
                ok = (no_left or unthreaded) and not threaded
                nxt_ok = bool(nxt) and nxt[-1].val[0] == "ld" and ptr_parts(nxt[-1].val[1]) == (curr, R, ())
                txt = "in-order: a node is returned when it has no left subtree or when its left subtree has just been finished (un-thread); the walk continues at its right child"
            else:
                ok = (no_left or threaded) and not unthreaded
                want = R if no_left else L
                nxt_ok = bool(nxt) and nxt[-1].val[0] == "ld" and ptr_parts(nxt[-1].val[1]) == (curr, want, ())
                txt = "pre-order: a node is returned when first met (no left subtree, or when the thread is created); the walk continues at its left child (right if none)"
            chk.ob("M1.return-moment", sid, ok and nxt_ok, txt, p.ret_inst.loc, name)
    chk.expect("M1", "thread stores in %s" % name, n_thread, 1)
    chk.expect("M1", "un-thread stores in %s" % name, n_unthread, 1)
    chk.expect("M1", "search-end decisions in %s" % name, n_dec, 2)


def is_mask_op(e, op, const):
    """e == inttoptr(ptrtoint(X) op const) ; returns X or None"""
    e = strip_casts(e)
    if e[0] == "b" and e[1] == op and e[4][0] == "c":
        v = e[4][2]
        sv = v - (1 << e[4][1]) if v >> (e[4][1] - 1) else v
        if sv == const:
            return strip_casts(e[3])
        return ("wrong-const", sv)
    return None


def check_post_order(chk, m, L, R, CUR, PAR):
    fn, ss = segs(m, "bintree_iterate_post_order")
    chk.note_fn(fn)
    n = 0
    for s, p in ss:
        for e in p.events:
            if e.kind == "store" and ptr_parts(e.ptr)[1] == L and ptr_parts(e.ptr)[0][0] in ("sym", "call"):
                n += 1
                x = is_mask_op(e.val, "or", 1)
                ok = x is not None and x[0] == "ld" and x[1] == e.ptr
                chk.ob("M2.tag", "bintree_iterate_post_order %s" % s.lstrip("%"), ok,
                       "the marking pass sets exactly bit 0 of node->left (value %s)" % fmt(e.val)[:60], e.inst.loc, fn.name)
    if n == 0:
        f0 = m.fn("bintree_iterate_post_order")
        chk.ob("M2.tag", "bintree_iterate_post_order", False,
               "the marking pass of the post-order set-up stores no tag in this build (is the store inside an assert()?): no node counts "
               "as unvisited, the post-order iterator returns nothing and bintree_free frees nothing", f0.loc, f0.name)
    chk.expect("M2", "tag stores", n, 1)
    fn, ss = segs(m, "post_order_iterator")
    chk.note_fn(fn)
    n_ret = n_nav = 0
    for s, p in ss:
        sid = "post_order_iterator %s..%s" % (s.lstrip("%"), p.end)
        # navigation reads of left: values used as pointers must be masked with ~1
        for e in p.events:
            if e.kind == "load" and ptr_parts(e.ptr)[1] == L and e.size == 8 and ptr_parts(e.ptr)[0][0] == "sym":
                pass
        allx = set(y for c in p.conds for y in paths.subexprs(c[0]))
        for e in p.events:
            if e.val is not None:
                allx |= set(paths.subexprs(e.val))
        for v in getattr(p, "carried", {}).values():
            allx |= set(paths.subexprs(v))
        for x in allx:
            if x[0] == "b" and x[1] == "and" and x[4][0] == "c" and x[2] == 64:
                inner = strip_casts(x[3])
                if inner[0] == "ld" and ptr_parts(inner[1])[1] == L:
                    v = x[4][2]
                    sv = v - (1 << 64) if v >> 63 else v
                    if sv == 1:
                        continue        # the visited test itself
                    n_nav += 1
                    chk.ob("M2.mask", "%s mask %d" % (sid, sv), sv == -2,
                           "a tagged left link is stripped with mask %d; only bit 0 is a tag (nodes are merely 2-byte aligned), so the mask "
                           "must be ~1: with ~3 a left child at an address with bit 1 set is mis-addressed and its subtree skipped" % sv,
                           p.ret_inst.loc, fn.name)
        if p.end == "ret" and p.ret is not None and p.ret[0] == "sym":
            n_ret += 1
            tmp = p.ret
            un = [k for k, e in enumerate(p.events) if e.kind == "store" and ptr_parts(e.ptr) == (tmp, L, ())]
            ok = False
            if un:
                x = is_mask_op(p.events[un[-1]].val, "and", -2)
                ok = x is not None and x[0] == "ld" and ptr_parts(x[1]) == (tmp, L, ())
            chk.ob("M2.untag-before-return", sid, ok,
                   "the node's left link is restored (bit 0 cleared) on the path that returns it", p.ret_inst.loc, fn.name)
            # iter->curr cleared when the root is returned
            root_eq = eq_fact(p, tmp, ("ld", paths.mkptr(("arg", 0), CUR), 8, (0, 0)))
            for c, taken, inst in p.conds:
                cc = strip_casts(c)
                if cc[0] == "icmp" and cc[1] in ("eq", "ne") and tmp in (cc[2], cc[3]):
                    o = cc[3] if cc[2] == tmp else cc[2]
                    if o[0] == "ld" and ptr_parts(o[1]) == (("arg", 0), CUR, ()):
                        root_eq = (cc[1] == "eq") == bool(taken)
            if root_eq is None:
                # "no parent yet" flag: a loop-carried pointer that is NULL only on entry (where the node is the head) and is set
                # to the node just left on every descent; in a tree no descendant is the head, so flag == NULL <=> node == head
                for c, taken, inst in p.conds:
                    cc = strip_casts(c)
                    if cc[0] == "icmp" and cc[1] in ("eq", "ne") and ("null",) in (cc[2], cc[3]):
                        o = cc[2] if cc[3] == ("null",) else cc[3]
                        if o[0] == "sym" and depth_zero_flag(fn, o[1]):
                            root_eq = (cc[1] == "eq") == bool(taken)
                    # ... or a depth counter: 0 on entry, +1 on every step to another node
                    if cc[0] == "icmp" and cc[1] in ("eq", "ne") and cc[3][0] == "c" and cc[3][2] == 0 and strip_casts(cc[2])[0] == "sym" and tmp[0] == "sym":
                        bits = depth_counter(fn, strip_casts(cc[2])[1], tmp[1])
                        if bits is not None:
                            root_eq = (cc[1] == "eq") == bool(taken)
                            wide = bits >= m.ptr_size * 8
                            chk.ob("M3.depth-counter", sid, wide,
                                   "the walk recognises the root by a depth counter (0 on entry, +1 on every step down) that is as wide as a "
                                   "pointer: it cannot wrap, because a path of that many distinct nodes does not fit in the address space"
                                   if wide else
                                   "the walk recognises the root by a %d-bit depth counter: a node %d steps below the root wraps it to 0 and "
                                   "is taken for the root - iter->curr is cleared and the rest of the tree is never visited (nor freed by "
                                   "bintree_free)" % (bits, 1 << bits), inst.loc if inst is not None else p.ret_inst.loc, fn.name)
            clr = [e for e in p.events if e.kind == "store" and ptr_parts(e.ptr) == (("arg", 0), CUR, ()) and e.val == ("null",)]
            if root_eq is None and not clr and any(e.kind == "load" and ptr_parts(e.ptr) == (("arg", 0), PAR, ()) for s_, q in ss for e in q.events):
                # the walk resumes from iter->parent (a position cached from the previous call) instead of starting at the head:
                # which node is the root on this path is decided from state this rule does not interpret
                chk.unknown("M3.root-clears-curr", sid, "post_order_iterator reads iter->parent (a walk resumed from the previous call's "
                            "position): whether the node returned here can be the root is not decided", p.ret_inst.loc)
            elif root_eq is True or root_eq is None:
                chk.ob("M3.root-clears-curr", sid, bool(clr),
                       "returning the root clears iter->curr (the iterator must not look at the root again once the caller may have freed "
                       "it)%s" % ("" if root_eq else "; this path returns a node without comparing it with iter->curr"), p.ret_inst.loc, fn.name)
            par = [e for e in p.events if e.kind == "store" and ptr_parts(e.ptr) == (("arg", 0), PAR, ())]
            note = ""
            if not par:
                # the parent may be kept in iter->parent while descending instead of in a local: then every call must start by
                # resetting it (the root's parent is NULL) and every descent must store the node being left
                entries = [q for s_, q in ss if s_ == fn.entry.name]
                reset = bool(entries) and all(any(e.kind == "store" and ptr_parts(e.ptr) == (("arg", 0), PAR, ()) and e.val == ("null",)
                                                  for e in q.events) or q.end == "ret" and strip_casts(q.ret or ("null",)) == ("null",)
                                              for q in entries)
                descents = [q for s_, q in ss if q.end.startswith("cut:") and s_ != fn.entry.name]
                desc_ok = bool(descents) and all(any(e.kind == "store" and ptr_parts(e.ptr) == (("arg", 0), PAR, ()) for e in q.events)
                                                 for q in descents if any(k != v_ for k, v_ in ((k, strip_casts(v_)) for k, v_ in (getattr(q, "carried", None) or {}).items())
                                                                          if v_[0] == "ld" or (v_[0] == "cast")))
                if reset and desc_ok:
                    par = [True]
                    note = " (kept in iter->parent during the descent: reset to NULL at the start of every call, set at every step down)"
            chk.ob("M3.parent-recorded", sid, bool(par), "the node's parent is recorded in iter->parent for bintree_free" + note, p.ret_inst.loc, fn.name)
    chk.expect("M2", "returning segments of post_order_iterator", n_ret, 1)
    chk.expect("M2", "masked navigation reads", n_nav, 1)


def _ev_ptr(e, env):
    """Concrete value of a pointer/integer expression under env (pointer casts are the identity)."""
    if e in env:
        return env[e]
    k = e[0]
    if k == "c":
        return e[2]
    if k == "null":
        return 0
    if k == "p":
        if e[3]:
            raise paths.NoValue(e)
        return (_ev_ptr(e[1], env) + e[2]) & ((1 << 64) - 1)
    if k == "cast":
        v = _ev_ptr(e[4], env)
        if e[1] in ("ptrtoint", "inttoptr", "bitcast"):
            return v
        return paths.eval_concrete(("cast", e[1], e[2], e[3], ("c", e[2], v & ((1 << e[2]) - 1))), {})
    if k == "b":
        a, b = _ev_ptr(e[3], env), _ev_ptr(e[4], env)
        r = paths.fold_bin(e[1], e[2], ("c", e[2], a & ((1 << e[2]) - 1)), ("c", e[2], b & ((1 << e[2]) - 1)))
        if r is None:
            raise paths.NoValue(e)
        return r[2]
    if k == "icmp":
        a, b = _ev_ptr(e[2], env), _ev_ptr(e[3], env)
        return paths.fold_icmp(e[1], ("c", 64, a), ("c", 64, b))[2]
    raise paths.NoValue(e)


def check_which_link(chk, fn, p, sid, node, par, k0, L, R):
    """The link patched after dealloc(n) must be the one that pointed at n.  Pointer values enter the decision only
    through equality and bit 0, so the three situations the post-order walk can deliver n in are exhaustive:
      A  n is the LEFT child:  parent->left == n|1 (still marked), parent->right absent or some other node;
      B  n is the RIGHT child: parent->right == n, and the left link reads exactly 1 - the marked form of 'no left child'
         or of a left child already freed and patched (post-order delivers, and bintree_free patches, the left subtree first).
    A path that is feasible in a situation must leave: A - left == 1 (masked NULL, mark kept so the parent still counts as
    unvisited) and right untouched;  B - right == NULL and left still 1."""
    N, P_, OTHER = 0x1000, 0x3000, 0x2000
    ev = p.events
    scen = (("A: n is the left child, no right sibling", N | 1, 0), ("A: n is the left child, right sibling present", N | 1, OTHER),
            ("B: n is the right child", 1, N))
    for name, lv, rv in scen:
        env = {node: N, par: P_}
        for top in [c for c, t, i in p.conds] + [e.val for e in ev if e.kind == "store" and e.val is not None]:
            for x in paths.subexprs(top):
                if x[0] == "ld" and x[1] is not None:
                    r, o, v = ptr_parts(x[1])
                    if r == par and not v and o in (L, R):
                        env[x] = lv if o == L else rv
        try:
            if not all(bool(_ev_ptr(c, env)) == bool(t) for c, t, i in p.conds if i is None or i.op != "switch"):
                continue
            left, right = lv, rv
            for e in ev[k0:]:
                if e.kind == "store" and ptr_parts(e.ptr)[0] == par and not ptr_parts(e.ptr)[2]:
                    if ptr_parts(e.ptr)[1] == L:
                        left = _ev_ptr(e.val, env)
                    elif ptr_parts(e.ptr)[1] == R:
                        right = _ev_ptr(e.val, env)
        except paths.NoValue as nv:
            chk.unknown("M3.which-link", sid, "the decision which parent link to patch depends on %s, which is not a function of the "
                        "parent's links and the freed node" % fmt(nv.args[0])[:60], ev[k0].inst.loc)
            return
        if name.startswith("A"):
            ok = left == 1 and right == rv
            why = "left must become 1 (marked NULL) and right stay as it was; left=%#x right=%#x" % (left, right)
        else:
            ok = right == 0 and left == 1
            why = "right must become NULL and left stay 1 (marked NULL); left=%#x right=%#x" % (left, right)
        chk.ob("M3.which-link", "%s / %s" % (sid, name), ok,
               "the link that pointed at the freed node is the one cleared" if ok else
               "%s - the link to the freed node survives (or a live link is destroyed), so the iterator's next descent reads freed memory" % why,
               ev[k0].inst.loc, fn.name)


def check_free(chk, m, L, R, CUR, PAR):
    fn, ss = segs(m, "bintree_free")
    chk.note_fn(fn)
    n = 0
    for s, p in ss:
        ev = p.events
        de = [k for k, e in enumerate(ev) if e.kind == "call" and not isinstance(e.callee, str)]
        if not de:
            continue
        n += 1
        sid = "bintree_free %s..%s [%s]" % (s.lstrip("%"), p.end, "->".join(b.lstrip("%") for b in p.blocks[-3:]))
        k0 = de[0]
        node = ev[k0].args[0]
        after = [e for e in ev[k0 + 1:] if e.kind in ("load", "store") and e.ptr is not None and ptr_parts(e.ptr)[0] == node]
        chk.ob("M3.no-use-after-dealloc", sid, not after,
               "nothing is read or written through the node after it has been passed to the deallocator" +
               ("" if not after else " (%s at %s)" % (after[0].kind, after[0].inst.loc)), ev[k0].inst.loc, fn.name)
        nxt = [k for k, e in enumerate(ev) if e.kind == "call" and e.callee == "bintree_next"]
        early = [k for k in nxt if k < k0]
        chk.ob("M3.dealloc-before-advance", sid, not early,
               "the iterator is advanced only after the node has been deallocated and its parent patched%s" %
               ("" if not early else ": here bintree_next runs first, so the later patch re-marks a parent the iterator has already returned "
                "and un-marked - it is returned and deallocated twice"), ev[k0].inst.loc, fn.name)
        par = None
        for e in ev:
            if e.kind == "load" and ptr_parts(e.ptr)[1] == PAR and ptr_parts(e.ptr)[0][0] in ("sym", "alloca"):
                par = e.val
        has_parent = null_fact(p, par) is False if par is not None else None
        if has_parent is None:
            chk.ob("M3.parent-patched", sid, False,
                   "iter.parent is not consulted after dealloc(n): the parent's link to the freed child is never overwritten, so the iterator "
                   "walks into freed memory on its next step", ev[k0].inst.loc, fn.name)
        if has_parent:
            patch = [k for k, e in enumerate(ev) if e.kind == "store" and ptr_parts(e.ptr)[0] == par and ptr_parts(e.ptr)[1] in (L, R)]
            ok = bool(patch) and patch[0] > k0 and (not nxt or patch[0] < max(nxt))
            chk.ob("M3.parent-patched", sid, ok,
                   "the parent's link to the freed child is overwritten (right := NULL, or left := visited marker) before the iterator "
                   "is advanced, so it never descends into freed memory", ev[k0].inst.loc, fn.name)
            check_which_link(chk, fn, p, sid, node, par, k0, L, R)
    chk.expect("M3", "deallocating segments of bintree_free", n, 2)
    for name, off in (("bintree_free_left", L), ("bintree_free_right", R)):
        f = m.fn(name)
        chk.note_fn(f)
        for p in paths.enumerate_paths(f, m):
            calls = [(k, e) for k, e in enumerate(p.events) if e.kind == "call" and e.callee == "bintree_free"]
            child = ("ld", paths.mkptr(("arg", 0), off), 8)
            present = None
            for c, taken, inst in p.conds:
                cc = strip_casts(c)
                if cc[0] == "icmp" and cc[2][0] == "ld" and ptr_parts(cc[2][1]) == (("arg", 0), off, ()) and cc[3] == ("null",):
                    present = (cc[1] == "ne") == bool(taken)
            pid = "%s (%s)" % (name, "child present" if present else "child absent")
            if present:
                clr = [k for k, e in enumerate(p.events) if e.kind == "store" and ptr_parts(e.ptr) == (("arg", 0), off, ()) and e.val == ("null",)]
                ok = len(calls) == 1 and strip_casts(calls[0][1].args[0])[0] == "ld" and ptr_parts(strip_casts(calls[0][1].args[0])[1]) == (("arg", 0), off, ()) \
                    and bool(clr) and clr[0] > calls[0][0]
                chk.ob("M4.free-child", pid, ok, "the subtree is freed and the parent's link is cleared afterwards", f.loc, name)
            else:
                chk.ob("M4.free-child", pid, not calls, "an absent subtree is not freed", f.loc, name)


def check_list_iterators(chk, m, L, R, CUR, PAR):
    """M5: the iterators over list spines.  iter->parent is the top of a left-leaning spine, fixed by bintree_iterate_list:
    the step functions never write it; the left iterator steps from curr to the node whose left child is curr (found by
    walking left links down from that fixed top), ends when curr is the top, and hands out curr->right each time; the right
    iterator hands out curr->left and moves to curr->right while the filter accepts curr."""
    n = 0
    for name in ("list_left_iterator", "list_right_iterator"):
        if not m.has_fn(name):
            chk.unknown("M5.spine-top-fixed", name, "anchor vanished")
            continue
        fn, ss = segs(m, name)
        chk.note_fn(fn)
        wr = [(s, e) for s, p in ss for e in p.events if e.kind == "store" and ptr_parts(e.ptr) == (("arg", 0), PAR, ())]
        chk.ob("M5.spine-top-fixed", name, not wr,
               "the step function never writes iter->parent (the top of the spine every later step starts its walk from)" if not wr else
               "iter->parent is overwritten at %s: the next call starts its walk below the top of the spine and ends the iteration "
               "early" % wr[0][1].inst.loc, (wr[0][1].inst.loc if wr else fn.loc), name)
        cur0 = ("ld", paths.mkptr(("arg", 0), CUR), 8)
        # the old position may reach a later segment as the SSA name of the load made on entry
        cur_names = set(e.inst.name for s_, p_ in ss for e in p_.events
                        if e.kind == "load" and e.ptr == paths.mkptr(("arg", 0), CUR) and e.inst is not None and e.inst.name)

        def is_cur(x):
            x = strip_casts(x)
            return x[:2] == cur0[:2] or (x[0] == "sym" and x[1] in cur_names)
        for s, p in ss:
            if p.end != "ret":
                continue
            n += 1
            sid = "%s %s..ret" % (name, s.lstrip("%"))
            st = [e for e in p.events if e.kind == "store" and ptr_parts(e.ptr) == (("arg", 0), CUR, ())]
            r = strip_casts(p.ret) if p.ret is not None else None
            if name == "list_left_iterator":
                if r == ("null",) or (r is not None and r[0] == "c" and r[2] == 0):
                    continue
                # returns curr->right
                ok_ret = r is not None and r[0] == "ld" and ptr_parts(r[1])[1] == R and is_cur(ptr_parts(r[1])[0])
                chk.ob("M5.left-yield", sid, ok_ret, "each step hands out curr->right (got %s)" % fmt(p.ret)[:50], p.ret_inst.loc, name)
                if len(st) != 1:
                    chk.ob("M5.left-step", sid, False, "iter->curr is stored %d times on a returning segment" % len(st), p.ret_inst.loc, name)
                    continue
                v = st[0].val
                if v == ("null",):
                    top = None
                    for c, taken, inst in p.conds:
                        cc = strip_casts(c)
                        if cc[0] == "icmp" and cc[1] in ("eq", "ne"):
                            x, y = strip_casts(cc[2]), strip_casts(cc[3])
                            par0 = ("ld", paths.mkptr(("arg", 0), PAR))
                            if (is_cur(x) and y[:2] == par0) or (is_cur(y) and x[:2] == par0):
                                top = (cc[1] == "eq") == bool(taken)
                    chk.ob("M5.left-step", sid, top is True, "the iteration ends (curr := NULL) exactly when curr is the top of the spine",
                           st[0].inst.loc, name)
                else:
                    # the new position X satisfies X->left == curr on this segment
                    found = False
                    for c, taken, inst in p.conds:
                        cc = strip_casts(c)
                        if cc[0] == "icmp" and cc[1] in ("eq", "ne") and (cc[1] == "eq") == bool(taken):
                            for a, b in ((cc[2], cc[3]), (cc[3], cc[2])):
                                a, b = strip_casts(a), strip_casts(b)
                                if a[0] == "ld" and ptr_parts(a[1]) == (strip_casts(v), L, ()) and is_cur(b):
                                    found = True
                    chk.ob("M5.left-step", sid, found, "the new position is the node whose left child is the old position",
                           st[0].inst.loc, name)
    chk.expect("M5", "returning segments of the list step functions", n, 3)
    check_right_iterator(chk, m, L, R, CUR, PAR)
    check_list_setup(chk, m, L, R, CUR, PAR)


def check_right_iterator(chk, m, L, R, CUR, PAR):
    """M5.right-step: what is a spine node is the CALLER's decision (the is_list predicate handed to bintree_iterate_list and kept
    in iter->filter): with a current node, the right iterator asks that predicate about it; accepted -> hand out curr->left and
    move to curr->right; rejected -> hand out curr itself (the last element) and end.  M5.right-setup: bintree_iterate_list
    stores the caller's predicate into iter->filter on every path that selects this iterator."""
    tid = m.di_by_name.get("bintree_iterator_t") or m.di_by_name.get("bintree_iterator")
    I = {p_.replace("<anon>.", ""): o for p_, o, s_, t in m.di_leaves(tid)}
    if "filter" not in I or not m.has_fn("list_right_iterator"):
        chk.unknown("M5.right-step", "list_right_iterator", "anchor vanished: iter->filter / list_right_iterator")
        return
    FIL = I["filter"]
    fn = m.fn("list_right_iterator")
    curp = paths.mkptr(("arg", 0), CUR)
    is_filter = lambda x: isinstance(x[1], tuple) and x[1][0] == "*" and strip_casts(x[1][1])[0] == "ld" and strip_casts(x[1][1])[1] == paths.mkptr(("arg", 0), FIL)
    n = 0
    for p in paths.enumerate_paths(fn, m, loop_bound=1):
        if paths.is_assert_fail_path(p) or p.ret is None:
            continue
        pid = "list_right_iterator " + "->".join(b.lstrip("%") for b in p.blocks)
        curs = [e.val for e in p.events if e.kind == "load" and e.ptr == curp]
        cur = curs[0] if curs else None
        r = strip_casts(p.ret)
        st = [e for e in p.events if e.kind == "store" and e.ptr == curp]
        if cur is None or null_fact(p, cur) is True:
            continue        # at the end already
        n += 1
        truth = call_truth(p, is_filter)
        asked = [(c, t) for c, t in truth.items() if c[2] and strip_casts(c[2][0])[:2] == cur[:2]]
        if not asked:
            chk.ob("M5.right-step", pid, False,
                   "with a current node the step is decided by something other than the caller's predicate iter->filter(curr): a node "
                   "the caller does not regard as part of the spine is descended into (its children are handed out as list elements), or "
                   "a spine node is handed out as an element", p.ret_inst.loc, fn.name)
            continue
        if asked[0][1]:
            def at(x, off):
                x = strip_casts(x)
                if x[0] != "ld":
                    return False
                root, o, var = ptr_parts(x[1])
                return root[:2] == cur[:2] and o == off and not var
            ok = at(r, L) and len(st) == 1 and at(st[0].val, R)
            chk.ob("M5.right-step", pid, ok, "spine node: hands out curr->left and moves to curr->right", p.ret_inst.loc, fn.name)
        else:
            ok = r[:2] == cur[:2] and len(st) == 1 and st[0].val == ("null",)
            chk.ob("M5.right-step", pid, ok, "not a spine node: it is the last element, handed out itself, and the iteration ends", p.ret_inst.loc, fn.name)
    chk.expect("M5", "steps of the right iterator from a current node", n, 2)
    fs = m.fn("bintree_iterate_list")
    for p in paths.enumerate_paths(fs, m, loop_bound=1):
        if paths.is_assert_fail_path(p):
            continue
        if not any(e.kind == "store" and e.val == ("fn", "list_right_iterator") for e in p.events):
            continue
        ok = any(e.kind == "store" and e.ptr == paths.mkptr(("arg", 0), FIL) and strip_casts(e.val) == ("arg", 2) for e in p.events)
        chk.ob("M5.right-setup", "bintree_iterate_list " + "->".join(b.lstrip("%") for b in p.blocks)[:100], ok,
               "the caller's predicate is stored in iter->filter before the right iterator is selected", p.ret_inst.loc, fs.name)


def call_truth(p, is_call):
    """{call-result expr: True/False} for the calls selected by is_call whose outcome the path's conditions decide."""
    out = {}
    for c, taken, inst in p.conds:
        atoms = [x for x in paths.subexprs(c) if x[0] == "call" and is_call(x)]
        if len(atoms) != 1:
            continue
        try:
            t1 = bool(_ev_ptr(c, {atoms[0]: 1})) == bool(taken)
            t0 = bool(_ev_ptr(c, {atoms[0]: 0})) == bool(taken)
        except paths.NoValue:
            continue
        if t1 != t0:
            out[atoms[0]] = t1
    return out


def check_list_setup(chk, m, L, R, CUR, PAR):
    """M5.left-setup: bintree_iterate_list may hand the iteration to the left-leaning walker only on a spine it has
    verified.  The set-up descends left links and treats every node it steps onto as a spine (list) node - it reads that
    node's left child and finally yields it as the first element.  Loop invariant checked on every arrival at the
    descent loop (from the entry and round the loop): is_list(T->left) has just answered true for the node T the next
    iteration starts from; the step goes to exactly T->left; on leaving, that node becomes iter->curr and its left child
    is returned; iter->parent is the root."""
    name = "bintree_iterate_list"
    fn, ss = segs(m, name)
    chk.note_fn(fn)
    filt = lambda x: x[1] == ("*", ("arg", 2))
    sel = [(s, p) for s, p in ss if any(e.kind == "store" and e.val == ("fn", "list_left_iterator") for e in p.events)]
    if not sel:
        chk.unknown("M5.left-setup", name, "no path selects list_left_iterator (anchor vanished)", fn.loc)
        return
    heads = set(p.end[4:] for s, p in sel if p.end.startswith("cut:"))
    if len(heads) != 1 or any(not p.end.startswith("cut:") for s, p in sel):
        chk.unknown("M5.left-setup", name, "the left-leaning set-up is not a single descent loop entered from the selecting path", fn.loc)
        return
    H = heads.pop()
    arrivals = [(s, p) for s, p in ss if p.end == "cut:" + H]
    tnames = [k for s, p in sel for k, v in (p.carried or {}).items() if v == ("arg", 1)]
    if len(set(tnames)) != 1:
        chk.unknown("M5.left-setup", name, "cannot identify the descent variable at %s" % H, fn.loc)
        return
    tn = tnames[0]
    n = 0
    for s, p in arrivals:
        T = p.carried.get(tn)
        sid = "%s %s..%s" % (name, s.lstrip("%"), p.end)
        truth = call_truth(p, filt)
        want = strip_casts(("ld", paths.mkptr(T, L)))[:2] if T is not None else None
        ok = T is not None and any(v is True and len(c[2]) == 1 and strip_casts(c[2][0])[:2] == want for c, v in truth.items())
        n += 1
        chk.ob("M5.left-setup", sid + " spine verified", ok,
               "is_list(T->left) answered true for the node T the descent continues from: the node stepped onto next is a list node" if ok else
               "the descent loop is reached without is_list(T->left) having answered true for T = %s: the set-up steps onto a node that "
               "need not be a list node (a two-element list L(a, b) sends it onto the element a) and yields that node's child" % fmt(T)[:40],
               p.ret_inst.loc if p.ret_inst is not None else fn.loc, name)
        if s == fn.entry.name:
            root = any(v is True and len(c[2]) == 1 and c[2][0] == ("arg", 1) for c, v in truth.items())
            par = [e for e in p.events if e.kind == "store" and ptr_parts(e.ptr) == (("arg", 0), PAR, ())]
            chk.ob("M5.left-setup", sid + " top", root and len(par) == 1 and par[0].val == ("arg", 1),
                   "the root is a list node and is recorded as iter->parent (the fixed top of the spine)", fn.loc, name)
        else:
            Tin = ("sym", tn)
            chk.ob("M5.left-setup", sid + " step", T is not None and strip_casts(T)[:2] == ("ld", paths.mkptr(Tin, L)),
                   "each round steps to exactly T->left", fn.loc, name)
    for s, p in ss:
        if s == H and p.end == "ret":
            n += 1
            Tin = ("sym", tn)
            st = [e for e in p.events if e.kind == "store" and ptr_parts(e.ptr) == (("arg", 0), CUR, ())]
            cur = strip_casts(st[-1].val) if st else None
            r = strip_casts(p.ret) if p.ret is not None else None
            ok = cur is not None and cur[:2] == ("ld", paths.mkptr(Tin, L)) and r is not None and r[0] == "ld" and ptr_parts(r[1]) == (cur, L, ())
            chk.ob("M5.left-setup", "%s %s..ret" % (name, s.lstrip("%")), ok,
                   "on leaving the descent iter->curr is the verified spine node T->left and its left child is the first element",
                   p.ret_inst.loc, name)
    chk.expect("M5", "arrivals/exits of the left-leaning set-up", n, 3)


def eq_fact2(p, a, b):
    """a == b known on the path (loads compared by address, ignoring memory epochs)"""
    for c, taken, inst in p.conds:
        cc = strip_casts(c)
        if cc[0] == "icmp" and cc[1] in ("eq", "ne"):
            x, y = strip_casts(cc[2]), strip_casts(cc[3])
            if {x[:2], y[:2]} == {a[:2], b[:2]}:
                return (cc[1] == "eq") == bool(taken)
    return None


def check_end_state(chk, m, name, CUR):
    """M1.end-clears-curr: when a Morris step function reports the end (returns NULL) the iterator's position is NULL, so that
    a further call reports the end again instead of restarting somewhere in the tree (re-threading links the walk had restored).
    On a NULL-returning segment: iter->curr := NULL is stored, or the position tested NULL is iter->curr itself - on every way of
    arriving at that test the value carried as the current node is what iter->curr holds (loaded from it and not stored since, or
    the value last stored to it), or is known not to be NULL (then this arrival does not end the walk)."""
    fn, ss = segs(m, name)
    curp = paths.mkptr(("arg", 0), CUR)
    n = 0
    for s, p in ss:
        if p.end != "ret" or p.ret is None or strip_casts(p.ret) != ("null",) and not (strip_casts(p.ret)[0] == "sym" and null_fact(p, strip_casts(p.ret)) is True):
            continue
        n += 1
        sid = "%s %s..ret NULL" % (name, s.lstrip("%"))
        st = [e for e in p.events if e.kind == "store" and e.ptr == curp]
        if st:
            chk.ob("M1.end-clears-curr", sid, st[-1].val == ("null",) or null_fact(p, strip_casts(st[-1].val)) is True,
                   "the end is reported with iter->curr := NULL", p.ret_inst.loc, name)
            continue
        # which carried value was tested NULL?
        tested = [x for c, t, i in p.conds for x in (strip_casts(strip_casts(c)[2]), strip_casts(strip_casts(c)[3]))
                  if strip_casts(c)[0] == "icmp" and x[0] in ("sym", "ld") and null_fact(p, x) is True]
        if s == fn.entry.name:
            ok = any(x[0] == "ld" and x[1] == curp for x in tested)
            chk.ob("M1.end-clears-curr", sid, ok, "the end is reported because iter->curr is NULL already", p.ret_inst.loc, name)
            continue
        bad = None
        syms = [x for x in tested if x[0] == "sym"]
        for s2, q in ss:
            if q.end != "cut:" + s or not getattr(q, "carried", None):
                continue
            for sy in syms:
                v = q.carried.get(sy[1])
                if v is None:
                    continue
                v = strip_casts(v)
                if null_fact(q, v) is False:
                    continue            # this arrival carries a node, it does not end the walk
                if v[0] == "ld" and ptr_parts(v[1])[0] == sy and not ptr_parts(v[1])[2]:
                    # the same member of the same current node was found non-NULL by every way out of this loop head that goes
                    # on (the test is made before the inner loop is entered), and no store in the function can change that member
                    off_ = ptr_parts(v[1])[1]
                    onward = [q2 for s3, q2 in ss if s3 == s and q2.end.startswith("cut:") and q2.end != "cut:" + s]
                    stores_off = [e for s3, q2 in ss for e in q2.events if e.kind == "store" and not ptr_parts(e.ptr)[2] and
                                  ptr_parts(e.ptr)[1] == off_ and ptr_parts(e.ptr)[0] != ("arg", 0)]
                    if onward and not stores_off and all(null_fact(q2, v) is False for q2 in onward):
                        continue
                qst = [e for e in q.events if e.kind == "store" and e.ptr == curp]
                if qst:
                    same = strip_casts(qst[-1].val) == v
                else:
                    same = (v[0] == "ld" and v[1] == curp) or (v[0] == "sym" and s2 == s and v == sy and False)
                    if not same and s2 != fn.entry.name:
                        # nothing stored on this way round: iter->curr is what it was at the previous arrival; the carried node changed
                        same = False
                if not same:
                    bad = "arriving from %s the current node is %s while iter->curr was last set to %s" % (
                        s2.lstrip("%"), fmt(v)[:40], fmt(qst[-1].val)[:40] if qst else "an earlier position")
        chk.ob("M1.end-clears-curr", sid, bad is None,
               "the end is reported only when the position that ran out is iter->curr itself (or iter->curr := NULL is stored)" if bad is None else
               "NULL is returned without clearing iter->curr and %s: the next call does not report the end again but resumes there, "
               "handing nodes out a second time and threading links the completed walk had restored" % bad, p.ret_inst.loc, name)
    return n


def check_sibling_state(chk, m):
    """M6: bintree_iterate_post_order hands out its first node either by calling post_order_iterator, or - on a short cut of its
    own - after writing every iterator member that post_order_iterator writes whenever IT hands out a node (bintree_free reads
    iter.parent after each step; a short cut that leaves a member stale gives the caller the previous walk's value)."""
    if not (m.has_fn("post_order_iterator") and m.has_fn("bintree_iterate_post_order")):
        chk.unknown("M6.sibling-state", "bintree_iterate_post_order", "anchor vanished")
        return
    step = m.functions["post_order_iterator"]
    must = None
    for p in paths.enumerate_paths(step, m, loop_bound=1):
        if paths.is_assert_fail_path(p) or p.ret is None or p.ret == ("null",):
            continue
        w = set(ptr_parts(e.ptr)[1] for e in p.events if e.kind == "store" and ptr_parts(e.ptr)[0] == ("arg", 0) and not ptr_parts(e.ptr)[2])
        must = w if must is None else (must & w)
    if not must:
        chk.unknown("M6.sibling-state", "post_order_iterator", "no iterator member is written on every node-returning path")
        return
    fn = m.functions["bintree_iterate_post_order"]
    chk.note_fn(fn)
    n = 0
    for p in paths.enumerate_paths(fn, m, loop_bound=1):
        if paths.is_assert_fail_path(p) or p.ret is None:
            continue
        r = strip_casts(p.ret)
        pid = "bintree_iterate_post_order " + "->".join(b.lstrip("%") for b in p.blocks)[:120]
        n += 1
        if r == ("null",) or (r[0] == "call" and r[1] == "post_order_iterator"):
            chk.ob("M6.sibling-state", pid, True, "first node comes from post_order_iterator (or there is none)", p.ret_inst.loc, fn.name)
            continue
        w = set(ptr_parts(e.ptr)[1] for e in p.events if e.kind == "store" and ptr_parts(e.ptr)[0] == ("arg", 0) and not ptr_parts(e.ptr)[2])
        missing = sorted(must - w)
        chk.ob("M6.sibling-state", pid, not missing,
               "a node handed out without post_order_iterator leaves the iterator as post_order_iterator would" if not missing else
               "this path hands out a node (%s) without calling post_order_iterator and without writing iterator member(s) at offset %s, "
               "which post_order_iterator writes whenever it hands out a node: the caller (bintree_free patches iter.parent's link) "
               "reads a stale value" % (fmt(p.ret)[:30], ", ".join("+%d" % o for o in missing)), p.ret_inst.loc, fn.name)
    chk.expect("M6", "paths of bintree_iterate_post_order", n, 1)


def run(chk):
    chk.explanation = (
        "bintree.c (not built by the suite) is compiled and analysed on loop-free segments of its IR: the thread/un-thread "
        "pairing and return moment of the two Morris iterators, the tag/untag pairing and exact mask of the post-order "
        "iterator, and the dealloc / patch / advance discipline of bintree_free and its left/right variants. These are "
        "necessary conditions with concrete failing shapes when broken. Visiting order and full link restoration for EVERY "
        "tree shape are heap-shape properties and are NOT decided.")
    chk.rule("M1", "in/pre-order: prev->right := curr only where it was NULL; := NULL wherever it is found to be curr; node returned at un-thread/no-left (in-order) or thread/no-left (pre-order) with the walk continuing at the documented child")
    chk.rule("M2", "post-order: marking sets bit 0 of left; every masked read and the restore use exactly ~1; the restore precedes returning the node")
    chk.rule("M3", "bintree_free: no access through n after dealloc(n); parent link patched after dealloc and before the iterator advances; the iterator records the parent and clears curr when returning the root")
    chk.rule("M4", "bintree_free_left/right: free only a present child, then clear the link")
    chk.rule("M5", "list iterators: iter->parent (top of the spine) is never written by a step; the left iterator yields curr->right, moves to the node whose left child is curr, and ends exactly at the top")
    chk.assumptions += ["nodes are at least 2-byte aligned (bit 0 of a link is free)",
                        "visiting order and restoration of every link for every tree shape are NOT decided (heap shape); "
                        "the list iterators are decided only as the M5 clauses"]
    chk.not_decided += ["iterators return each node once in traversal order for every shape", "all links restored after complete iteration",
                        "list iterator equals recursive list traversal"]
    m = build.load_unit(UNIT)
    chk.note_unit(m)
    L, R, CUR, PAR = layout(m)
    check_morris(chk, m, "in_order_iterator", "in", L, R, CUR)
    check_morris(chk, m, "pre_order_iterator", "pre", L, R, CUR)
    chk.rule("M1.end", "a step function that reports the end leaves iter->curr NULL (stored, or the position that ran out is iter->curr itself)")
    check_end_state(chk, m, "in_order_iterator", CUR)
    check_end_state(chk, m, "pre_order_iterator", CUR)
    check_post_order(chk, m, L, R, CUR, PAR)
    check_free(chk, m, L, R, CUR, PAR)
    check_list_iterators(chk, m, L, R, CUR, PAR)
    chk.rule("M6", "bintree_iterate_post_order: a node handed out without post_order_iterator leaves every iterator member that post_order_iterator writes on such a return written")
    check_sibling_state(chk, m)
