"""Argument hygiene of the public static-initialiser macros: a macro argument is an EXPRESSION, so the macro has to use it
as a unit.  `(uint8_t *) p` with p = `words + 2` casts first and adds afterwards; `base_len / msg_len` with a conditional
expression as argument regroups.  Decided on a witness that instantiates the macro with compound arguments (pointer
arithmetic on a wider element type, conditional expressions): the initialised fields, read from the witness's IR and
evaluated for every outcome of the conditions, must equal the fields computed from the parenthesised arguments."""
from .. import build, paths
from ..ir import AnalysisError
from ..paths import fmt, ptr_parts, strip_casts

W_BASE = 0x100000


def _ev(e, env):
    if e in env:
        return env[e]
    k = e[0]
    if k == "c":
        return e[2]
    if k == "null":
        return 0
    if k == "g":
        raise paths.NoValue(e)
    if k == "p":
        if e[3]:
            tot = 0
            for idx, scale in e[3]:
                tot += _ev(idx, env) * scale
            return (_ev(e[1], env) + e[2] + tot) & ((1 << 64) - 1)
        return (_ev(e[1], env) + e[2]) & ((1 << 64) - 1)
    if k == "cast":
        v = _ev(e[4], env)
        if e[1] in ("ptrtoint", "inttoptr", "bitcast"):
            return v
        return paths.eval_concrete(("cast", e[1], e[2], e[3], ("c", e[2], v & ((1 << e[2]) - 1))), {})
    if k == "b":
        a, b = _ev(e[3], env), _ev(e[4], env)
        r = paths.fold_bin(e[1], e[2], ("c", e[2], a & ((1 << e[2]) - 1)), ("c", e[2], b & ((1 << e[2]) - 1)))
        if r is None:
            raise paths.NoValue(e)
        return r[2]
    if k == "icmp":
        bits = paths.expr_bits(e[2]) or paths.expr_bits(e[3]) or 64
        a, b = _ev(e[2], env), _ev(e[3], env)
        return paths.fold_icmp(e[1], ("c", bits, a & ((1 << bits) - 1)), ("c", bits, b & ((1 << bits) - 1)))[2]
    if k == "sel":
        return _ev(e[2] if _ev(e[1], env) else e[3], env)
    raise paths.NoValue(e)


def check(chk, rule, name, header, struct, invocation, n_args, expected, cfg="default"):
    """invocation: C text of the macro call using int parameters a0..a{n-1} and the uint32_t array W.
    expected: function (tuple of argument values) -> {field name: value} with pointers as W_BASE + byte offset."""
    params = ", ".join("int a%d" % i for i in range(n_args))
    src = ("#include <%s>\nstatic uint32_t W[64];\nvoid w_sink(%s *p);\nvoid w_hyg(%s) { %s v = %s; w_sink(&v); }\n"
           % (header, struct, params, struct, invocation))
    try:
        m = build.compile_text("hyg_%s.c" % name, src, cfg, inline_except=())
    except AnalysisError as e:
        chk.unknown(rule, name, "the hygiene witness does not compile: %s" % str(e)[-300:])
        return
    chk.note_unit(m)
    fn = m.fn("w_hyg")
    tid = m.di_by_name.get(struct)
    if not tid:
        chk.unknown(rule, name, "anchor vanished: %s" % struct)
        return
    leaves = m.di_leaves(tid)
    ps = paths.enumerate_paths(fn, m)
    n = 0
    for combo in range(1 << n_args):
        vals = tuple((combo >> i) & 1 for i in range(n_args))
        env = {("arg", i): vals[i] for i in range(n_args)}
        env[("g", "W")] = W_BASE
        sel = []
        for p in ps:
            try:
                if all(bool(_ev(c, env)) == bool(t) for c, t, i in p.conds):
                    sel.append(p)
            except paths.NoValue:
                pass
        if len(sel) != 1:
            chk.unknown(rule, "%s args=%s" % (name, vals), "%d witness paths for this outcome of the conditions" % len(sel))
            continue
        p = sel[0]
        got = {}
        cleared = 0
        for e in p.events:
            if e.kind == "memset" and ptr_parts(e.ptr)[0][0] == "alloca" and e.val[0] == "c" and e.val[2] == 0 and e.size:
                cleared = max(cleared, ptr_parts(e.ptr)[1] + e.size)
            if e.kind == "store" and ptr_parts(e.ptr)[0][0] == "alloca":
                got[ptr_parts(e.ptr)[1]] = e.val
            if e.kind == "memcpy" and ptr_parts(e.ptr)[0][0] == "alloca":
                got[("memcpy", ptr_parts(e.ptr)[1])] = e.val
        want = expected(vals)
        for path, off, size, ty in leaves:
            if path not in want:
                continue
            n += 1
            try:
                if off in got:
                    v = _ev(got[off], env) & ((1 << (8 * size)) - 1)
                elif off + size <= cleared:
                    v = 0
                else:
                    v = None
            except paths.NoValue as nv:
                chk.unknown(rule, "%s.%s args=%s" % (name, path, vals), "field value %s is not a function of the witness arguments" % fmt(nv.args[0])[:50])
                continue
            w = want[path] & ((1 << (8 * size)) - 1)
            chk.ob(rule, "%s .%s with %s" % (name, path, invocation), v == w,
                   "every argument is used as one expression: the field equals the value computed from the parenthesised arguments for "
                   "every outcome of the conditions" if v == w else
                   "with conditions %s the field is %s but the parenthesised arguments give %#x: the macro does not use its argument as a unit "
                   "(a cast or an operator in the macro binds tighter than the operators in the caller's expression)"
                   % (vals, "%#x" % v if v is not None else "not initialised", w), "include/" + header, name)
    chk.expect(rule.split(".")[0], "fields compared by the macro-hygiene witness of %s" % name, n, 2)



def canonical_ir(fn):
    """A name-independent rendering of a function's IR: per block (in layout order) the instructions with their opcode, type,
    callee / predicate, and operands as constants or back-references (block-relative numbering of the values defined so far)."""
    num = {}
    out = []
    for b in fn.order:
        num[b.name] = "B%d" % len([k for k in num if k.startswith("%") or True if isinstance(num.get(k), str) and num[k].startswith("B")])
    for b in fn.order:
        rows = []
        for i in b.insts:
            if i.is_dbg():
                continue
            if i.name:
                num["v:" + i.name] = "V%d" % len([k for k in num if k.startswith("v:")])

            def ref(o):
                if o.is_const_int():
                    return "c%s" % o.sval
                if o.is_null():
                    return "null"
                if o.k == "inst":
                    return num.get("v:" + o.name, "fwd")
                if o.k == "arg":
                    return "a:" + str(o.name)
                if o.k in ("global", "func"):
                    return "@" + str(o.name)
                return o.k
            row = [i.op, i.ty, i.callee or "", i.pred or "", i.get("nsw") and "nsw" or "", i.get("rmwop") or "", str(i.get("ordering") or "")]
            row += [ref(o) for o in list(i.ops) + list(i.args)]
            row += ["%s<-%s" % (ref(v), num.get(bb if isinstance(bb, str) else bb.name, "?")) for v, bb in i.incoming]
            if i.succs:
                row += [num.get(sx if isinstance(sx, str) else sx.name, "?") for sx in i.succs]
            if i.op == "switch":
                row += ["case%s" % cv for cv, bb in i["cases"]]
            rows.append("|".join(row))
        out.append(num[b.name] + ":" + ";".join(rows))
    return "\n".join(out)


def check_parenthesised_equivalence(chk, rule, header, prelude, cases, cfg="default"):
    """Macro argument hygiene, decided semantically: for each (label, text with the placeholder ARG, low-precedence argument E) the
    translation unit using the macro with E and the one using it with (E) must compile to the same IR (same blocks, instructions,
    constants, callees and control flow; value names and debug information excluded).  If they differ, the macro regroups or
    re-evaluates its argument."""
    for label, body, arg in cases:
        ir = []
        for k, a in enumerate((arg, "(" + arg + ")")):
            src = "#include <%s>\n%s\n%s\n" % (header, prelude, body.replace("ARG", a))
            try:
                m = build.compile_text("hygp_%s_%d.c" % ("".join(ch if ch.isalnum() else "_" for ch in label), k), src, cfg, inline_except=())
            except AnalysisError as e:
                chk.unknown(rule, label, "the hygiene witness does not compile: %s" % str(e)[-200:])
                ir = None
                break
            fns = [f for f in m.defined_functions() if f.name.startswith("w_")]
            ir.append("\n--\n".join(f.name + "\n" + canonical_ir(f) for f in sorted(fns, key=lambda f: f.name)))
        if ir is None:
            continue
        chk.ob(rule, label, ir[0] == ir[1],
               "the macro applied to `%s` and to `(%s)` compiles to the same code" % (arg, arg) if ir[0] == ir[1] else
               "the macro applied to `%s` does not mean what it means applied to `(%s)`: the argument is regrouped by an operator in the "
               "expansion (or evaluated a different number of times)" % (arg, arg), "", "")



def check_single_evaluation(chk, rule, header, cases, cfg="default", prelude=""):
    """Each API name is used as a caller writes it, with an argument that has a side effect (a call through a function pointer):
    in the compiled witness there must be exactly one such call, outside every cycle, in a block that dominates every return -
    a function evaluates its arguments once by construction, a macro that mentions its parameter twice does not.
    cases: [(label, C text of a function named w_... that takes `T (*next)(void)` and uses next() as the argument)]"""
    for label, text in cases:
        src = "#include <assert.h>\n#include <stddef.h>\n#include <stdbool.h>\n#include <stdint.h>\n#include <%s>\n%s\n%s\n" % (header, prelude, text)
        try:
            m = build.compile_text("once_%s.c" % "".join(ch if ch.isalnum() else "_" for ch in label), src, cfg, inline_except=())
        except AnalysisError as e:
            chk.unknown(rule, label, "the witness does not compile: %s" % str(e)[-200:])
            continue
        for fn in [f for f in m.defined_functions() if f.name.startswith("w_")]:
            ind = [i for i in fn.real_insts() if i.op == "call" and i.callee is None]
            rets = fn.rets()
            once = len(ind) == 1 and not fn.in_cycle(ind[0]) and all(fn.block_dominates(ind[0].block, r.block) for r in rets)
            chk.ob(rule, label, once,
                   "the argument expression is evaluated exactly once" if once else
                   "the argument expression is evaluated %d time(s)%s: with an argument that has a side effect (taking a node off another "
                   "list, reading a port, popping a FIFO) the value tested is not the value used" %
                   (len(ind), " or conditionally" if len(ind) == 1 else ""), fn.loc, fn.name)
