"""Argument hygiene of the public static-initialiser macros: a macro argument is an EXPRESSION, so the macro has to use it
as a unit.  `(uint8_t *) p` with p = `words + 2` casts first and adds afterwards; `base_len / msg_len` with a conditional
expression as argument regroups.  Decided on a witness that instantiates the macro with compound arguments (pointer
arithmetic on a wider element type, conditional expressions): the initialised fields, read from the witness's IR and
evaluated for every outcome of the conditions, must equal the fields computed from the parenthesised arguments."""
from .. import build, paths
from ..ir import AnalysisError
from ..paths import fmt, ptr_parts, strip_casts

W_BASE = 0x100000


def _ev(e, env):
    if e in env:
        return env[e]
    k = e[0]
    if k == "c":
        return e[2]
    if k == "null":
        return 0
    if k == "g":
        raise paths.NoValue(e)
    if k == "p":
        if e[3]:
            tot = 0
            for idx, scale in e[3]:
                tot += _ev(idx, env) * scale
            return (_ev(e[1], env) + e[2] + tot) & ((1 << 64) - 1)
        return (_ev(e[1], env) + e[2]) & ((1 << 64) - 1)
    if k == "cast":
        v = _ev(e[4], env)
        if e[1] in ("ptrtoint", "inttoptr", "bitcast"):
            return v
        return paths.eval_concrete(("cast", e[1], e[2], e[3], ("c", e[2], v & ((1 << e[2]) - 1))), {})
    if k == "b":
        a, b = _ev(e[3], env), _ev(e[4], env)
        r = paths.fold_bin(e[1], e[2], ("c", e[2], a & ((1 << e[2]) - 1)), ("c", e[2], b & ((1 << e[2]) - 1)))
        if r is None:
            raise paths.NoValue(e)
        return r[2]
    if k == "icmp":
        bits = paths.expr_bits(e[2]) or paths.expr_bits(e[3]) or 64
        a, b = _ev(e[2], env), _ev(e[3], env)
        return paths.fold_icmp(e[1], ("c", bits, a & ((1 << bits) - 1)), ("c", bits, b & ((1 << bits) - 1)))[2]
    if k == "sel":
        return _ev(e[2] if _ev(e[1], env) else e[3], env)
    raise paths.NoValue(e)


def check(chk, rule, name, header, struct, invocation, n_args, expected, cfg="default"):
    """invocation: C text of the macro call using int parameters a0..a{n-1} and the uint32_t array W.
    expected: function (tuple of argument values) -> {field name: value} with pointers as W_BASE + byte offset."""
    params = ", ".join("int a%d" % i for i in range(n_args))
    src = ("#include <%s>\nstatic uint32_t W[64];\nvoid w_sink(%s *p);\nvoid w_hyg(%s) { %s v = %s; w_sink(&v); }\n"
           % (header, struct, params, struct, invocation))
    try:
        m = build.compile_text("hyg_%s.c" % name, src, cfg, inline_except=())
    except AnalysisError as e:
        chk.unknown(rule, name, "the hygiene witness does not compile: %s" % str(e)[-300:])
        return
    chk.note_unit(m)
    fn = m.fn("w_hyg")
    tid = m.di_by_name.get(struct)
    if not tid:
        chk.unknown(rule, name, "anchor vanished: %s" % struct)
        return
    leaves = m.di_leaves(tid)
    ps = paths.enumerate_paths(fn, m)
    n = 0
    for combo in range(1 << n_args):
        vals = tuple((combo >> i) & 1 for i in range(n_args))
        env = {("arg", i): vals[i] for i in range(n_args)}
        env[("g", "W")] = W_BASE
        sel = []
        for p in ps:
            try:
                if all(bool(_ev(c, env)) == bool(t) for c, t, i in p.conds):
                    sel.append(p)
            except paths.NoValue:
                pass
        if len(sel) != 1:
            chk.unknown(rule, "%s args=%s" % (name, vals), "%d witness paths for this outcome of the conditions" % len(sel))
            continue
        p = sel[0]
        got = {}
        cleared = 0
        for e in p.events:
            if e.kind == "memset" and ptr_parts(e.ptr)[0][0] == "alloca" and e.val[0] == "c" and e.val[2] == 0 and e.size:
                cleared = max(cleared, ptr_parts(e.ptr)[1] + e.size)
            if e.kind == "store" and ptr_parts(e.ptr)[0][0] == "alloca":
                got[ptr_parts(e.ptr)[1]] = e.val
            if e.kind == "memcpy" and ptr_parts(e.ptr)[0][0] == "alloca":
                got[("memcpy", ptr_parts(e.ptr)[1])] = e.val
        want = expected(vals)
        for path, off, size, ty in leaves:
            if path not in want:
                continue
            n += 1
            try:
                if off in got:
                    v = _ev(got[off], env) & ((1 << (8 * size)) - 1)
                elif off + size <= cleared:
                    v = 0
                else:
                    v = None
            except paths.NoValue as nv:
                chk.unknown(rule, "%s.%s args=%s" % (name, path, vals), "field value %s is not a function of the witness arguments" % fmt(nv.args[0])[:50])
                continue
            w = want[path] & ((1 << (8 * size)) - 1)
            chk.ob(rule, "%s .%s with %s" % (name, path, invocation), v == w,
                   "every argument is used as one expression: the field equals the value computed from the parenthesised arguments for "
                   "every outcome of the conditions" if v == w else
                   "with conditions %s the field is %s but the parenthesised arguments give %#x: the macro does not use its argument as a unit "
                   "(a cast or an operator in the macro binds tighter than the operators in the caller's expression)"
                   % (vals, "%#x" % v if v is not None else "not initialised", w), "include/" + header, name)
    chk.expect(rule.split(".")[0], "fields compared by the macro-hygiene witness of %s" % name, n, 2)
