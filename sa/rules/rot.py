"""rotenc_decode as an exact transition function in the BDD bit-vector domain (used by C19)."""
import re

from .. import paths
from ..ir import AnalysisError
from ..paths import fmt, ptr_parts

CW = {(0, 1), (1, 3), (3, 2), (2, 0)}
CCW = {(b, a) for a, b in CW}


const_table = paths.const_table


from .purity import check_no_static_influence


_stat_cache = {}


def statistic_members(m, F):
    """pointers (arg0 + offset) of members of rotenc_t that nothing but themselves depends on (a diagnostic counter): stores to
    them cannot change what the decoder does"""
    key = id(m)
    if key not in _stat_cache:
        from .purity import write_only_member
        _stat_cache[key] = set(paths.mkptr(("arg", 0), off) for name, (off, size) in F.items()
                               if name not in ("last_state", "internal_count", "count") and
                               write_only_member(m, ("rotenc_t", "rotenc"), name))
    return _stat_cache[key]



def check_instance_state(chk, m, fn):
    """Q6: everything rotenc_decode remembers between calls lives in the rotenc_t it is given."""
    check_no_static_influence(chk, "Q6.per-instance-state", m, fn,
                              "that object is shared by all rotenc_t instances, so the decoding of one encoder depends on the calls made for another")


def check_decode(chk, m, fn, F):
    check_instance_state(chk, m, fn)
    """rotenc_decode as a function (last_state, state, internal_count, count) -> (last_state', internal_count', count'),
    built exactly from all its paths, and compared with the specification for ALL field values: 2-bit last_state and
    state, all 2^16 counters, all 2^8 latched counts."""
    from ..domains.bdd import BDD, BV
    from ..domains.bvexec import expr_bv, Top
    B = BDD()
    bv = BV(B)
    wl, wi, wc = F["last_state"][1] * 8, F["internal_count"][1] * 8, F["count"][1] * 8
    last = bv.inputs(0, wl)
    state = bv.inputs(8, 8)
    ic = bv.inputs(16, wi)
    cnt = bv.inputs(48, wc)

    def fptr(name):
        return paths.mkptr(("arg", 0), F[name][0])
    oob = [0]
    cur_pc = [1]

    def atom(e):
        if e[0] == "ld":
            if e[1] == fptr("last_state"):
                return last
            if e[1] == fptr("internal_count"):
                return ic
            if e[1] == fptr("count"):
                return cnt
            root, off, var = ptr_parts(e[1])
            if root[0] == "g" and len(var) == 1:
                t = const_table(m, root[1])
                if t is None:
                    raise Top("load from %s, which is not a constant integer table" % root[1])
                vals, w = t
                if var[0][1] * 8 != w or off % var[0][1]:
                    raise Top("table %s indexed with a stride other than its element size" % root[1])
                idx = expr_bv(var[0][0], bv, atom)
                idx = bv.add(idx, bv.const(off // var[0][1], len(idx)))
                res = bv.const(0, w)
                inside = 0
                for k, v in enumerate(vals):
                    hit = bv.eq(idx, bv.const(k, len(idx)))
                    inside = B.OR(inside, hit)
                    res = bv.mux(hit, bv.const(v, w), res)
                oob[0] = B.OR(oob[0], B.AND(cur_pc[0], B.NOT(inside)))
                return res
        if e == ("arg", 1):
            return state
        return None
    dom = B.AND(bv.ult(last, bv.const(4, wl)), bv.ult(state, bv.const(4, 8)))
    out = {"last_state": last, "internal_count": ic, "count": cnt}
    covered = 0
    n_paths = 0
    try:
        for p in paths.enumerate_paths(fn, m):
            if paths.is_assert_fail_path(p):
                continue
            pc = dom
            for c, taken, inst in p.conds:
                cur_pc[0] = pc
                if inst is not None and inst.op == "switch":
                    x = expr_bv(c, bv, atom)
                    if taken == "default":
                        bit = 1
                        for cv, blk in inst["cases"]:
                            bit = B.AND(bit, B.NOT(bv.eq(x, bv.const(cv & ((1 << len(x)) - 1), len(x)))))
                    else:
                        bit = bv.eq(x, bv.const(taken & ((1 << len(x)) - 1), len(x)))
                    pc = B.AND(pc, bit)
                else:
                    v = expr_bv(c, bv, atom)
                    bit = 0
                    for x in v:
                        bit = B.OR(bit, x)
                    pc = B.AND(pc, bit if taken else B.NOT(bit))
            if pc == 0:
                continue
            n_paths += 1
            cur_pc[0] = pc
            for name, width in (("last_state", wl), ("internal_count", wi), ("count", wc)):
                st = [e for e in p.events if e.kind == "store" and e.ptr == fptr(name)]
                if st:
                    v = expr_bv(st[-1].val, bv, atom)
                    v = bv.trunc(v, width) if len(v) >= width else bv.zext(v, width)
                    out[name] = bv.mux(pc, v, out[name])
            other = [e for e in p.events if e.kind in ("store", "memset", "memcpy") and e.ptr is not None
                     and e.ptr not in (fptr("last_state"), fptr("internal_count"), fptr("count"))
                     and e.ptr not in statistic_members(m, F)
                     and ptr_parts(e.ptr)[0][0] != "g"]      # statics: Q4 decides whether they influence anything
            if other:
                raise Top("store to %s" % fmt(other[0].ptr))
            covered = B.OR(covered, pc)
    except Top as t:
        chk.unknown("Q1.transition", "rotenc_decode", "outside the bit-vector fragment: %s" % t, fn.loc)
        return
    chk.expect("Q1", "feasible paths of rotenc_decode", n_paths, 1)

    def val(asg, base, n):
        return sum((1 << k) for k in range(n) if asg.get(base + k))

    def show(f):
        a = B.sat_one(f) or {}
        return "last_state=%d state=%d internal_count=%d count=%d" % (val(a, 0, wl), val(a, 8, 8), val(a, 16, wi), val(a, 48, wc))
    gap = B.AND(dom, B.NOT(covered))
    fine = gap == 0 and oob[0] == 0
    chk.ob("Q1.total", "rotenc_decode", fine,
           "every 2-bit (last_state, state) pair is handled by some path and every table subscript is in range" if fine
           else ("a table is indexed out of range, e.g. %s" % show(oob[0]) if oob[0] != 0 else "no path handles %s" % show(gap)),
           fn.loc, fn.name)
    nic, nlast, ncnt = out["internal_count"], out["last_state"], out["count"]
    # I = (last_state == 0 -> count == floor(internal_count / 4) mod 2^w): holds in the zero-initialised object and is
    # re-established by every call (Q2.last-state and Q2.latch together say exactly that), so it may be assumed on entry
    inv = B.OR(B.NOT(bv.eq(last, bv.const(0, wl))), bv.eq(cnt, bv.trunc(bv.lshr(ic, 2), wc)))
    pos = bv.trunc(bv.lshr(nic, 2), wc)
    for l in range(4):
        for st in range(4):
            want = 1 if (l, st) in CW else -1 if (l, st) in CCW else 0
            kind = "clockwise" if want == 1 else "anticlockwise" if want == -1 else "repeat or two-bit jump"
            here = B.AND(dom, B.AND(bv.eq(last, bv.const(l, wl)), bv.eq(state, bv.const(st, 8))))
            exp = bv.add(ic, bv.const(want & ((1 << wi) - 1), wi))
            bad = B.AND(here, B.NOT(bv.eq(nic, exp)))
            inst_id = "from %d%d to %d%d" % (l >> 1, l & 1, st >> 1, st & 1)
            chk.ob("Q1.transition", inst_id, bad == 0,
                   ("internal_count changes by %+d for all 2^%d counter values (%s)" % (want, wi, kind)) if bad == 0 else
                   ("internal_count must change by %+d (%s) but does not, e.g. %s" % (want, kind, show(bad))), fn.loc, fn.name)
            bad = B.AND(here, B.NOT(bv.eq(nlast, bv.trunc(state, wl) if wl <= 8 else bv.zext(state, wl))))
            chk.ob("Q2.last-state", inst_id, bad == 0, "last_state == state after the call" + ("" if bad == 0 else "; not for %s" % show(bad)),
                   fn.loc, fn.name)
            if st == 0:
                bad = B.AND(B.AND(here, inv), B.NOT(bv.eq(ncnt, pos)))
                chk.ob("Q2.latch", inst_id, bad == 0,
                       ("at the detent state count == floor(internal_count / 4) mod %d after the call, for all counter values" % (1 << wc))
                       if bad == 0 else "count is not the latched position after the call, e.g. %s" % show(bad), fn.loc, fn.name)
            else:
                bad = B.AND(here, B.NOT(bv.eq(ncnt, cnt)))
                chk.ob("Q2.latch", inst_id, bad == 0, "count is unchanged away from the detent state" +
                       ("" if bad == 0 else "; changed for %s" % show(bad)), fn.loc, fn.name)


def transition(B, bv, m, fn, F, vecs, state, dom):
    """One call of rotenc_decode as a function of arbitrary field vectors: ({field: new vector}, covered, out-of-range).
    vecs: {field name: BDD vector}; fields of rotenc_t not in vecs make the function fall outside the fragment."""
    from ..domains.bvexec import expr_bv, Top
    by_ptr = {paths.mkptr(("arg", 0), F[k][0]): k for k in vecs}
    oob = [0]
    cur_pc = [1]

    def atom(e):
        if e[0] == "ld":
            if e[1] in by_ptr:
                return vecs[by_ptr[e[1]]]
            root, off, var = ptr_parts(e[1])
            if root[0] == "g" and len(var) == 1:
                t = const_table(m, root[1])
                if t is None:
                    raise Top("load from %s, which is not a constant integer table" % root[1])
                vals, w = t
                if var[0][1] * 8 != w or off % var[0][1]:
                    raise Top("table %s indexed with a stride other than its element size" % root[1])
                idx = expr_bv(var[0][0], bv, atom)
                idx = bv.add(idx, bv.const(off // var[0][1], len(idx)))
                res = bv.const(0, w)
                inside = 0
                for k, v in enumerate(vals):
                    hit = bv.eq(idx, bv.const(k, len(idx)))
                    inside = B.OR(inside, hit)
                    res = bv.mux(hit, bv.const(v, w), res)
                oob[0] = B.OR(oob[0], B.AND(cur_pc[0], B.NOT(inside)))
                return res
        if e == ("arg", 1):
            return state
        return None
    out = dict(vecs)
    covered = 0
    for p in paths.enumerate_paths(fn, m):
        if paths.is_assert_fail_path(p):
            continue
        pc = dom
        for c, taken, inst in p.conds:
            cur_pc[0] = pc
            if inst is not None and inst.op == "switch":
                x = expr_bv(c, bv, atom)
                if taken == "default":
                    bit = 1
                    for cv, blk in inst["cases"]:
                        bit = B.AND(bit, B.NOT(bv.eq(x, bv.const(cv & ((1 << len(x)) - 1), len(x)))))
                else:
                    bit = bv.eq(x, bv.const(taken & ((1 << len(x)) - 1), len(x)))
                pc = B.AND(pc, bit)
            else:
                v = expr_bv(c, bv, atom)
                bit = 0
                for x in v:
                    bit = B.OR(bit, x)
                pc = B.AND(pc, bit if taken else B.NOT(bit))
        if pc == 0:
            continue
        cur_pc[0] = pc
        for name in vecs:
            st = [e for e in p.events if e.kind == "store" and e.ptr == paths.mkptr(("arg", 0), F[name][0])]
            if st:
                width = len(vecs[name])
                v = expr_bv(st[-1].val, bv, atom)
                v = bv.trunc(v, width) if len(v) >= width else bv.zext(v, width)
                out[name] = bv.mux(pc, v, out[name])
        other = [e for e in p.events if e.kind in ("store", "memset", "memcpy") and e.ptr is not None
                 and e.ptr not in by_ptr and e.ptr not in statistic_members(m, F) and ptr_parts(e.ptr)[0][0] != "g"]
        if other:
            raise Top("store to %s" % fmt(other[0].ptr))
        covered = B.OR(covered, pc)
    return out, covered, oob[0]


def check_two_calls(chk, m, fn, F):
    """Q5: the decoder as a black box over two consecutive calls.  For EVERY content of the rotenc_t object, feed state a and
    then state b: the second call must change internal_count by the quadrature step from a to b and latch count exactly when
    b is the detent - whatever the object held before the first call and however the decoder chooses to remember a.  This is
    the history clause 'the previous state is the state passed to the previous call' decided without naming the field that
    stores it (so it also covers a decoder that derives the previous state from something else)."""
    from ..domains.bdd import BDD, BV
    from ..domains.bvexec import Top
    B = BDD()
    bv = BV(B)
    base = 0
    vecs = {}
    for name, (off, size) in sorted(F.items(), key=lambda kv: kv[1][0]):
        vecs[name] = bv.inputs(base, size * 8)
        base += size * 8
    a = bv.inputs(base, 8)
    b = bv.inputs(base + 8, 8)
    dom = B.AND(bv.ult(a, bv.const(4, 8)), bv.ult(b, bv.const(4, 8)))
    try:
        mid, cov1, oob1 = transition(B, bv, m, fn, F, vecs, a, dom)
        fin, cov2, oob2 = transition(B, bv, m, fn, F, mid, b, dom)
    except Top as t:
        chk.unknown("Q5.two-calls", "rotenc_decode; rotenc_decode", "outside the bit-vector fragment: %s" % t, fn.loc)
        return
    wi = len(vecs["internal_count"])
    # "count" is what rotenc_count() returns: taken from the API (a witness of the header's inline function evaluated over the
    # field vectors), so it does not matter how the object stores it
    from .. import build as _build
    from ..domains.bvexec import expr_bv as _expr_bv
    try:
        w = _build.compile_text("c19_count_witness.c", "#include <librfn/rotenc.h>\nuint8_t w_count(rotenc_t *r) { return rotenc_count(r); }\n",
                                inline_except=())
        wp = [q for q in paths.enumerate_paths(w.fn("w_count"), w) if not paths.is_assert_fail_path(q)]
        if len(wp) != 1 or wp[0].ret is None:
            raise Top("rotenc_count is not a single expression")
        by_off = {off: name for name, (off, size) in F.items()}

        def count_of(vs):
            def atom(e):
                if e[0] == "ld":
                    r_, o_, v_ = ptr_parts(e[1])
                    if r_ == ("arg", 0) and not v_ and o_ in by_off:
                        return vs[by_off[o_]]
                return None
            v = _expr_bv(wp[0].ret, bv, atom)
            return bv.trunc(v, 8) if len(v) >= 8 else bv.zext(v, 8)
        count_of(vecs)
        count14_of = None
        try:
            w14 = _build.api_view("c19_count14_witness.c", "#include <librfn/rotenc.h>\nuint16_t w_count14(rotenc_t *r) { return rotenc_count14(r); }\n",
                                  ["librfn/rotenc.c"], ["w_count14"])
            wp14 = [q for q in paths.enumerate_paths(w14.fn("w_count14"), w14) if not paths.is_assert_fail_path(q)]
            if len(wp14) == 1 and wp14[0].ret is not None:
                def count14_of(vs, ret=wp14[0].ret):
                    def atom(e):
                        if e[0] == "ld":
                            r_, o_, v_ = ptr_parts(e[1])
                            if r_ == ("arg", 0) and not v_ and o_ in by_off:
                                return vs[by_off[o_]]
                        return None
                    v = _expr_bv(ret, bv, atom)
                    return bv.trunc(v, 16) if len(v) >= 16 else bv.zext(v, 16)
                count14_of(vecs)
        except (Top, AnalysisError, KeyError):
            count14_of = None
    except (Top, AnalysisError, KeyError) as t:
        chk.unknown("Q5.two-calls", "rotenc_count", "rotenc_count() is outside the bit-vector fragment: %s" % t, fn.loc)
        return
    wc = 8

    def show(f):
        asg = B.sat_one(f) or {}
        val = lambda vec: sum((1 << k) for k, x in enumerate(vec) if isinstance(x, int) and x > 1 and asg.get(B.nodes[x][0]) and B.nodes[x][1:] == (0, 1))
        # inputs are single-variable nodes: read them back by variable index
        parts = []
        pos = 0
        for name, (off, size) in sorted(F.items(), key=lambda kv: kv[1][0]):
            parts.append("%s=%d" % (name, sum((1 << k) for k in range(size * 8) if asg.get(pos + k))))
            pos += size * 8
        parts.append("first state=%d" % sum((1 << k) for k in range(8) if asg.get(pos + k)))
        parts.append("second state=%d" % sum((1 << k) for k in range(8) if asg.get(pos + 8 + k)))
        return ", ".join(parts)
    gap = B.AND(dom, B.NOT(B.AND(cov1, cov2)))
    n_bad = 0
    for x in range(4):
        for y in range(4):
            want = 1 if (x, y) in CW else -1 if (x, y) in CCW else 0
            here = B.AND(dom, B.AND(bv.eq(a, bv.const(x, 8)), bv.eq(b, bv.const(y, 8))))
            exp = bv.add(mid["internal_count"], bv.const(want & ((1 << wi) - 1), wi))
            bad = B.AND(here, B.NOT(bv.eq(fin["internal_count"], exp)))
            inst_id = "state %d%d then %d%d" % (x >> 1, x & 1, y >> 1, y & 1)
            chk.ob("Q5.two-calls", inst_id + " step", bad == 0,
                   "whatever the object held, the second call moves internal_count by %+d" % want if bad == 0 else
                   "the second call must move internal_count by %+d but does not, e.g. starting from %s" % (want, show(bad)), fn.loc, fn.name)
            if y == 0 and x != 0 and count14_of is not None:
                want14 = bv.AND(bv.zext(bv.lshr(fin["internal_count"], 2), 16), bv.const(0x3fff, 16))
                bad = B.AND(here, B.NOT(bv.eq(count14_of(fin), want14)))
                chk.ob("Q5.two-calls", inst_id + " count14 at rest", bad == 0,
                       "right after arriving at the detent rotenc_count14() is floor(internal_count / 4) mod 2^14" if bad == 0 else
                       "rotenc_count14() is not the position right after arriving at the detent, e.g. starting from %s" % show(bad), fn.loc, fn.name)
            if y == 0 and x != 0:
                # ARRIVING at the detent (a decoder may skip the latch while it rests there; that case needs the invariant of Q2)
                bad = B.AND(here, B.NOT(bv.eq(count_of(fin), bv.trunc(bv.lshr(fin["internal_count"], 2), wc))))
                chk.ob("Q5.two-calls", inst_id + " latch", bad == 0,
                       "arriving at the detent latches count = floor(internal_count / 4)" if bad == 0 else
                       "count is not the latched position after arriving at the detent, e.g. starting from %s" % show(bad), fn.loc, fn.name)
