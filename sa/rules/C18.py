"""C18 - hex dump / parser.

 H1 NUL-safety of hex_get_byte (string-cursor typestate, forward dataflow over the CFG, edge sensitive):
    every byte load and every strchr start lies inside the string (at or before its NUL); every cursor
    handed back through *p is inside the string or NULL
 H2 end protocol: -1 is returned only with *p == NULL on that path; success stores the cursor just past the pair
 H3 digit maps (finite-set evaluation): hexchar 0..15 -> '0'..'9','a'..'f'; nibble inverts it for both letter
    cases; the parser combines 16*nibble(s[0]) | nibble(s[1]); the dumper prints high nibble then low nibble
 H4 dump structure: one pair per byte, newline after at most 16 pairs and after the last partial line, the
    function returns only when no byte remains (bounded unrolling of the loops), returns the original size
"""
from .. import build, flow, paths
from ..domains.lin import Lin, Prover, expr_to_lin
from ..ir import AnalysisError, Value
from ..paths import fmt, ptr_parts, strip_casts, eval_concrete, NoValue

UNMODELLED_STRING_FUNCS = ("strlen", "strnlen", "strpbrk", "strstr", "memchr", "strtol",
                           "strtoul", "sscanf", "strrchr")


# ---------------------------------------------------------------------------------------------
# H1/H2: typestate dataflow
# ---------------------------------------------------------------------------------------------

def pkey(v, m):
    """(root name, constant offset) of a pointer value or None. A GEP with a variable index is its own root
    (the typestate attaches facts to it when the index is a strspn/strcspn result)."""
    off = 0
    for _ in range(64):
        if v.k == "arg":
            return (v.name, off)
        if v.k == "null":
            return ("null", off)
        if v.k != "inst":
            return None
        i = v.inst
        if i is None:
            return None
        if i.op == "getelementptr":
            if i.get("var_offs"):
                return (i.name, off)
            if "off" not in i.d:
                return None
            off += i["off"]
            v = i.ops[0]
            continue
        if i.op == "bitcast":
            v = i.ops[0]
            continue
        return (i.name, off)
    return None


def literal_of(v, m):
    """String literal a pointer operand refers to (global constant data), or None."""
    if v.k == "cexpr" and v.d["op"] in ("getelementptr", "bitcast"):
        v = v.cexpr_ops()[0]
    if v.k == "global":
        g = m.globals.get(v.name)
        if g and g.get("init", {}).get("k") == "cdata":
            return "".join(chr(c) for c in g["init"]["elems"] if c)
    return None


def byte_of(v):
    """If v is (an extension of) an i8 load, return the load instruction."""
    while True:
        i = v.inst
        if i is None:
            return None
        if i.op in ("sext", "zext", "trunc"):
            v = i.ops[0]
            continue
        if i.op == "load" and i.ty == "i8":
            return i
        return None


def ctype_byte(v):
    """v == (__ctype_b_loc table)[byte] & mask  ->  the i8 load of the byte."""
    i = v.inst
    if i is None:
        return None
    if i.op == "and":
        for a in i.ops:
            r = ctype_byte(a)
            if r is not None:
                return r
        return None
    if i.op in ("zext", "sext", "trunc"):
        return ctype_byte(i.ops[0])
    if i.op == "load" and i.ty == "i16":
        g = i.ops[0].inst
        if g is not None and g.op == "getelementptr" and g.get("var_offs"):
            base = g.ops[0].inst
            if base is not None and base.op == "load":
                c = base.ops[0].inst
                if c is not None and c.op == "call" and c.callee == "__ctype_b_loc":
                    idx = Value(g["var_offs"][0][0], v.fn)
                    return byte_of(idx)
    if i.op == "call" and i.callee in ("isspace", "isxdigit", "isdigit", "isalpha", "isalnum", "isupper", "islower", "isprint", "isgraph", "ispunct"):
        return byte_of(i.args[0])
    return None


_helper_zero = {}


def helper_of_byte(v, m):
    """v == helper(ext(byte load)) for a defined single-argument function of the module: (the byte load, helper(0)) -
    helper(0) evaluated by finite-set evaluation of the helper on the argument 0 - else (None, None)."""
    i = v.inst
    while i is not None and i.op in ("sext", "zext", "trunc"):
        i = i.ops[0].inst
    if i is None or i.op != "call" or not isinstance(i.callee, str) or not m.has_fn(i.callee) or len(i.args) != 1:
        return None, None
    ld = byte_of(i.args[0])
    if ld is None:
        return None, None
    key = (id(m), i.callee)
    if key not in _helper_zero:
        try:
            _helper_zero[key] = eval_fn(m.fn(i.callee), m, 0)
        except (AnalysisError, NoValue, KeyError, IndexError):
            _helper_zero[key] = None
    return ld, _helper_zero[key]


def flag_of(c):
    """(name of the SSA value tested, polarity of the true edge) for a branch on a Boolean variable: flag, !flag, flag != 0 ..."""
    pol = True
    v = c
    for _ in range(8):
        i = v.inst
        if i is None:
            return None
        if i.op == "phi":
            return (i.name, pol)
        if i.op in ("zext", "trunc"):
            v = i.ops[0]
        elif i.op == "xor" and any(o.is_const_int() and o.uval == 1 for o in i.ops):
            v = [o for o in i.ops if not o.is_const_int()][0]
            pol = not pol
        elif i.op == "icmp" and i.pred in ("eq", "ne") and any(o.is_const_int() and o.uval == 0 for o in i.ops):
            v = [o for o in i.ops if not o.is_const_int()]
            if not v:
                return None
            v = v[0]
            if i.pred == "eq":
                pol = not pol
        else:
            return None
    return None


def and_phi_of(c):
    """name of the block that evaluated b if the branch condition is the i1 phi of `a && b` (false from a's block, b from b's)."""
    v = c
    for _ in range(6):
        i = v.inst
        if i is None:
            return None
        if i.op in ("zext", "sext", "trunc"):
            v = i.ops[0]
        elif i.op == "icmp" and i.pred == "ne" and any(o.is_const_int() and o.uval == 0 for o in i.ops):
            v = [o for o in i.ops if not o.is_const_int()][0]
        elif i.op == "phi" and i.ty == "i1":
            live = [(x, b) for x, b in i.incoming if not (x.is_const_int() and x.uval == 0)]
            if len(live) == 1 and not live[0][0].is_const_int():
                b = live[0][1]
                return b if isinstance(b, str) else b.name
            return None
        else:
            return None
    return None


def cond_facts(c, m):
    """(facts on the true edge, facts on the false edge) of branch condition value c."""
    i = c.inst
    if i is None:
        return [], []
    if i.op == "xor" and any(o.is_const_int() and o.uval == 1 for o in i.ops):
        other = [o for o in i.ops if not o.is_const_int()][0]
        t, f = cond_facts(other, m)
        return f, t
    if i.op in ("zext", "trunc", "sext"):
        return cond_facts(i.ops[0], m)
    if i.op == "call":
        # a Boolean classifier of this unit applied to the byte and branched on directly (bool is_hex_digit(char)): the edge
        # that the NUL byte cannot take knows that the byte is not NUL
        ld, zero_val = helper_of_byte(c, m)
        if ld is not None and zero_val is not None:
            k = pkey(ld.ops[0], m)
            if k:
                fact = ("nonnul", k[0], k[1])
                return ([], [fact]) if zero_val else ([fact], [])
        return [], []
    if i.op == "phi" and i.ty in ("i1", "i8", "i32"):
        # a && b as clang leaves it: false from the block that tested a, b's value from the block that tested b.  On the true
        # edge b holds (what held at the end of the block that evaluated b is added by edge_states)
        live = [v for v, b_ in i.incoming if not (v.is_const_int() and v.uval == 0)]
        if len(live) == 1 and not live[0].is_const_int():
            return cond_facts(live[0], m)[0], []
        return [], []
    if i.op == "icmp" and i.pred not in ("eq", "ne"):
        # ordered comparison of the byte with a constant: the edge on which a NUL byte would have gone the other way knows
        # that the byte is not NUL
        a, b = i.ops
        swap = {"slt": "sgt", "sgt": "slt", "sle": "sge", "sge": "sle", "ult": "ugt", "ugt": "ult", "ule": "uge", "uge": "ule"}
        pred = i.pred
        if a.is_const_int():
            a, b, pred = b, a, swap[pred]
        ld = byte_of(a)
        zero_val = 0
        if ld is None and b.is_const_int():
            # classifier(byte) compared with a constant, classifier being a pure helper of this unit (a digit table, a
            # switch): what it yields for the NUL byte decides which edge a NUL could take
            ld, zero_val = helper_of_byte(a, m)
        if ld is None or not b.is_const_int() or zero_val is None:
            return [], []
        k = pkey(ld.ops[0], m)
        if not k:
            return [], []
        bits = int(b.ty[1:])
        zero_holds = paths.fold_icmp(pred, ("c", bits, zero_val & ((1 << bits) - 1)), ("c", bits, b.uval & ((1 << bits) - 1)))[2]
        fact = ("nonnul", k[0], k[1])
        return ([], [fact]) if zero_holds else ([fact], [])
    if i.op != "icmp":
        return [], []
    a, b = i.ops
    if a.is_const_int() or a.is_null():
        a, b = b, a
    eq_t, eq_f = [], []     # facts if a == b / a != b
    if b.is_null():
        k = pkey(a, m)
        if k and k[1] == 0:
            eq_t.append(("null", k[0]))
            eq_f.append(("nnp", k[0]))
    elif b.is_const_int():
        cval = b.uval & 0xff if b.ty in ("i8", "i32") else b.uval
        ld = byte_of(a)
        if ld is not None:
            k = pkey(ld.ops[0], m)
            if k:
                if (b.sval if b.ty != "i8" else b.uval) == ord("0") and k[1] == 0:
                    # the first character of an optional "0x" prefix is examined at this position (whatever the outcome)
                    eq_t.append(("pfx", k[0]))
                    eq_f.append(("pfx", k[0]))
                if (b.sval if b.ty != "i8" else b.uval) != 0:
                    eq_t.append(("nonnul", k[0], k[1]))
                    if (b.sval if b.ty != "i8" else b.uval) == 10:
                        eq_t.append(("isnl",))
                        # the text is never written: the outcome of this test holds for every later test of the same byte
                        eq_t.append(("nlat", k[0], k[1]))
                        eq_f.append(("notnl", k[0], k[1]))
                else:
                    eq_f.append(("nonnul", k[0], k[1]))
                    if k[1] == 0:
                        eq_t.append(("pfx", k[0]))      # a NUL here: certainly no "0x" prefix at this position
        elif a.inst is not None and a.inst.op == "call" and a.inst.callee == "strncmp" and b.uval == 0 and len(a.inst.args) == 3 \
                and a.inst.args[2].is_const_int():
            # strncmp(s + o, "lit", n) == 0: the first min(n, len(lit)) bytes at s + o are the literal's, so none of them is NUL
            args = a.inst.args
            for sp, lp in ((args[0], args[1]), (args[1], args[0])):
                lit = literal_of(lp, m)
                k = pkey(sp, m)
                if lit is None or k is None:
                    continue
                n = min(args[2].uval, len(lit))
                for j in range(n):
                    eq_t.append(("nonnul", k[0], k[1] + j))
                if k[1] == 0 and lit[:1] == "0" and n >= 1:
                    eq_t.append(("pfx", k[0]))
                    eq_f.append(("pfx", k[0]))
        elif helper_of_byte(a, m)[0] is not None:
            # classifier(byte) == c / != c for a pure helper of this unit: NUL is on the side that helper(0) puts it
            ld, zero_val = helper_of_byte(a, m)
            k = pkey(ld.ops[0], m)
            if k and zero_val is not None:
                bits_ = int(b.ty[1:])
                if (zero_val & ((1 << bits_) - 1)) == b.uval:
                    eq_f.append(("nonnul", k[0], k[1]))
                else:
                    eq_t.append(("nonnul", k[0], k[1]))
        else:
            ld = ctype_byte(a)
            if ld is not None and b.uval == 0:
                k = pkey(ld.ops[0], m)
                if k:
                    eq_f.append(("nonnul", k[0], k[1]))     # class bit set -> not NUL
                    msk = [o.uval for o in (a.inst.ops if a.inst is not None and a.inst.op == "and" else []) if o.is_const_int()]
                    if msk and msk[0] == CTYPE_BITS.get("isxdigit"):
                        eq_f.append(("xd", k[0], k[1]))     # the byte is a hexadecimal digit
                    if a.inst is not None and a.inst.op == "call" and a.inst.callee == "isxdigit":
                        eq_f.append(("xd", k[0], k[1]))
            elif b.uval == 0:
                # (x != 0) where x is itself a condition
                inner = a.inst
                if inner is not None and inner.op in ("zext", "sext", "trunc", "icmp", "and", "xor", "phi"):
                    t, f = cond_facts(a, m)
                    eq_t, eq_f = f, t
    if i.pred == "eq":
        return eq_t, eq_f
    return eq_f, eq_t


def close(S):
    S = set(S)
    changed = True
    while changed:
        changed = False
        add = set()
        for f in S:
            if f[0] == "instr" and ("nonnul", f[1], f[2]) in S and ("instr", f[1], f[2] + 1) not in S:
                add.add(("instr", f[1], f[2] + 1))
            if f[0] == "src" and ("nnp", f[1]) in S and ("instr", f[1], 0) not in S:
                add.add(("instr", f[1], 0))
            if f[0] == "chr" and ("nnp", f[1]) in S and ("nonnul", f[1], 0) not in S:
                add.add(("nonnul", f[1], 0))
            if f[0] == "instr" and f[2] == 0 and ("nnp", f[1]) not in S:
                add.add(("nnp", f[1]))
        if add:
            S |= add
            changed = True
    return S


class Cursor:
    def __init__(self, fn, m, str_arg, cur_arg):
        self.fn, self.m = fn, m
        self.str_arg, self.cur_arg = str_arg, cur_arg
        self.findings = []      # (rule, inst, ok, detail)
        self.n_loads = self.n_advances = 0
        self.span_calls = {}
        self.colon_scans = set()

    def gep_alias(self, S, i):
        """A GEP / bitcast result is a new SSA name for root+off: copy facts."""
        k = pkey(i.value, self.m)
        return S

    def transfer(self, blk, S, check):
        m = self.m
        S = set(S)
        for i in blk.insts:
            if i.op == "phi" or i.is_dbg():
                continue
            if i.op == "load" and i.ty == "i8":
                k = pkey(i.ops[0], m)
                if check:
                    self.n_loads += 1
                    ok = k is not None and ("instr", k[0], k[1]) in S
                    self.findings.append(("H1.load-in-string", i, ok,
                                          "byte load at %s%+d %s" % (k[0] if k else "?", k[1] if k else 0,
                                                                     "is inside the string (all earlier bytes known non-NUL)" if ok else
                                                                     "is not known to be inside the string: on some path no earlier test "
                                                                     "shows that the preceding byte is not the terminating NUL")))
            elif i.op == "load" and i.ty == "i8*":
                k = pkey(i.ops[0], m)
                if k == (self.cur_arg, 0):
                    S.add(("src", i.name))
                    S.discard(("nocolon",))
                    S.discard(("fresh",))       # the saved cursor points into the middle of a line
                    # a second read of the cursor cell with no store in between yields the same pointer: what is known about
                    # the cell's content (r + o) holds for the new name
                    for pv in [f for f in S if f[0] == "pval"]:
                        r, o = pv[1], pv[2]
                        for f in list(S):
                            if f[0] in ("instr", "nonnul", "nlat", "notnl") and f[1] == r:
                                S.add((f[0], i.name, f[2] - o))
                            if o == 0 and f[0] in ("src", "chr", "nnp", "null") and f[1] == r:
                                S.add((f[0], i.name))
                    S = set(f for f in S if f[0] != "pval")
                    S.add(("pval", i.name, 0))
            elif i.op == "store" and i.ops[0].ty == "i8*":
                k = pkey(i.ops[1], m)
                if k == (self.cur_arg, 0):
                    vk = pkey(i.ops[0], m)
                    S = set(f for f in S if f[0] != "pval")
                    if vk:
                        S.add(("pval", vk[0], vk[1]))
                    if check:
                        ok = vk is not None and (("instr", vk[0], vk[1]) in S or (vk[1] == 0 and (("src", vk[0]) in S or ("null", vk[0]) in S))
                                                 or vk[0] == "null")
                        self.findings.append(("H1.cursor-handed-back", i, ok,
                                              "value stored to *p (%s%+d) is %s" % (vk[0] if vk else "?", vk[1] if vk else 0,
                                                                                     "inside the string or NULL" if ok else
                                                                                     "not known to be inside the string: the next call would read beyond the NUL")))
            elif i.op == "call" and i.callee == "strchr":
                k = pkey(i.args[0], m)
                c = i.args[1]
                if check:
                    self.n_advances += 1
                    ok = k is not None and ("instr", k[0], k[1]) in S
                    self.findings.append(("H1.scan-start-in-string", i, ok,
                                          "strchr starts at %s%+d, %s" % (k[0] if k else "?", k[1] if k else 0,
                                                                         "inside the string" if ok else "not known to be inside the string")))
                S.add(("src", i.name))
                if c.is_const_int() and c.uval != 0:
                    S.add(("chr", i.name))
                if c.is_const_int() and c.uval == ord(":"):
                    if check:
                        ok = ("fresh",) in S
                        self.findings.append(("H2.continuation", i, ok,
                                              "the 'address:' prefix is looked for only at the start of a line (text handed in by the "
                                              "caller, or just past a newline)" if ok else
                                              "the 'address:' prefix is looked for on a path that continues from the saved cursor in the "
                                              "middle of a line: the search runs over the rest of the text, so when a later line has an "
                                              "address the remaining bytes of the current line are skipped"))
                    S.add(("no-nl",))           # the 'address:' prefix of this line has been looked for
                    self.colon_scans.add(i.name)
                if c.is_const_int() and c.uval == 10:
                    S.add(("fresh",))           # the search result is a newline: what follows it is the start of a line
            elif i.op == "call" and i.callee == "strncmp":
                # reads from each operand until a difference, a NUL or n bytes: fine when it starts inside the string
                for a in i.args[:2]:
                    if literal_of(a, m) is not None:
                        continue
                    k = pkey(a, m)
                    if check:
                        self.n_advances += 1
                        ok = k is not None and ("instr", k[0], k[1]) in S
                        self.findings.append(("H1.scan-start-in-string", i, ok,
                                              "strncmp starts at %s%+d, %s" % (k[0] if k else "?", k[1] if k else 0,
                                                                              "inside the string" if ok else "not known to be inside the string")))
            elif i.op == "call" and i.callee in ("memcmp", "bcmp") and len(i.args) == 3:
                # reads n bytes of each operand whatever they hold: all n must be inside the string
                n = i.args[2].uval if i.args[2].is_const_int() else None
                for a in i.args[:2]:
                    if literal_of(a, m) is not None:
                        continue
                    k = pkey(a, m)
                    if check:
                        self.n_advances += 1
                        ok = k is not None and n is not None and all(("instr", k[0], k[1] + j) in S for j in range(n))
                        self.findings.append(("H1.load-in-string", i, ok,
                                              "%s reads %s bytes at %s%+d: %s" % (i.callee, n, k[0] if k else "?", k[1] if k else 0,
                                                                                  "all inside the string" if ok else
                                                                                  "not all known to be inside the string (unlike strncmp it does not stop at the NUL)")))
            elif i.op == "call" and i.callee in ("strspn", "strcspn"):
                k = pkey(i.args[0], m)
                if check:
                    self.n_advances += 1
                    ok = k is not None and ("instr", k[0], k[1]) in S
                    self.findings.append(("H1.scan-start-in-string", i, ok,
                                          "%s starts at %s%+d, %s" % (i.callee, k[0] if k else "?", k[1] if k else 0,
                                                                         "inside the string" if ok else "not known to be inside the string")))
                lit = literal_of(i.args[1], m)
                if i.callee == "strspn" and (lit is None or "\n" in lit):
                    S.discard(("no-nl",))       # may have skipped over a newline
                self.span_calls[i.name] = k
            elif i.op == "getelementptr" and i.get("var_offs"):
                # s + strspn(s, ...) stays inside the string (the span never crosses the NUL)
                vo = i["var_offs"]
                if len(vo) == 1 and vo[0][1] == 1:
                    idx = Value(vo[0][0], self.fn)
                    src = idx.inst
                    while src is not None and src.op in ("zext", "sext", "trunc"):
                        src = src.ops[0].inst
                    base = pkey(i.ops[0], m)
                    if src is not None and src.op == "call" and src.callee in ("strspn", "strcspn") and \
                            self.span_calls.get(src.name) == base and base is not None and i.get("off", 0) == 0:
                        if ("instr", base[0], base[1]) in S:
                            S.add(("instr", i.name, 0))
            elif i.op == "call" and i.callee in UNMODELLED_STRING_FUNCS:
                raise AnalysisError("string function %s is not modelled by the cursor typestate" % i.callee)
            S = close(S)
        return S

    def edge_states(self, blk, S):
        """out-state per successor block name."""
        t = blk.term
        out = {}
        if t.op == "br" and t.cond is not None:
            tf, ff = cond_facts(t.cond, self.m)
            fl = flag_of(t.cond)
            andphi = and_phi_of(t.cond)
            for succ, facts, edge_true in ((t.succs[0], tf, True), (t.succs[1], ff, False)):
                facts = list(facts)
                if fl is not None:
                    facts.append(("flagv", fl[0], edge_true == fl[1]))      # the flag's truth on this edge (until it is redefined)
                if andphi is not None and edge_true and getattr(self, "_IN", None) is not None:
                    # the true edge of (a && b) is only reached through the block that evaluated b: what held at its end holds here
                    pb = self.fn.blocks[andphi]
                    outs = [self.transfer(pb, self._IN[(pb.name, part)], False) for part in (True, False) if (pb.name, part) in self._IN]
                    if outs:
                        keep = set.intersection(*[set(o) for o in outs])
                        facts += [f for f in keep if f[0] in ("nonnul", "instr", "xd", "nnp", "src")]
                if fl is not None and fl[1] != edge_true and ("implz", fl[0]) in S:
                    facts.append(("nocolon",))
                # a search for ':' from inside the string that found nothing: there is no 'address:' prefix on this line or on
                # any later one (the cursor only moves forward)
                if any(f[0] == "null" and f[1] in self.colon_scans for f in facts):
                    facts.append(("nocolon",))
                # a branch on a flag that is only ever set after such a search
                if fl is not None and fl[1] == edge_true and ("impl", fl[0]) in S:
                    facts.append(("nocolon",))
                st = close((S | set(facts) | ({("fresh",)} if ("isnl",) in facts else set())) - ({("no-nl",)} if ("isnl",) in facts else set()))
                # an edge that needs a pointer to be NULL and non-NULL at once is infeasible
                if any(f[0] == "null" and ("nnp", f[1]) in st for f in st):
                    continue
                if any(f[0] == "flagv" and ("flagv", f[1], not f[2]) in st for f in st):
                    continue
                # ... or a byte to be a newline and not a newline
                if any(f[0] == "nlat" and ("notnl", f[1], f[2]) in st for f in st):
                    continue
                out.setdefault(succ, []).append(st)
        else:
            for s in (t.succs or []):
                out.setdefault(s, []).append(S)
        return out

    def phi_rename(self, blk, pred, S):
        """Facts about this block's phis derived from the state on the edge pred->blk."""
        # facts about a phi's own name describe the value it had on the previous visit: they must not survive its redefinition
        phis = set(i.name for i in blk.insts if i.op == "phi")
        S2 = set(f for f in S if not (len(f) > 1 and f[1] in phis))
        for i in blk.insts:
            if i.op != "phi":
                break
            if i.ty in ("i1", "i8", "i32"):
                # ('impl', flag): whenever this value is non-zero, a search for ':' has come up empty ('nocolon')
                for v, b in i.incoming:
                    if b != pred.name:
                        continue
                    if v.is_const_int():
                        if v.uval == 0 or ("nocolon",) in S:
                            S2.add(("impl", i.name))
                        if v.uval != 0 or ("nocolon",) in S:
                            S2.add(("implz", i.name))       # the flag in positive logic: zero only after a failed search
                    elif v.k == "inst":
                        if ("impl", v.name) in S:
                            S2.add(("impl", i.name))
                        if ("implz", v.name) in S:
                            S2.add(("implz", i.name))
                continue
            if i.ty != "i8*":
                continue
            for v, b in i.incoming:
                if b != pred.name:
                    continue
                k = pkey(v, self.m)
                if k is None:
                    continue
                r, o = k
                if r == "null":
                    if o == 0:
                        S2.add(("null", i.name))
                    continue
                for f in S:
                    if f[0] in ("instr", "nonnul", "nlat", "notnl") and f[1] == r:
                        S2.add((f[0], i.name, f[2] - o))
                    if o == 0 and f[0] in ("src", "chr", "nnp", "null") and f[1] == r:
                        S2.add((f[0], i.name))
                    if f[0] == "pval" and f[1] == r:
                        S2.add(("pval", i.name, f[2] - o))
                    # position reached by handling the optional prefix at r: either stepping over it (+2) or not (+0)
                    if f[0] == "pfx" and f[1] == r and o in (0, 2):
                        S2.add(("pfxok", i.name))
                    if f[0] == "pfxok" and f[1] == r and o == 0:
                        S2.add(("pfxok", i.name))
                if ("instr", r, o) in S:
                    S2.add(("src", i.name))
        return S2

    def run(self):
        """Forward dataflow, partitioned on the 'no newline pending' bit (trace partitioning on one boolean, so that
        'came here over a newline' and 'came here from the caller with a possibly NULL s' are not merged)."""
        fn = self.fn
        NL = ("no-nl",)
        st0 = close({("src", self.str_arg), NL, ("fresh",)})
        IN = {(fn.entry.name, True): st0}
        self._IN = IN
        work = [(fn.entry, True)]
        iters = 0
        while work:
            iters += 1
            if iters > 4000:
                raise AnalysisError("typestate dataflow did not converge")
            blk, part = work.pop()
            S = self.transfer(blk, IN[(blk.name, part)], False)
            for sname, states in self.edge_states(blk, S).items():
                sb = fn.blocks[sname]
                for st in states:
                    st2 = close(self.phi_rename(sb, blk, st))
                    key = (sname, NL in st2)
                    if key not in IN:
                        IN[key] = st2
                        work.append((sb, key[1]))
                    else:
                        new = IN[key] & st2
                        if new != IN[key]:
                            IN[key] = new
                            work.append((sb, key[1]))
        self.IN = IN
        for blk in fn.order:
            for part in (True, False):
                if (blk.name, part) in IN:
                    self.transfer(blk, IN[(blk.name, part)], True)
        return IN


def unmodelled_byte_tests(fn):
    """Comparisons whose operand is computed from a byte of the text by arithmetic (c | 0x20, c - '0', ...): the cursor analysis
    reads comparisons of the byte itself, the <ctype.h> classes and classifier helpers; what such a test says about the byte
    being NUL is not modelled, so 'no earlier test shows the byte is not NUL' cannot be concluded in a function that has one."""
    out = []
    for blk in fn.order:
        for i in blk.insts:
            if i.op != "icmp":
                continue
            for o in i.ops:
                v = o
                while v.inst is not None and v.inst.op in ("sext", "zext", "trunc"):
                    v = v.inst.ops[0]
                j = v.inst
                if j is not None and j.op in ("or", "and", "xor", "add", "sub", "shl", "lshr", "ashr", "mul") \
                        and any(byte_of(x) is not None for x in j.ops):
                    out.append(i)
    return out


def check_get_byte(chk, m):
    fn = m.fn("hex_get_byte")
    chk.note_fn(fn)
    if len(fn.args) != 2:
        raise AnalysisError("hex_get_byte signature changed")
    cur = Cursor(fn, m, fn.args[0].name, fn.args[1].name)
    PFX_SEEN[0] = 0
    IN = cur.run()
    seen = set()
    opaque = unmodelled_byte_tests(fn)
    for rule, inst, ok, detail in cur.findings:
        key = (rule, inst.loc, inst.name, ok)
        if key in seen:
            continue
        seen.add(key)
        if not ok and opaque and rule.startswith("H1."):
            chk.unknown(rule, "hex_get_byte %s %s" % (inst.op, inst.name or ""),
                        "%s - but the function tests a value computed from a byte of the text (%s), and what that test says about "
                        "the byte is not modelled" % (detail, opaque[0].loc), inst.loc)
            continue
        chk.ob(rule, "hex_get_byte %s %s" % (inst.op, inst.name or ""), ok, detail, inst.loc, fn.name)
    chk.expect("H1", "byte loads in hex_get_byte", cur.n_loads, 6)
    chk.expect("H1", "scans (strchr/strspn) in hex_get_byte", cur.n_advances, 2)
    # H2: return protocol, per incoming edge of the returned value and per partition
    for blk in fn.order:
        t = blk.term
        if t.op != "ret":
            continue
        rv = t.ops[0]
        cases = []
        if rv.k == "inst" and rv.inst.op == "phi" and rv.inst.block is blk:
            for v, b in rv.inst.incoming:
                cases.append((v, fn.blocks[b]))
        else:
            cases.append((rv, None))
        for v, pred in cases:
            for part in (True, False):
                src = pred if pred is not None else blk
                if (src.name, part) not in IN:
                    continue
                S = cur.transfer(src, IN[(src.name, part)], False)
                if pred is not None:
                    found = None
                    for sname, states in cur.edge_states(pred, S).items():
                        if sname == blk.name and states:
                            found = states[0]
                    if found is None:
                        continue
                    S = found
                check_return_edge(chk, m, fn, t, v, pred, blk, part, S)
    # a pair that starts with two hexadecimal digits needs no prefix handling - but SOME successful parse must be one that looked
    # for "0x" where the digits start (after the white space), or " 0x12" is never parsed at all
    chk.ob("H2.hex-prefix", "some successful parse handles the prefix", PFX_SEEN[0] >= 1,
           "at least one success path looks for the optional \"0x\" at the position the digits are then taken from (%d do)" % PFX_SEEN[0]
           if PFX_SEEN[0] else "no success path looks for the optional \"0x\" at the position of the digits (it is tested before the "
           "white space is skipped, or not at all): \" 0x12\" is not parsed", fn.loc, fn.name)


PFX_SEEN = [0]      # success edges on which the "0x" prefix was looked for at the position of the digits


def check_return_edge(chk, m, fn, t, v, pred, blk, part, S):
    where = "edge %s->return%s" % ((pred.name.lstrip("%") if pred else blk.name), "" if part else " (newline crossed)")
    pv = [f for f in S if f[0] == "pval"]
    if v.is_const_int() and v.sval == -1:
        ok = bool(pv) and pv[0][2] == 0 and (("null", pv[0][1]) in S or pv[0][1] == "null")
        chk.ob("H2.end-protocol", where, ok,
               "-1 is returned with *p == NULL on this path (so every later call keeps returning -1); cursor cell holds %s"
               % (str(pv[0][1:]) if pv else "an unknown value"), t.loc, fn.name)
        return
    ok_store = bool(pv) and ("instr", pv[0][1], pv[0][2]) in S
    if not ok_store and pv and unmodelled_byte_tests(fn):
        chk.unknown("H2.success-cursor", where, "the cursor stored on success (%s) is not known to be inside the string, but the "
                    "function tests a value computed from a byte of the text, which is not modelled" % str(pv[0][1:]), t.loc)
    else:
        chk.ob("H2.success-cursor", where, ok_store,
               "success stores a cursor inside the string (%s)" % (str(pv[0][1:]) if pv else "none stored"), t.loc, fn.name)
    i = v.inst
    shape = False
    detail = "returned value is not 16*nibble(s[0]) | nibble(s[1])"
    if i is not None and i.op in ("or", "add"):
        hi, lo = i.ops
        hi_i = hi.inst
        if hi_i is not None and hi_i.op in ("mul", "shl"):
            k = [o for o in hi_i.ops if o.is_const_int()]
            call = [o for o in hi_i.ops if not o.is_const_int()]
            scale = (k[0].uval if hi_i.op == "mul" else 1 << k[0].uval) if k else None
            c1 = call[0].inst if call else None
            c2 = lo.inst
            if scale == 16 and c1 is not None and c2 is not None and c1.op == "call" and c2.op == "call" and c1.callee == c2.callee:
                b1, b2 = byte_of(c1.args[0]), byte_of(c2.args[0])
                if b1 is not None and b2 is not None and pv:
                    k1, k2 = pkey(b1.ops[0], m), pkey(b2.ops[0], m)
                    want1, want2 = (pv[0][1], pv[0][2] - 2), (pv[0][1], pv[0][2] - 1)
                    shape = k1 == want1 and k2 == want2
                    detail = "returns 16*%s(byte at %s%+d) | %s(byte at %s%+d); cursor stored just past the pair: %s" % (
                        c1.callee, k1[0], k1[1], c2.callee, k2[0], k2[1], shape)
    chk.ob("H2.pair-value", where, shape, detail, t.loc, fn.name)
    if pv:
        droot = pv[0][1]
        # the digits sit at (cursor stored) - 2: is that position the one reached by the prefix handling?
        dig = None
        if i is not None and i.op in ("or", "add"):
            for o_ in i.ops:
                x = o_.inst
                while x is not None and x.op in ("mul", "shl", "zext", "sext", "trunc"):
                    nc = [q for q in x.ops if not q.is_const_int()]
                    x = nc[0].inst if nc else None
                if x is not None and x.op == "call" and x.args:
                    b_ = byte_of(x.args[0])
                    if b_ is not None:
                        kk = pkey(b_.ops[0], m)
                        if kk and (dig is None or kk[1] < dig[1]):
                            dig = kk
        okp = dig is not None and dig[1] == 0 and (("pfxok", dig[0]) in S or ("pfx", dig[0]) in S)
        if okp:
            PFX_SEEN[0] += 1
        if not okp and dig is not None and ("xd", dig[0], dig[1]) in S and ("xd", dig[0], dig[1] + 1) in S:
            okp = True      # both characters are hexadecimal digits: the second is not 'x', so there is no "0x" here to skip
        chk.ob("H2.hex-prefix", where, okp,
               "the digits parsed are the ones found after looking for an optional \"0x\" at that very position (after any white space)"
               if okp else "the optional \"0x\" prefix is not looked for at the position of the digits (it is tested before the white "
               "space is skipped, or not at all): \" 0x12\" is not parsed", t.loc, fn.name)
    NL = ("no-nl",)
    looked = NL in S or ("nocolon",) in S
    chk.ob("H2.line-prefix", where, looked,
           "a byte is only parsed after the current line's 'address:' prefix has been looked for: every path that moves past a "
           "newline re-runs the prefix skip before parsing digits (or an earlier search of the rest of the text found no ':' at all)" + ("" if looked else
           " - here a path skips a newline and parses on, so the address digits of later lines are returned as data"),
           t.loc, fn.name)


# ---------------------------------------------------------------------------------------------
# H3: digit maps
# ---------------------------------------------------------------------------------------------

CTYPE_FUNCS = {"isspace": lambda ch: ch in " \t\n\v\f\r", "isblank": lambda ch: ch in " \t", "isxdigit": lambda ch: ch in "0123456789abcdefABCDEF",
               "isdigit": lambda ch: ch.isdigit(), "isalpha": lambda ch: ch.isalpha(), "isalnum": lambda ch: ch.isalnum(),
               "isupper": lambda ch: ch.isupper(), "islower": lambda ch: ch.islower(), "iscntrl": lambda ch: ord(ch) < 32 or ord(ch) == 127,
               "isprint": lambda ch: 32 <= ord(ch) < 127, "isgraph": lambda ch: 32 < ord(ch) < 127,
               "ispunct": lambda ch: 32 < ord(ch) < 127 and not ch.isalnum()}
# glibc's __ctype_b bit of each class (little endian hosts), "C" locale contents
CTYPE_BITS = {"isupper": 0x100, "islower": 0x200, "isalpha": 0x400, "isdigit": 0x800, "isxdigit": 0x1000, "isspace": 0x2000,
              "isprint": 0x4000, "isgraph": 0x8000, "isblank": 0x1, "iscntrl": 0x2, "ispunct": 0x4, "isalnum": 0x8}
WHITE_SPACE = frozenset(b" \t\n\v\f\r")


def ctype_mask(v):
    """__ctype_b[v] in the "C" locale; v is the (sign- or zero-extended) character value used as subscript."""
    if not 0 <= v < 128:
        return 0
    ch = chr(v)
    return sum(bit for name, bit in CTYPE_BITS.items() if CTYPE_FUNCS[name](ch))


def eval_at_byte(e, S, c):
    """Value of expression e when the byte at the cursor S is c; NoValue for anything that is not a function of that byte."""
    k = e[0]
    if k == "c":
        return e[2]
    if k == "null":
        return 0
    if k == "ld":
        if isinstance(S, dict):
            if e[2] == 1 and e[1] in S:
                return c if S[e[1]] is None else S[e[1]]
        elif e[1] == S and e[2] == 1:
            return c
        r, o, v = ptr_parts(e[1])
        if r[0] == "ld" and r[1][0] == "call" and r[1][1] == "__ctype_b_loc" and len(v) == 1 and v[0][1] == 2 and o % 2 == 0:
            idx = eval_at_byte(v[0][0], S, c)
            bits = paths.expr_bits(v[0][0]) or 64
            if idx >> (bits - 1):
                idx -= 1 << bits
            return ctype_mask(idx + o // 2)
        raise NoValue(e)
    if k == "call" and isinstance(e[1], str) and EVAL_MODULE[0] is not None and EVAL_MODULE[0].has_fn(e[1]) and len(e[2]) == 1:
        # a classifier / converter of this unit applied to the byte: evaluated on the concrete argument
        v = eval_at_byte(e[2][0], S, c)
        try:
            return eval_fn(EVAL_MODULE[0].fn(e[1]), EVAL_MODULE[0], v)
        except AnalysisError:
            raise NoValue(e)
    if k == "call" and isinstance(e[1], str) and e[1] in CTYPE_FUNCS and len(e[2]) == 1:
        v = eval_at_byte(e[2][0], S, c) & 0xffffffff
        v = v - (1 << 32) if v >> 31 else v
        return 1 if (0 <= v < 128 and CTYPE_FUNCS[e[1]](chr(v))) else 0
    if k == "cast":
        v = eval_at_byte(e[4], S, c)
        return eval_concrete(("cast", e[1], e[2], e[3], ("c", e[2], v & ((1 << e[2]) - 1))), {})
    if k == "b":
        a, b = eval_at_byte(e[3], S, c), eval_at_byte(e[4], S, c)
        r = paths.fold_bin(e[1], e[2], ("c", e[2], a & ((1 << e[2]) - 1)), ("c", e[2], b & ((1 << e[2]) - 1)))
        if r is None:
            raise NoValue(e)
        return r[2]
    if k == "icmp":
        bits = paths.expr_bits(e[2]) or paths.expr_bits(e[3]) or 64
        a, b = eval_at_byte(e[2], S, c), eval_at_byte(e[3], S, c)
        return paths.fold_icmp(e[1], ("c", bits, a & ((1 << bits) - 1)), ("c", bits, b & ((1 << bits) - 1)))[2]
    if k == "sel":
        return eval_at_byte(e[2] if eval_at_byte(e[1], S, c) else e[3], S, c)
    raise NoValue(e)


EVAL_MODULE = [None]
HEX_DIGITS = frozenset(b"0123456789abcdefABCDEF")


def check_digit_class(chk, m):
    """H3.digit-class: a pair is accepted exactly when both characters are hexadecimal digits.  On every segment that returns a
    value (stores the cursor just past a pair), the decisions that look at the first / second character of the pair are
    evaluated for all 255 non-NUL byte values ("C" locale, helpers of this unit evaluated on the concrete byte): the accepted
    set must be the 22 hexadecimal digits for each position.  Decides the classification whatever decides it (isxdigit, a
    table, a switch) and in every build variant (a table of plain char holding -1 accepts ':' where char is unsigned)."""
    fn = m.fn("hex_get_byte")
    EVAL_MODULE[0] = m
    try:
        segs = [(s, p) for s, p in paths.enumerate_segments(fn, m) if p.end == "ret" and p.ret is not None and strip_casts(p.ret)[0] != "c"]
    except AnalysisError as e:
        chk.unknown("H3.digit-class", "hex_get_byte", str(e), fn.loc)
        return
    n = 0
    union = {0: set(), 1: set()}
    show = lambda xs: ", ".join(repr(chr(x)) if x < 127 else "0x%02x" % x for x in xs[:8])
    loc = fn.loc
    for s, p in segs:
        st = [e for e in p.events if e.kind == "store" and e.ptr == ("arg", 1)]
        if not st:
            continue
        r, o, v = ptr_parts(st[-1].val)
        if v:
            continue
        loc = p.ret_inst.loc
        for k in (0, 1):
            X = paths.mkptr(r, o - 2 + k)
            sid = "hex_get_byte %s..ret [%s] character %d" % (s.lstrip("%"), "->".join(b.lstrip("%") for b in p.blocks[-3:]), k)
            mine = [(cd, t) for cd, t, i in p.conds if (i is None or i.op != "switch") and
                    any(x[0] == "ld" and x[1] == X and x[2] == 1 for x in paths.subexprs(cd))]
            if not mine:
                chk.ob("H3.digit-class", sid, False,
                       "a pair is accepted without any test of its %s character" % ("first", "second")[k], p.ret_inst.loc, fn.name)
                continue
            try:
                # the other character of the pair is held at a hexadecimal digit, so that a decision taken on both at once
                # (`!isxdigit(s[0]) || !isxdigit(s[1])`) becomes a decision on this one
                env = {X: None, paths.mkptr(r, o - 2 + (1 - k)): ord("7")}
                D = set(c for c in range(1, 256) if all(bool(eval_at_byte(cd, env, c)) == bool(t) for cd, t in mine))
            except NoValue as nv:
                chk.unknown("H3.digit-class", sid,
                            "the test of the character is not a function of that byte alone (%s)" % fmt(nv.args[0])[:50], p.ret_inst.loc)
                return
            n += 1
            union[k] |= D
            extra = sorted(D - HEX_DIGITS)
            chk.ob("H3.digit-class", sid, not extra,
                   "only hexadecimal digits are accepted as the %s character on this way through (255 byte values evaluated)" % ("first", "second")[k]
                   if not extra else
                   "accepted although not a hexadecimal digit: %s (%d characters) - the value returned for such a pair is outside 0..255 or "
                   "junk is parsed as data" % (show(extra), len(extra)), p.ret_inst.loc, fn.name)
    for k in (0, 1):
        missing = sorted(HEX_DIGITS - union[k])
        chk.ob("H3.digit-class", "hex_get_byte character %d, all accepting ways together" % k, not missing,
               "every hexadecimal digit is accepted as the %s character on some way through" % ("first", "second")[k] if not missing else
               "hexadecimal digits that are never accepted as the %s character: %s" % (("first", "second")[k], show(missing)), loc, fn.name)
    chk.expect("H3", "character tests on accepting segments of hex_get_byte", n, 2)


def check_whitespace_class(chk, m):
    """H2.whitespace-class: "hex pairs may carry ... arbitrary white space".  The characters the scanner steps over one at a
    time without consuming a pair - every loop-free segment that arrives at a loop head with the cursor advanced by exactly
    one and whose decisions are functions of the byte under the cursor alone - are evaluated for all 255 non-NUL byte values
    with the "C" locale's classification: the set stepped over must be exactly C's white space {space, \\t, \\n, \\v, \\f, \\r}.
    A scanner that advances with strspn(s, "<set>") is judged by the literal set."""
    fn = m.fn("hex_get_byte")
    try:
        segs = [(s, p) for s, p in paths.enumerate_segments(fn, m) if p.end.startswith("cut:")]
    except AnalysisError as e:
        chk.unknown("H2.whitespace-class", "hex_get_byte", str(e), fn.loc)
        return
    K = set()
    n_skip = 0
    loc = fn.loc
    for s, p in segs:
        for name, v in (getattr(p, "carried", None) or {}).items():
            if not (isinstance(v, tuple) and v[0] == "p" and v[1][0] == "sym" and v[2] == 1 and not v[3]):
                continue
            S = v[1]
            if any(e.kind == "store" for e in p.events):
                continue
            ok_seg = True
            hit = set()
            # decisions that do not look at the byte under the cursor (a pending-newline flag, whether the next line has an
            # address prefix) only select among ways of stepping over it: the step exists for c if the byte's own tests allow it
            mine = [(cd, t) for cd, t, i in p.conds if (i is None or i.op != "switch") and
                    any(x[0] == "ld" and x[1] == S and x[2] == 1 for x in paths.subexprs(cd))]
            for c in range(1, 256):
                # the byte as the program's `char` sees it is decided by the casts in the expressions (sext / zext of the i8 load)
                try:
                    if all(bool(eval_at_byte(cd, S, c)) == bool(t) for cd, t in mine):
                        hit.add(c)
                except NoValue:
                    ok_seg = False
                    break
            if ok_seg and mine:
                n_skip += 1
                K |= hit
                loc = p.conds[-1][2].loc
    for blk in fn.order:
        for i in blk.insts:
            if i.op == "call" and i.callee == "strspn":
                lit = literal_of(i.args[1], m)
                if lit is not None:
                    n_skip += 1
                    K |= set(lit.encode("latin-1"))
                    loc = i.loc
    if not n_skip:
        chk.unknown("H2.whitespace-class", "hex_get_byte", "no single-character skip step and no strspn over a literal set found: "
                    "the white-space handling is in a form this rule does not recognise", fn.loc)
        return
    missing, extra = sorted(WHITE_SPACE - K), sorted(K - WHITE_SPACE)
    show = lambda xs: ", ".join(repr(chr(x)) for x in xs[:8])
    chk.ob("H2.whitespace-class", "hex_get_byte", not missing and not extra,
           "the characters stepped over between pairs are exactly C's white space (%d skip steps evaluated for 255 byte values)" % n_skip
           if not missing and not extra else
           ("white space that is NOT stepped over: %s - a pair that follows it is treated as junk and the rest of the line (or of the "
            "text) is dropped. " % show(missing) if missing else "") +
           ("characters stepped over that are not white space: %s. " % show(extra) if extra else ""), loc, fn.name)


def eval_fn(fn, m, argval):
    """Finite-set evaluation of a one-argument helper on a concrete argument."""
    bits = paths.int_bits_of(fn.args[0].ty) or 8
    env = paths.LazyEnv(m, {("arg", 0): argval & ((1 << bits) - 1)})
    for p in paths.enumerate_paths(fn, m):
        ok = True
        for cd in p.conds:
            try:
                holds = paths.cond_holds(cd, env)
            except NoValue:
                raise AnalysisError("%s: branch not a function of the argument" % fn.name)
            if not holds:
                ok = False
                break
        if ok:
            try:
                return eval_concrete(p.ret, env)
            except NoValue:
                raise AnalysisError("%s: result not a function of the argument" % fn.name)
    raise AnalysisError("%s: no path for argument %d" % (fn.name, argval))


def check_digit_maps(chk, m):
    nb = m.fn("nibble")
    hc = m.functions.get("hexchar") if m.has_fn("hexchar") else None
    chk.note_fn(nb)
    want = "0123456789abcdef"
    if hc is None:
        # the dump may produce its digits some other way (a table): H4.pair-order decides the printed characters for all
        # 256 byte values whatever produces them
        chk.ob("H3.hexchar", "hexchar", True, "no hexchar() helper in this tree: the printed digits are decided by H4.pair-order alone",
               nb.loc, nb.name)
    else:
        chk.note_fn(hc)
    for v in range(16 if hc is not None else 0):
        got = eval_fn(hc, m, v) & 0xff
        chk.ob("H3.hexchar", "hexchar(%d)" % v, got == ord(want[v]), "hexchar(%d) = %r, expected %r" % (v, chr(got), want[v]),
               hc.loc, hc.name)
    for ch in "0123456789abcdefABCDEF":
        got = eval_fn(nb, m, ord(ch))
        bits = 32
        got = got if got < (1 << 31) else got - (1 << 32)
        chk.ob("H3.nibble", "nibble(%r)" % ch, got == int(ch, 16), "nibble(%r) = %d, expected %d" % (ch, got, int(ch, 16)), nb.loc, nb.name)
    for v in range(16):
        got = eval_fn(nb, m, eval_fn(hc, m, v) if hc is not None else ord(want[v]))
        chk.ob("H3.round-trip", "nibble(hexchar(%d))" % v, got == v, "nibble(digit %d) = %d" % (v, got), nb.loc, nb.name)


# ---------------------------------------------------------------------------------------------
# H4: dump structure
# ---------------------------------------------------------------------------------------------

def fmt_string(m, e):
    if e[0] == "g":
        g = m.globals.get(e[1])
        if g and g.get("init", {}).get("k") == "cdata":
            return "".join(chr(c) for c in g["init"]["elems"] if c)
    return None


def analyse_flat_dumper(chk, m, fn, szarg, parg):
    """A dump written as ONE loop over the byte index: proved by induction over the loop, for every size.
    Shape required: i starts at 0, each iteration prints exactly the pair of byte p[i] and increments i by one, the loop
    runs while i < size, nothing is printed after the loop, the function returns size.  Decided with BDDs over (i, size):
    a newline follows byte i exactly when (i mod 16 == 15) or (i + 1 == size).  Returns True if the idiom applied."""
    from ..domains.bdd import BDD, BV
    from ..domains.bvexec import expr_bv, Top
    heads = sorted(fn.loops_headers())
    if len(heads) != 1:
        return False
    H = heads[0]
    segs = [(s0, p) for s0, p in paths.enumerate_segments(fn, m) if p.end != "unreachable"]
    entry = [p for s0, p in segs if s0 == fn.entry.name]
    body = [p for s0, p in segs if s0 == H and p.end == "cut:" + H]
    exits = [p for s0, p in segs if s0 == H and p.end == "ret"]
    if len(entry) != 1 or not body or not exits or entry[0].end != "cut:" + H:
        return False
    car = entry[0].carried
    ivars = [k for k, v in car.items() if v[0] == "c" and v[2] == 0]
    if len(ivars) != 1 or len(car) != 1:
        return False
    iv = ("sym", ivars[0])
    bits = car[ivars[0]][1]

    def out_units(p):
        u = []
        for e in p.events:
            if e.kind == "call" and isinstance(e.callee, str) and not e.callee.startswith("llvm."):
                if e.callee == "fprintf":
                    s_ = fmt_string(m, e.args[1])
                    u.append(("pair", e, (e.args[2], e.args[3])) if s_ == "%c%c" and len(e.args) == 4 else ("nl", e, None) if s_ == "\n" else ("other", e, None))
                elif e.callee in ("fputc", "putc", "fputc_unlocked", "putc_unlocked") and len(e.args) == 2:
                    c_ = strip_casts(e.args[0])
                    if c_[0] == "c":
                        u.append(("nl", e, None) if c_[2] & 0xff == 10 else ("other", e, None))
                    elif u and u[-1][0] == "char":
                        u[-1] = ("pair", u[-1][1], (u[-1][2], e.args[0]))      # two single characters in a row: one pair
                    else:
                        u.append(("char", e, e.args[0]))
                elif e.callee in paths.pure_functions(m):
                    continue
                else:
                    u.append(("other", e, None))
        return [(k if k != "char" else "other", e, x) for k, e, x in u]
    if out_units(entry[0]) or any(out_units(p) for p in exits):
        return False
    B = BDD()
    bv = BV(B)
    I = [B.var(2 * k) for k in range(bits)]
    S = [B.var(2 * k + 1) for k in range(bits)]

    def atom(x):
        if x == iv:
            return I
        if x == ("arg", szarg):
            return S
        return None

    def pc_of(p):
        pc = 1
        for c, taken, inst in p.conds:
            if inst is not None and inst.op == "switch":
                raise Top("switch")
            v = expr_bv(c, bv, atom)
            bit = 0
            for x in v:
                bit = B.OR(bit, x)
            pc = B.AND(pc, bit if taken else B.NOT(bit))
        return pc
    name = fn.name
    try:
        inloop = bv.ult(I, S)
        nl = 0
        cover = 0
        for p in body:
            u = out_units(p)
            kinds = [k for k, e, x in u]
            pid = "%s segment %s" % (name, "->".join(b.lstrip("%") for b in p.blocks))[:140]
            if kinds not in (["pair"], ["pair", "nl"]):
                chk.ob("H4.flat-loop", pid, False, "an iteration prints %s: exactly one pair, optionally followed by a newline, is expected" % kinds,
                       fn.loc, name)
                return True
            # the pair printed is byte p[i]
            e = u[0][1]
            hi_x, lo_x = u[0][2]
            lds = set(x for arg in (hi_x, lo_x) for x in paths.subexprs(arg) if x[0] == "ld" and ptr_parts(x[1])[0][0] != "g")
            want_ptr = paths.mkptr(("arg", parg), 0, ((iv, 1),))
            okb = bool(lds) and all(x[1] == want_ptr and x[2] == 1 for x in lds)
            digits_ok = okb
            bad = None
            if okb:
                for v in range(256):
                    env = paths.LazyEnv(m, {x: v for x in lds})
                    try:
                        a_, b_ = paths.eval_concrete(hi_x, env) & 0xff, paths.eval_concrete(lo_x, env) & 0xff
                    except paths.NoValue:
                        digits_ok = None
                        break
                    if (a_, b_) != (ord("0123456789abcdef"[v >> 4]), ord("0123456789abcdef"[v & 15])):
                        digits_ok, bad = False, "byte 0x%02x is printed as %r%r" % (v, chr(a_), chr(b_))
                        break
            if digits_ok is None:
                chk.unknown("H4.pair-order", pid, "printed characters not evaluable", fn.loc)
            else:
                chk.ob("H4.pair-order", pid, bool(digits_ok),
                       "iteration i prints the two hex digits of byte p[i] for all 256 byte values" if digits_ok else
                       "iteration i must print the two hex digits of p[i]: %s" % (bad or "the bytes read are not p[i]"), fn.loc, name)
            # i advances by one
            nxt = p.carried.get(ivars[0])
            step_ok = nxt is not None and strip_casts(nxt) == ("b", "add", bits, iv, ("c", bits, 1))
            chk.ob("H4.flat-loop", pid + " step", step_ok, "the index advances by exactly one per printed byte", fn.loc, name)
            pc = pc_of(p)
            cover = B.OR(cover, pc)
            if kinds == ["pair", "nl"]:
                nl = B.OR(nl, pc)
        exit_pc = 0
        for p in exits:
            exit_pc = B.OR(exit_pc, pc_of(p))
            r = p.ret
            chk.ob("H4.returns-size", "%s exit" % name, r is not None and strip_casts(r) == ("arg", szarg),
                   "returns the original size (got %s)" % fmt(r)[:40], p.ret_inst.loc, name)
    except (Top, KeyError, IndexError, TypeError) as t:
        chk.unknown("H4.flat-loop", name, "loop conditions outside the bit-vector fragment: %s" % t, fn.loc)
        return True

    def show(f):
        a = B.sat_one(f) or {}
        return "i=%d size=%d" % (sum((1 << k) for k in range(bits) if a.get(2 * k)), sum((1 << k) for k in range(bits) if a.get(2 * k + 1)))
    # the loop continues exactly while i < size (so bytes 0..size-1 are printed, each once, in order)
    bad = B.OR(B.AND(inloop, B.NOT(cover)), B.AND(B.NOT(inloop), cover))
    bad2 = B.OR(B.AND(B.NOT(inloop), B.NOT(exit_pc)), B.AND(inloop, exit_pc))
    chk.ob("H4.all-bytes-dumped", name, bad == 0 and bad2 == 0,
           "an iteration runs exactly while i < size and the function returns exactly when i >= size (every size)" if bad == 0 and bad2 == 0
           else "the loop does not run exactly while i < size, e.g. %s" % show(bad if bad != 0 else bad2), fn.loc, name)
    low = bv.AND(I, bv.const(15, bits))
    want = B.OR(bv.eq(low, bv.const(15, bits)), bv.eq(bv.add(I, bv.const(1, bits)), S))
    bad = B.AND(inloop, B.XOR(B.AND(nl, inloop), B.AND(want, inloop)))
    chk.ob("H4.newlines", name, bad == 0,
           "a newline follows byte i exactly when i mod 16 == 15 or i is the last byte: lines of at most 16 pairs, the last line "
           "terminated, no empty line (all i < size)" if bad == 0 else "newline placement differs from (i mod 16 == 15 or i + 1 == size) at %s" % show(bad),
           fn.loc, name)
    chk.ob("H4.line-limit", name, bad == 0, "at most 16 pairs per line (from the newline rule)", fn.loc, name)
    return True


def analyse_dumper(chk, m, fn, depth=0, top=True):
    """Check one function that dumps `size` bytes starting at `ptr` to a FILE*. Returns True if analysed."""
    chk.note_fn(fn)
    int_args = [i for i, a in enumerate(fn.args) if a.ty in ("i64", "i32")]
    ptr_args = [i for i, a in enumerate(fn.args) if a.ty == "i8*"]
    if not int_args or not ptr_args:
        chk.unknown("H4.dump-structure", fn.name, "not a (FILE*, bytes, size) dumper")
        return False
    szarg, parg = int_args[-1], ptr_args[0]
    if top and analyse_flat_dumper(chk, m, fn, szarg, parg):
        return True
    ps = paths.enumerate_paths(fn, m, loop_bound=2, max_paths=20000)
    n_checked = 0
    MAXSZ = 80
    for p in ps:
        if paths.is_assert_fail_path(p):
            continue
        truncated = any(v >= 2 for v in p.edge_count.values())
        units = []          # ('pair', event, hi, lo) | ('call', event, n expr) | ('nl', event)
        unknown_call = None
        # the characters written on this path, in order, whichever stdio call carries them
        stream = []         # (expression of the character | ('c', 8, code), event)
        farg = [i for i, a in enumerate(fn.args) if a.ty.startswith("%struct._IO_FILE") or "FILE" in a.ty]
        file_ok = lambda x: not farg or strip_casts(x) == ("arg", farg[0])

        def chars_at(ptr, n, k_ev):
            """the n characters at ptr when event k_ev runs: a string literal, or a local array filled by stores on this path"""
            root, off, var = ptr_parts(ptr)
            if var:
                return None
            if root[0] == "g":
                g = m.globals.get(root[1])
                if g and g.get("init", {}).get("k") == "cdata" and off + n <= len(g["init"]["elems"]):
                    return [("c", 8, c) for c in g["init"]["elems"][off:off + n]]
                return None
            out = []
            for j in range(n):
                want = paths.mkptr(root, off + j)
                st = [e2 for e2 in p.events[:k_ev] if e2.kind == "store" and e2.ptr == want]
                if not st:
                    return None
                out.append(st[-1].val)
            return out
        for k_ev, e in enumerate(p.events):
            if e.kind != "call" or not isinstance(e.callee, str) or e.callee.startswith("llvm."):
                continue
            got = None
            if e.callee == "fprintf" and file_ok(e.args[0]):
                s_ = fmt_string(m, e.args[1])
                if s_ is not None:
                    got, rest, j = [], list(e.args[2:]), 0
                    while j < len(s_) and got is not None:
                        if s_[j] == "%" and s_[j + 1:j + 2] == "c" and rest:
                            got.append(rest.pop(0))
                            j += 2
                        elif s_[j] == "%":
                            got = None
                        else:
                            got.append(("c", 8, ord(s_[j])))
                            j += 1
                if got is None:
                    unknown_call = "fprintf(%r)" % s_
                    continue
            elif e.callee in ("fputc", "putc", "fputc_unlocked", "putc_unlocked", "_IO_putc") and file_ok(e.args[1]):
                got = [e.args[0]]
            elif e.callee == "fputs" and file_ok(e.args[1]):
                s_ = fmt_string(m, e.args[0])
                got = [("c", 8, ord(c)) for c in s_] if s_ is not None else None
            elif e.callee in ("fwrite", "fwrite_unlocked") and file_ok(e.args[3]) and e.args[1][0] == "c" and e.args[2][0] == "c":
                got = chars_at(e.args[0], e.args[1][2] * e.args[2][2], k_ev)
            elif e.callee in paths.pure_functions(m):
                continue
            elif m.has_fn(e.callee) and depth == 0:
                g = m.functions[e.callee]
                gi = [i for i, a in enumerate(g.args) if a.ty in ("i64", "i32")]
                if not gi:
                    unknown_call = e.callee
                else:
                    stream.append((("helper", e.args[gi[-1]]), e))
                continue
            if got is None:
                unknown_call = unknown_call or e.callee
                continue
            stream += [(c_, e) for c_ in got]
        pend = None
        for c_, e in stream:
            if c_[0] == "helper":
                if pend is not None:
                    unknown_call = unknown_call or "half a pair before a call of %s" % e.callee
                units.append(("call", e, c_[1]))
            elif c_[0] == "c" and c_[2] == 10 and pend is None:
                units.append(("nl", e))
            elif pend is None:
                pend = (c_, e)
            else:
                units.append(("pair", pend[1], pend[0], c_))
                pend = None
        if pend is not None and not truncated:
            unknown_call = unknown_call or "an odd number of characters is written on this path"
        if unknown_call:
            chk.unknown("H4.dump-structure", fn.name, "call of %s is not modelled" % unknown_call)
            return False
        n_checked += 1
        npairs = sum(1 for u in units if u[0] == "pair")
        pid = "%s path %s" % (fn.name, "->".join(b.lstrip("%") for b in p.blocks))[:150]
        # pair order: consecutive bytes from the current pointer
        okp = True
        bad_pair = None
        k = 0
        for u in units:
            if u[0] != "pair":
                continue
            e = u[1]
            arg_hi, arg_lo = u[2], u[3]

            # decided over all 256 byte values: the two characters printed for byte k are the hex digits of its high and low
            # nibble (hexchar and any conversion on the way are evaluated as written, sign extension included)
            want_ptr = paths.mkptr(("arg", parg), k)
            byte_lds = set(x for arg in (arg_hi, arg_lo) for x in paths.subexprs(arg)
                           if x[0] == "ld" and ptr_parts(x[1])[0][0] != "g")
            if any(x[1] != want_ptr or x[2] != 1 for x in byte_lds) or not byte_lds:
                okp = False
                bad_pair = bad_pair or "pair %d does not print byte %d" % (k, k)
            else:
                class Env(dict):
                    def __contains__(self, x):
                        if dict.__contains__(self, x):
                            return True
                        if x[0] == "call" and isinstance(x[1], str) and m.has_fn(x[1]) and x[1] in paths.pure_functions(m):
                            self[x] = paths.eval_pure_call(m, x[1], [paths.eval_concrete(a_, self) for a_ in x[2]])
                            return True
                        if x[0] == "ld" and ptr_parts(x[1])[0][0] == "g":
                            tv = paths.const_table_load(m, x, self)
                            if tv is not None:
                                self[x] = tv
                                return True
                        return False
                for v in range(256):
                    env = Env({x: v for x in byte_lds})
                    try:
                        ca_, cb_ = paths.eval_concrete(arg_hi, env) & 0xff, paths.eval_concrete(arg_lo, env) & 0xff
                    except paths.NoValue as nv:
                        okp = None
                        bad_pair = "pair argument not evaluable: %s" % fmt(nv.args[0])[:60]
                        break
                    if (ca_, cb_) != (ord("0123456789abcdef"[v >> 4]), ord("0123456789abcdef"[v & 15])):
                        okp = False
                        bad_pair = bad_pair or "byte 0x%02x is printed as %r%r" % (v, chr(ca_), chr(cb_))
                        break
            k += 1
        if npairs and not any(u[0] == "call" for u in units):
            if okp is None:
                chk.unknown("H4.pair-order", pid, bad_pair, fn.loc)
            else:
                chk.ob("H4.pair-order", pid, okp,
                       "pair k prints the two lower-case hex digits of byte k, high nibble first, for all 256 byte values" if okp
                       else "pair k must print the two hex digits of byte k: %s" % bad_pair, fn.loc, fn.name)
        # a complete path whose conditions (functions of the size alone) hold for no size at all is infeasible: skip it
        if not truncated:
            anyfeas, decidable = False, True
            for v in range(0, MAXSZ + 1):
                env = {("arg", szarg): v}
                try:
                    if all(paths.cond_holds(cd, env) for cd in p.conds):
                        anyfeas = True
                        break
                except NoValue:
                    decidable = False
                    break
            if decidable and not anyfeas:
                n_checked -= 1
                continue
        if top:
            run_ = 0
            ok_nl = True
            seq = "".join("P" if u[0] == "pair" else "N" if u[0] == "nl" else "C" for u in units)
            for c in seq:
                if c == "P":
                    run_ += 1
                    if run_ > 16:
                        ok_nl = False
                elif c == "N":
                    run_ = 0
            if "C" not in seq:
                if npairs and not seq.endswith("N") and not truncated:
                    ok_nl = False
                chk.ob("H4.newlines", pid, ok_nl, "at most 16 pairs per line and a newline after the last (partial) line: %s" % seq[:60],
                       fn.loc, fn.name)
        if truncated:
            continue
        # the function returns only when nothing remains: for every size for which this complete path is feasible,
        # the bytes consumed on the path equal the size
        verdict = None
        for v in range(0, MAXSZ + 1):
            env = {("arg", szarg): v}
            feas = True
            for cd in p.conds:
                try:
                    holds = paths.cond_holds(cd, env)
                except NoValue:
                    feas = None
                    break
                if not holds:
                    feas = False
                    break
            if feas is None:
                verdict = "unknown"
                break
            if not feas:
                continue
            consumed = 0
            try:
                for u in units:
                    if u[0] == "pair":
                        consumed += 1
                    elif u[0] == "call":
                        consumed += eval_concrete(u[2], env)
            except NoValue:
                verdict = "unknown"
                break
            if consumed != v:
                verdict = (v, consumed)
                break
            verdict = verdict or "ok"
        if verdict == "unknown":
            chk.unknown("H4.all-bytes-dumped", pid, "path condition is not a function of the size alone", p.ret_inst.loc)
        elif verdict == "ok":
            chk.ob("H4.all-bytes-dumped", pid, True, "returns only when every byte has been printed (sizes 0..%d for which "
                   "this path is taken)" % MAXSZ, p.ret_inst.loc, fn.name)
        elif verdict is not None:
            chk.ob("H4.all-bytes-dumped", pid, False,
                   "with size %d this path returns after printing %d byte(s): %d byte(s) are silently dropped"
                   % (verdict[0], verdict[1], verdict[0] - verdict[1]), p.ret_inst.loc, fn.name)
        if top:
            r = p.ret
            okr = r is not None and strip_casts(r) == ("arg", szarg)
            chk.ob("H4.returns-size", pid, okr, "returns the original size (got %s)" % fmt(r)[:40], p.ret_inst.loc, fn.name)
    # an empty array: nothing is printed and the function returns at once (a complete path exists for size 0 that writes
    # nothing); a line count computed as (size - 1) / 16 + 1 wraps here and walks off the array
    if top:
        empty_ok = None
        for p in ps:
            if paths.is_assert_fail_path(p) or any(v >= 2 for v in p.edge_count.values()):
                continue
            try:
                if all(paths.cond_holds(cd, {("arg", szarg): 0}) for cd in p.conds):
                    outs = [e for e in p.events if e.kind == "call" and isinstance(e.callee, str) and not e.callee.startswith("llvm.")
                            and e.callee not in paths.pure_functions(m)]
                    empty_ok = not outs
                    break
            except NoValue:
                empty_ok = None
                break
        if empty_ok is None:
            chk.ob("H4.empty-input", fn.name, False,
                   "with size 0 no path returns within two rounds of each loop: the function keeps reading (and printing) although "
                   "there is nothing to dump - the byte / line count wraps for an empty array", fn.loc, fn.name)
        else:
            chk.ob("H4.empty-input", fn.name, empty_ok, "with size 0 the function returns without writing anything", fn.loc, fn.name)
    # per-line limit from the loop counter (the unrolling bound cannot see it)
    if top:
        limit = None
        for i in fn.real_insts():
            if i.op == "phi" and i.ty in ("i32", "i64"):
                inc = [v for v, b in i.incoming]
                if any(v.is_const_int() and v.uval == 0 for v in inc):
                    for u in fn.users(i.value):
                        if u.op == "icmp" and any(o.is_const_int() for o in u.ops) and u.ops[0].name == i.name:
                            c = [o for o in u.ops if o.is_const_int()][0].uval
                            limit = c if u.pred in ("slt", "ult") else c + 1 if u.pred in ("sle", "ule") else None
        if limit is not None:
            chk.ob("H4.line-limit", fn.name, limit == 16, "the per-line counter allows %s pairs per line (must be 16)" % limit, fn.loc, fn.name)
        else:
            helper_limit = [u for p in ps for u in [e for e in p.events if e.kind == "call" and m.has_fn(str(e.callee)) and e.callee not in paths.pure_functions(m)]]
            if not helper_limit:
                chk.unknown("H4.line-limit", fn.name, "no per-line counter (phi from 0 compared with a constant) found")
    # helpers called as units must themselves dump exactly their size
    for g in set(u[1].callee for p in ps for u in [("call", e) for e in p.events if e.kind == "call" and isinstance(e.callee, str)
                                                   and m.has_fn(e.callee) and e.callee not in paths.pure_functions(m)
                                                   and e.callee != "fprintf"]):
        if depth == 0:
            analyse_dumper(chk, m, m.functions[g], depth + 1, top=False)
    chk.expect("H4", "paths of %s (unrolled twice)" % fn.name, n_checked, 2)
    return True


def check_dump(chk, m):
    analyse_dumper(chk, m, m.fn("hex_dump_to_file"))


def run(chk):
    chk.explanation = (
        "hex_get_byte is analysed by a forward, edge-sensitive typestate dataflow over its CFG: facts 'pointer is inside "
        "the string', 'byte is not NUL', 'pointer is (non-)NULL' are generated by comparisons with non-zero characters, "
        "ctype class tests, non-NULL strchr results and the API contract for s and *p, and joined by intersection; every "
        "byte load, strchr start and cursor store is an obligation. The -1 / success protocol is checked on every "
        "return edge. hexchar and nibble are evaluated on their whole finite domains. hex_dump_to_file is checked on all "
        "paths with up to two iterations per loop for pair order, line structure and 'returns only when nothing remains'.")
    chk.rule("H1", "every i8 load and strchr start in hex_get_byte is inside the string on every path; every cursor stored to *p is inside the string or NULL")
    chk.rule("H2", "-1 returned only with *p == NULL; success stores the cursor just past the pair and returns 16*nibble(s[0]) | nibble(s[1])")
    chk.rule("H3", "hexchar: 0..15 -> '0'..'9','a'..'f'; nibble: the 22 hex digits -> their value; nibble(hexchar(v)) == v")
    chk.rule("H4", "dump: pair k = hexchar(b>>4), hexchar(b&15) of byte k; <= 16 pairs per line; newline after the last line; returns only when sz - pairs == 0; returns sz")
    chk.assumptions += [
        "API contract: a non-NULL s / *p points into a NUL-terminated string; the string is not modified during the call",
        "glibc's ctype tables give no class bit to NUL (isspace/isxdigit false for 0)",
        "H4's 'nothing remains' obligation is checked on paths with at most two iterations per loop (structural exit conditions), not by induction",
        "termination 'after finitely many calls' is not decided beyond: every call either stores an advanced cursor or NULL",
    ]
    m = build.load_unit("librfn/hex.c")
    chk.note_unit(m)
    check_get_byte(chk, m)
    check_whitespace_class(chk, m)
    check_digit_class(chk, m)
    check_digit_maps(chk, m)
    check_dump(chk, m)
