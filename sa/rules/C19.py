"""C19 - rotary encoder: transition table, state update and latch (finite-set evaluation).

 Q1 for all 16 (last_state, state) pairs the effect on internal_count is +1 on the clockwise cycle
    00->01->11->10->00, -1 on its reverse, 0 on repeats and two-bit jumps (so bounce cancels exactly)
 Q2 last_state := state on every path; count is stored exactly when state == 0, with the floor of
    (internal_count after the update) / 4
 Q3 rotenc_count returns count
NOT decided: the clause about rotenc_count14 (a relation between a live counter and a latched byte
through carries needs the reachable state space; see DESIGN.md observation O1).
"""
from .. import build, paths
from . import rot
from ..ir import AnalysisError
from ..paths import fmt, ptr_parts, strip_casts, eval_concrete, NoValue

CW = {(0, 1), (1, 3), (3, 2), (2, 0)}
CCW = {(b, a) for a, b in CW}


def fields(m):
    tid = m.di_by_name.get("rotenc_t") or m.di_by_name.get("rotenc")
    if not tid:
        raise AnalysisError("anchor vanished: rotenc_t")
    return {p: (o, s) for p, o, s, t in m.di_leaves(tid)}


def run(chk):
    chk.explanation = (
        "rotenc_decode is turned into an exact transition function over ROBDD bit-vectors (all paths, path conditions as "
        "BDDs, constant tables resolved from their initialisers) and compared with the quadrature relation, the state "
        "update and the latch rule for all 16 (last_state, state) pairs x all 2^16 counters x all 2^8 latched counts. The "
        "latch rule is proved under the inductive invariant last_state == 0 -> count == floor(internal_count/4) mod 256, "
        "which the same obligations re-establish. rotenc_count14 is decided only at rest (Q4).")
    chk.rule("Q1", "effect on internal_count per (last_state, state) pair equals the quadrature relation (+1 cw, -1 ccw, 0 otherwise)")
    chk.rule("Q2", "last_state := state on every path; count := floor(internal_count_after / 4) stored exactly when state == 0")
    chk.rule("Q3", "rotenc_count returns the latched count")
    chk.rule("Q4", "rotenc_count14: low byte is the latched count; equals the live position at rest (decided only there)")
    chk.rule("Q6", "rotenc_decode keeps no state outside its rotenc_t argument: no access to a mutable object with static storage")
    chk.assumptions += ["states passed to rotenc_decode are 2-bit values (the property's scope)",
                        "rotenc_count14's agreement with the latched position is NOT decided (needs reachable-state reasoning; "
                        "by inspection it is false next to multiples of 256 clicks - DESIGN.md O1)"]
    chk.not_decided += ["rotenc_count14 agrees with the latched position modulo 2^14 at all times"]
    m = build.load_unit("librfn/rotenc.c")
    chk.note_unit(m)
    if not m.has_fn("rotenc_decode"):
        # rotenc_decode is no longer a function of rotenc.c (a header inline or a macro in front of one): analyse it as a caller
        # sees it - a witness that calls the API name, linked with rotenc.c, everything inlined
        m = build.api_view("c19_api.c", "#include <librfn/rotenc.h>\nvoid w_decode(rotenc_t *r, uint8_t state) { rotenc_decode(r, state); }\n"
                           "uint16_t w_count14(rotenc_t *r) { return rotenc_count14(r); }\n", ["librfn/rotenc.c"], ["w_decode", "w_count14"])
        chk.note_unit(m)
        m.functions["rotenc_decode"] = m.functions["w_decode"]
        m.functions["rotenc_count14"] = m.functions["w_count14"]
    # the API name used with an argument that has a side effect (reading the pins): evaluated once
    from . import macrohyg
    chk.rule("Q7", "rotenc_decode(r, read_pins()) samples the pins exactly once (whatever the header makes of the name)")
    macrohyg.check_single_evaluation(chk, "Q7.single-evaluation", "librfn/rotenc.h", [
        ("rotenc_decode(r, next())", "void w_once(rotenc_t *r, uint8_t (*next)(void)) { rotenc_decode(r, next()); }")])
    fn = m.fn("rotenc_decode")
    chk.note_fn(fn)
    F = fields(m)
    for k in ("internal_count",):
        if k not in F:
            raise AnalysisError("anchor vanished: rotenc_t.%s" % k)
    chk.rule("Q5", "two consecutive calls with states a then b, from ANY object content: the second call moves internal_count by the quadrature step a -> b and latches count exactly at the detent")
    rot.check_two_calls(chk, m, fn, F)
    if "last_state" in F and "count" in F:
        rot.check_decode(chk, m, fn, F)
    else:
        # the decoder no longer stores the previous state under that name: the single-call rules Q1/Q2 (stated over that field)
        # have no anchor; Q5 has decided the same behaviour over two calls
        rot.check_instance_state(chk, m, fn)
    if "count" in F:
        check_q3(chk, fields)
        check_q4(chk, m, F)
    # (without a member called count the same two clauses are decided through the API in Q5: rotenc_count() after arriving at the
    # detent, and rotenc_count14() in that state)


def check_q3(chk, fields):
    # Q3: inline rotenc_count via a witness
    w = build.compile_text("c19_witness.c", "#include <librfn/rotenc.h>\nuint8_t w_count(rotenc_t *r) { return rotenc_count(r); }\n")
    chk.note_unit(w)
    fc = w.functions.get("rotenc_count")
    if fc is None or fc.decl:
        chk.unknown("Q3.count", "rotenc_count", "inline function not emitted")
    else:
        Fw = fields(w)
        for p in paths.enumerate_paths(fc, w):
            r = strip_casts(p.ret) if p.ret else None
            ok = r is not None and r[0] == "ld" and r[1] == paths.mkptr(("arg", 0), Fw["count"][0])
            chk.ob("Q3.count", "rotenc_count", ok, "returns r->count (got %s)" % fmt(p.ret)[:50], fc.loc, fc.name)


def check_q4(chk, m, F):
    """rotenc_count14: two necessary conditions of 'the same latched position modulo 2^14', decided for ALL field values
    in the BDD bit-vector domain: (a) its low 8 bits are the latched count; (b) whenever the live counter agrees with the
    latched count (the encoder rests where it was latched) the reading is (internal_count >> 2) mod 2^14."""
    from ..domains.bdd import BDD, BV
    from ..domains.bvexec import expr_bv, Top
    if not m.has_fn("rotenc_count14"):
        chk.unknown("Q4.count14", "rotenc_count14", "anchor vanished")
        return
    fn = m.functions["rotenc_count14"]
    chk.note_fn(fn)
    ps = paths.enumerate_paths(fn, m)
    bdd = BDD()
    bv = BV(bdd)
    ic = bv.inputs(0, 16)
    cnt = bv.inputs(16, 8)

    def atom(e):
        if e[0] == "ld" and e[1] == paths.mkptr(("arg", 0), F["internal_count"][0]):
            return ic
        if e[0] == "ld" and e[1] == paths.mkptr(("arg", 0), F["count"][0]):
            return cnt
        return None
    res, defined = None, 0
    try:
        for p in ps:
            pc = 1
            for c, taken, inst in p.conds:
                cb = expr_bv(c, bv, atom)[0]
                pc = bdd.AND(pc, cb if taken else bdd.NOT(cb))
            r = bv.trunc(expr_bv(p.ret, bv, atom), 16)
            res = r if res is None else bv.mux(pc, r, res)
    except Top as t:
        chk.unknown("Q4.count14", "rotenc_count14", "outside the bit-vector fragment: %s" % t, fn.loc)
        return
    pos = bv.lshr(ic, 2)
    # (a) low byte
    diff = 0
    for k in range(8):
        diff = bdd.OR(diff, bdd.XOR(res[k], cnt[k]))
    wit = bdd.sat_one(diff) if diff else None

    def val(assign, base, n):
        return sum((1 << k) for k in range(n) if assign.get(base + k))
    chk.ob("Q4.count14-low-byte", "rotenc_count14", diff == 0,
           "the low 8 bits of rotenc_count14 are the latched count for all 2^24 field values" +
           ("" if diff == 0 else "; e.g. internal_count=%d count=%d" % (val(wit, 0, 16), val(wit, 16, 8))), fn.loc, fn.name)
    # (b) at rest: count == (ic >> 2) & 0xff  ==>  result == (ic >> 2) & 0x3fff
    care = bv.eq(cnt, pos[:8])
    want = bv.AND(pos, bv.const(0x3fff, 16))
    d2 = 0
    for k in range(16):
        d2 = bdd.OR(d2, bdd.XOR(res[k], want[k]))
    d2 = bdd.AND(d2, care)
    wit = bdd.sat_one(d2) if d2 else None
    chk.ob("Q4.count14-at-rest", "rotenc_count14", d2 == 0,
           "whenever the live position agrees with the latched count, rotenc_count14 == (internal_count >> 2) mod 2^14 "
           "(all 2^16 counter values)" + ("" if d2 == 0 else "; fails e.g. at internal_count=%d (latched count %d)" %
                                          (val(wit, 0, 16), val(wit, 16, 8))), fn.loc, fn.name)
