"""C12 - pack/unpack: in bounds, sticky failure, fixed byte order.

For every implemented function of pack.c taking an rf_pack_t*, on every path, for every buffer size:
 P1 sticky cursor: the cursor is advanced exactly once, by the item size, before the test, on every path
 P2 guard: the transfer happens exactly when (old cursor + size) <= endp
 P3 guarded transfer: every access through the old cursor lies on a fitting path and inside [0, size)
 P4 failure results: unpackers return 0; unpack_bytes zero-fills a non-NULL destination with exactly
    `size` bytes; NULL source packs zeros; NULL destination skips
 P5 byte order (ByteLane domain): output/input byte i is byte i ('le') / n-1-i ('be') of the value,
    bytes zero-extended before shifting
 P6 init / consumed / remaining formulae
"""
import re

from .. import build, paths
from ..domains.lanes import lanes_of
from ..ir import AnalysisError
from ..paths import fmt, ptr_parts, strip_casts

STRUCT = "rf_pack_t"
NAME_RE = re.compile(r"^rf_(pack|unpack)_(char|bytes|[su](8|16|32)(le|be)?)$")


def fld(ptr, fn, m):
    s, f = paths.field_of(ptr, fn, m)
    return f if s in (STRUCT, "rf_pack") else None


class Rep:
    """How the cursor object represents its position: 'ptr' = {basep, endp, p} (three pointers, position = p) or
    'idx' = {basep, <capacity>, <position>} (a base pointer and two byte counts).  Discovered from rf_pack_init: the field
    given the buffer is the base, the field given base + sz (ptr) / sz (idx) the end / capacity, the field given the buffer
    again (ptr) / 0 (idx) the position."""

    def __init__(self, kind, base, cap, pos):
        self.kind, self.base, self.cap, self.pos = kind, base, cap, pos


_rep_cache = {}


def discover_rep(m):
    key = id(m)
    if key in _rep_cache:
        return _rep_cache[key]
    if not m.has_fn("rf_pack_init"):
        raise AnalysisError("anchor vanished: rf_pack_init")
    fn = m.functions["rf_pack_init"]
    ps = paths.enumerate_paths(fn, m)
    if len(ps) != 1:
        raise AnalysisError("rf_pack_init is not straight-line")
    vals = {}
    for e in ps[0].events:
        if e.kind == "store" and fld(e.ptr, fn, m):
            vals[fld(e.ptr, fn, m)] = strip_casts(e.val)
    # a member that nothing but itself (and its accessor) ever depends on is a statistic, not part of the representation
    from .purity import write_only_member
    stats = [k for k, v in vals.items() if v[0] == "c" and write_only_member(m, ("rf_pack_t", "rf_pack"), k)]
    for k in stats:
        del vals[k]
    buf = [k for k, v in vals.items() if v == ("arg", 1)]
    zero = [k for k, v in vals.items() if v[0] == "c" and v[2] == 0]
    size = [k for k, v in vals.items() if v == ("arg", 2)]
    end = [k for k, v in vals.items() if v[0] == "p" and v[1] == ("arg", 1)]
    if len(buf) == 2 and len(end) == 1 and not zero and not size:
        pos = "p" if "p" in buf else sorted(buf)[-1]
        rep = Rep("ptr", [b for b in buf if b != pos][0], end[0], pos)
    elif len(buf) == 1 and len(zero) == 1 and len(size) == 1:
        rep = Rep("idx", buf[0], size[0], zero[0])
    else:
        raise AnalysisError("rf_pack_t's representation is not recognised (rf_pack_init stores: %s)" %
                            ", ".join("%s := %s" % (k, fmt(v)[:30]) for k, v in sorted(vals.items())))
    _rep_cache[key] = rep
    return rep


def is_pack_fn(fn):
    return bool(fn.args) and fn.args[0].ty in ("%struct.rf_pack*",)


def norm_fits(c, taken):
    """Normalise a branch condition to ('fits', lhs, rhs) meaning lhs <= rhs holds on this edge,
    ('nofit', lhs, rhs) meaning lhs > rhs, or ('strict', ...) for < / >= forms; None if not a pointer compare."""
    c = strip_casts(c)
    if c[0] != "icmp":
        return None
    pred, a, b = c[1], c[2], c[3]
    if pred not in ("ule", "ugt", "uge", "ult"):
        return None
    if pred in ("uge", "ult"):      # a >= b  == b <= a ; a < b == b > a
        pred = {"uge": "ule", "ult": "ugt"}[pred]
        a, b = b, a
    # now pred in ule (a <= b) / ugt (a > b)
    le = (pred == "ule") == bool(taken)
    return ("fits" if le else "nofit", a, b)


def guard_semantics(p, P0, A, k_adv, SZ, fn, m):
    """Decide whether the branch conditions of path p imply 'the item fits' (size <= endp - old cursor), imply the
    opposite, or neither.  Pointers are modelled as 64-bit signed offsets from the old cursor (objects do not wrap the
    address space); everything after ptrtoint / pointer difference is bit-precise.  Quantified over every room
    r = endp - old cursor with |r| < 2^31 (the cursor may already be beyond the end) and every size below 2^31.
    -> ('fits' | 'nofit' | 'mixed' | None, text, loc)"""
    from ..domains.bdd import BDD, BV
    from ..domains.bvexec import expr_bv, Top
    B = BDD()
    bv = BV(B)
    R = [B.var(2 * i) if i < 32 else B.var(64 + i) for i in range(64)]
    SZV = [B.var(2 * i + 1) for i in range(32)]
    if SZ[0] == "const":
        szv = bv.const(SZ[1], 32)
        sz_atom = None
    else:
        szv = SZV
        sz_atom = strip_casts(SZ[1][0][0])
    sz64 = bv.zext(szv, 64)
    adv_seq = None

    def is_fld_ld(x, name):
        return x[0] == "ld" and fld(x[1], fn, m) == name

    def off_of(x):
        """64-bit offset vector of a pointer expression relative to the old cursor, or None"""
        x0 = x
        x = strip_casts(x) if x[0] == "cast" and x[1] in ("bitcast", "ptrtoint", "inttoptr") else x
        if x == P0:
            return bv.const(0, 64)
        if x == A.val:
            return sz64
        if is_fld_ld(x, "endp"):
            return R
        if is_fld_ld(x, "p"):
            # a later load of the cursor: the engine forwards the stored value, so an unforwarded load is the old cursor
            return bv.const(0, 64) if x[1] == P0[1] else None
        if x[0] == "p":
            base = off_of(x[1])
            if base is None:
                return None
            v = bv.add(base, bv.const(x[2] & ((1 << 64) - 1), 64))
            for ve, sc in x[3]:
                t = conv(ve)
                if t is None:
                    return None
                t = bv.sext(t, 64) if len(t) < 64 else t
                v = bv.add(v, bv.mul(t, bv.const(sc, 64)))
            return v
        return None

    def atom(x):
        if x[0] == "cast" and x[1] == "ptrtoint":
            o = off_of(x[4])
            # (on a 32-bit target the address is a 32-bit integer: the offset model is narrowed with it)
            return bv.trunc(o, m.ptr_size * 8) if o is not None and m.ptr_size < 8 else o
        if x[0] in ("ld", "p"):
            o = off_of(x)
            if o is not None:
                return o
        if sz_atom is not None and x == sz_atom:
            return szv
        if x[0] == "icmp":
            a, b = off_of(x[2]), off_of(x[3])
            if a is not None and b is not None:
                pr = {"ule": "sle", "ult": "slt", "ugt": "sgt", "uge": "sge"}.get(x[1], x[1])
                BB = bv.b
                return [{"eq": lambda: bv.eq(a, b), "ne": lambda: BB.NOT(bv.eq(a, b)), "slt": lambda: bv.slt(a, b),
                         "sgt": lambda: bv.slt(b, a), "sle": lambda: BB.NOT(bv.slt(b, a)), "sge": lambda: BB.NOT(bv.slt(a, b))}[pr]()]
        if x[0] == "call" and x[1] == "rf_pack_remaining" and len(x) > 3:
            # int rf_pack_remaining(): endp - cursor at the moment of the call, narrowed to int
            ks = [k for k, e in enumerate(p.events) if e.kind == "call" and e.res == x]
            if ks:
                cur = bv.const(0, 64) if ks[0] < k_adv else sz64
                return bv.trunc(bv.sub(R, cur), 32)
        return None

    def conv(x):
        try:
            return expr_bv(x, bv, atom)
        except (Top, KeyError, IndexError, TypeError):
            return None

    # |r| < 2^31: the property's scope (buffer and total requested bytes below 2^31; the library's own accounting,
    # rf_pack_remaining / rf_pack_consumed, is an int)
    lim = bv.const(1 << 31, 64)
    dom = B.AND(bv.slt(R, lim), bv.slt(bv.sub(bv.const(0, 64), lim), R))
    dom = B.AND(dom, bv.ult(sz64, lim))        # "total requested bytes below 2^31"
    fits = B.NOT(bv.slt(R, sz64))
    pc = dom
    used = []
    for c, taken, inst in p.conds:
        if not paths.contains(c, lambda x: (x[0] == "ld" and fld(x[1], fn, m) in ("endp", "p")) or
                              (x[0] == "call" and x[1] == "rf_pack_remaining")):
            continue
        if inst is not None and getattr(inst, "op", None) == "switch":
            return None, "switch on a cursor-dependent value is not modelled", inst.loc
        v = conv(c)
        if v is None:
            return None, "guard %s is outside the modelled fragment" % fmt(c)[:100], inst.loc if inst else None
        bit = v[0]
        for extra in v[1:]:
            pass
        if len(v) > 1:
            nz = 0
            for x in v:
                nz = B.OR(nz, x)
            bit = nz
        pc = B.AND(pc, bit if taken else B.NOT(bit))
        used.append((c, taken, inst))
    gloc = used[-1][2].loc if used and used[-1][2] is not None else None
    if pc == 0:
        return None, "path conditions on the cursor are contradictory (infeasible path)", gloc
    yes, no = B.AND(pc, fits), B.AND(pc, B.NOT(fits))

    def show(f):
        asg = B.sat_one(f) or {}
        r = sum((1 << i) for i in range(64) if asg.get(2 * i if i < 32 else 64 + i))
        if r >> 63:
            r -= 1 << 64
        z = sum((1 << i) for i in range(32) if asg.get(2 * i + 1)) if SZ[0] != "const" else SZ[1]
        return "room endp-cursor = %d, size = %d" % (r, z)
    if yes != 0 and no != 0:
        return "mixed", ("the branch taken here does not decide whether the item fits: the path runs when it fits (%s) and "
                         "when it does not (%s)%s" % (show(yes), show(no), "" if used else "; no condition on this path involves the cursor and endp")), gloc
    if no == 0:
        return "fits", "path conditions imply size <= endp - old cursor for every room and size (BDD, %d nodes)" % B.size(), gloc
    return "nofit", "path conditions imply size > endp - old cursor for every room and size (BDD, %d nodes)" % B.size(), gloc


def guard_semantics_idx(p, U0, A, k_adv, SZ, fn, m, rep):
    """As guard_semantics, for the index representation: the path conditions are Boolean functions of the old position,
    the capacity and the size (unsigned, as wide as the fields); 'fits' is position + size <= capacity as integers.
    Quantified over capacity, position and size below 2^31 each (the property's scope: the position keeps counting past
    the capacity)."""
    from ..domains.bdd import BDD, BV
    from ..domains.bvexec import expr_bv, Top
    B = BDD()
    bv = BV(B)
    W = 64
    POS = [B.var(3 * i) for i in range(32)]
    CAP = [B.var(3 * i + 1) for i in range(32)]
    SZV = [B.var(3 * i + 2) for i in range(32)]
    if SZ[0] == "const":
        szv = bv.const(SZ[1], 32)
        sz_atom = None
    else:
        szv = SZV
        sz_atom = strip_casts(SZ[1][0][0])

    def width_of(x):
        return x[2] * 8 if x[0] == "ld" else 32

    def atom(x):
        if x[0] == "ld":
            f = fld(x[1], fn, m)
            if f == rep.pos:
                return bv.zext(POS, width_of(x)) if x == U0 or x[1] == U0[1] else None
            if f == rep.cap:
                return bv.zext(CAP, width_of(x))
        if x == A.val:
            w = paths.expr_bits(x) or 32
            return bv.add(bv.zext(POS, w), bv.zext(szv, w))
        if sz_atom is not None and x == sz_atom:
            return szv
        if x[0] == "call" and x[1] in ("rf_pack_remaining", "rf_pack_consumed") and len(x) > 3:
            ks = [k for k, e in enumerate(p.events) if e.kind == "call" and e.res == x]
            if ks:
                cur = bv.zext(POS, 64) if ks[0] < k_adv else bv.add(bv.zext(POS, 64), bv.zext(szv, 64))
                v = bv.sub(bv.zext(CAP, 64), cur) if x[1] == "rf_pack_remaining" else cur
                return bv.trunc(v, 32)
        return None

    def conv(x):
        try:
            return expr_bv(x, bv, atom)
        except (Top, KeyError, IndexError, TypeError):
            return None
    lim = bv.const(1 << 31, 32)
    dom = B.AND(B.AND(bv.ult(POS, lim), bv.ult(CAP, lim)), bv.ult(szv, lim))
    need = bv.add(bv.zext(POS, 64), bv.zext(szv, 64))
    fits = B.NOT(bv.ult(bv.zext(CAP, 64), need))
    pc = dom
    used = []
    for c, taken, inst in p.conds:
        if not paths.contains(c, lambda x: (x[0] == "ld" and fld(x[1], fn, m) in (rep.cap, rep.pos)) or x == A.val or
                              (x[0] == "call" and x[1] in ("rf_pack_remaining", "rf_pack_consumed"))):
            continue
        if inst is not None and getattr(inst, "op", None) == "switch":
            return None, "switch on a cursor-dependent value is not modelled", inst.loc
        v = conv(c)
        if v is None:
            return None, "guard %s is outside the modelled fragment" % fmt(c)[:100], inst.loc if inst else None
        bit = 0
        for x in v:
            bit = B.OR(bit, x)
        pc = B.AND(pc, bit if taken else B.NOT(bit))
        used.append((c, taken, inst))
    gloc = used[-1][2].loc if used and used[-1][2] is not None else None
    if pc == 0:
        return None, "path conditions on the cursor are contradictory (infeasible path)", gloc
    yes, no = B.AND(pc, fits), B.AND(pc, B.NOT(fits))

    def show(f):
        asg = B.sat_one(f) or {}
        g = lambda k: sum((1 << i) for i in range(32) if asg.get(3 * i + k))
        return "position = %d, capacity = %d, size = %d" % (g(0), g(1), g(2) if SZ[0] != "const" else SZ[1])
    if yes != 0 and no != 0:
        return "mixed", ("the branch taken here does not decide whether the item fits: the path runs when it fits (%s) and "
                         "when it does not (%s)%s" % (show(yes), show(no), "" if used else "; no condition on this path involves the position and the capacity")), gloc
    if no == 0:
        return "fits", "path conditions imply position + size <= capacity for every position, capacity and size (BDD, %d nodes)" % B.size(), gloc
    return "nofit", "path conditions imply position + size > capacity for every position, capacity and size (BDD, %d nodes)" % B.size(), gloc


def check_transfer(chk, m, fn):
    rep = discover_rep(m)
    name = fn.name
    mt = NAME_RE.match(name)
    ps = [p for p in paths.enumerate_paths(fn, m) if not paths.is_assert_fail_path(p)]
    P0 = None
    n_fit = 0
    for p in ps:
        pathid = "%s path %s" % (name, "->".join(b.lstrip("%") for b in p.blocks))
        adv = [e for e in p.events if e.kind == "store" and fld(e.ptr, fn, m) == rep.pos]
        deleg = [e for e in p.events if e.kind == "call" and isinstance(e.callee, str)
                 and NAME_RE.match(e.callee) and e.args and e.args[0] == ("arg", 0)]
        if not adv and deleg:
            ok = len(deleg) == 1
            chk.ob("P1.single-advance", pathid, ok,
                   "item is transferred by %d separately guarded calls (%s): with fewer bytes left than the whole "
                   "item the first part is transferred and only the rest refused" %
                   (len(deleg), ", ".join(e.callee for e in deleg)) if not ok else
                   "delegates the whole item to %s" % deleg[0].callee, deleg[0].inst.loc, name)
            if ok:
                n_fit += 1
            if ok and mt and NAME_RE.match(deleg[0].callee):
                a, b = mt.group(2), NAME_RE.match(deleg[0].callee).group(2)
                same = a[1:] == b[1:] and mt.group(1) == NAME_RE.match(deleg[0].callee).group(1)
                if not same:
                    chk.unknown("P5.byte-order", pathid, "delegation to %s with a different layout is not modelled" % deleg[0].callee,
                                deleg[0].inst.loc)
            continue
        if len(adv) != 1:
            chk.ob("P1.single-advance", pathid, False,
                   "the cursor is advanced %d times on this path (every call must count its requested bytes exactly "
                   "once, also when the item does not fit: that is what makes failure sticky and visible in "
                   "rf_pack_consumed/remaining)" % len(adv), (adv[0].inst if adv else p.ret_inst).loc, name)
            continue
        A = adv[0]
        k_adv = p.events.index(A)
        if rep.kind == "idx":
            av = strip_casts(A.val)
            root = off = var = None
            if av[0] == "b" and av[1] == "add":
                for x, y in ((av[3], av[4]), (av[4], av[3])):
                    xs = strip_casts(x)
                    if xs[0] == "ld" and fld(xs[1], fn, m) == rep.pos:
                        root = xs
                        ys = strip_casts(y)
                        off, var = (ys[2], ()) if ys[0] == "c" else (0, ((y, 1),))
            if root is None:
                chk.ob("P1.advance-form", pathid, False, "new position %s is not old position + size" % fmt(A.val)[:80], A.inst.loc, name)
                continue
            base_ld = [e.val for e in p.events if e.kind == "load" and fld(e.ptr, fn, m) == rep.base]

            def item(ptr, root=root, base_ld=base_ld):
                """(offset, variable part) of a pointer into the item (base + old position + offset), else None"""
                r, o, v = ptr_parts(ptr)
                if r in base_ld and v and strip_casts(v[0][0]) == root and v[0][1] == 1:
                    return o, tuple(v[1:])
                return None
        else:
            root, off, var = ptr_parts(A.val)
            ok_form = root[0] == "ld" and fld(root[1], fn, m) == rep.pos
            if not ok_form:
                chk.ob("P1.advance-form", pathid, False, "new cursor %s is not old cursor + size" % fmt(A.val)[:80], A.inst.loc, name)
                continue

            def item(ptr, root=root):
                r, o, v = ptr_parts(ptr)
                return (o, v) if r == root else None
        P0 = root
        if var:
            SZ = ("var", var)
            sz_desc = "+".join("%s*%d" % (fmt(v), s) for v, s in var) + ("%+d" % off if off else "")
            sz_ok = off == 0 and len(var) == 1 and var[0][1] == 1 and strip_casts(var[0][0])[0] == "arg"
        else:
            SZ = ("const", off)
            sz_desc = str(off)
            sz_ok = off > 0
        chk.ob("P1.single-advance", pathid, sz_ok, "cursor advanced once by %s" % sz_desc, A.inst.loc, name)
        # accesses through the old cursor
        acc = [(k, e) for k, e in enumerate(p.events) if e.kind in ("load", "store", "memcpy", "memset")
               and e.ptr is not None and item(e.ptr) is not None]
        src_acc = [(k, e) for k, e in enumerate(p.events) if e.kind == "memcpy" and item(e.val) is not None]
        early = [e for k, e in acc + src_acc if k < k_adv]
        chk.ob("P1.advance-before-access", pathid, not early,
               "the advance precedes every payload access" + ("" if not early else " (access at %s precedes it)" % early[0].inst.loc),
               A.inst.loc, name)
        # the guard, decided semantically: under this path's branch conditions the item either always fits
        # (size <= endp - old cursor) or never does
        if rep.kind == "idx":
            verdict, why, gloc = guard_semantics_idx(p, P0, A, k_adv, SZ, fn, m, rep)
        else:
            verdict, why, gloc = guard_semantics(p, P0, A, k_adv, SZ, fn, m)
        if verdict is None:
            chk.unknown("P2.guard", pathid, why, gloc or A.inst.loc)
            continue
        if verdict == "mixed":
            user_null = any(strip_casts(c)[0] == "icmp" and ("arg", 1) in (strip_casts(c)[2], strip_casts(c)[3]) and
                            ("null",) in (strip_casts(c)[2], strip_casts(c)[3]) and ((strip_casts(c)[1] == "eq") == bool(t))
                            for c, t, i in p.conds)
            wr_user0 = [e for e in p.events if e.kind in ("memset", "memcpy", "store") and e.ptr is not None
                        and ptr_parts(e.ptr)[0] == ("arg", 1)]
            if not acc and not src_acc and not wr_user0 and fn.ret_ty == "void" and user_null and mt and mt.group(1) == "unpack":
                chk.ob("P2.guard", pathid, True, "NULL destination: the bytes are skipped (cursor advanced, nothing transferred) whether "
                       "or not they fit", A.inst.loc, name)
                continue
            chk.ob("P2.guard", pathid, False, why, gloc or A.inst.loc, name)
            continue
        chk.ob("P2.guard", pathid, True, why, gloc or A.inst.loc, name)
        kind = verdict
        ginst = [i for c, t, i in p.conds if i is not None and i.loc == gloc][0] if gloc and any(
            i is not None and i.loc == gloc for c, t, i in p.conds) else A.inst
        fits = kind == "fits"
        if fits:
            n_fit += 1
        # a pack operation only reads what the caller hands it: a write through a pointer ARGUMENT of rf_pack_* (the source
        # array) modifies the caller's data
        if name.startswith("rf_pack_"):
            wr = [e for e in p.events if e.kind in ("store", "memcpy", "memset") and e.ptr is not None and
                  ptr_parts(e.ptr)[0][0] == "arg" and ptr_parts(e.ptr)[0] != ("arg", 0)]
            if wr or name == "rf_pack_bytes":
                chk.ob("P3.source-read-only", pathid, not wr,
                       "packing does not write through the source pointer" if not wr else
                       "%s through the caller's source pointer at %s: packing (here: %s) overwrites the data it was asked to pack"
                       % (wr[0].kind, wr[0].inst.loc, "an item that fits" if fits else "an item that does not fit"), (wr[0].inst.loc if wr else ginst.loc), name)
        # P3 accesses
        if not fits:
            chk.ob("P3.no-access-on-overflow", pathid, not acc and not src_acc,
                   "an item that does not fit is not transferred at all" +
                   ("" if not (acc or src_acc) else " (%s through the cursor at %s)" % ((acc or src_acc)[0][1].kind, (acc or src_acc)[0][1].inst.loc)),
                   ginst.loc, name)
        else:
            for k, e in acc:
                o, v = item(e.ptr)
                if e.kind in ("load", "store"):
                    ok = not v and SZ[0] == "const" and 0 <= o and o + e.size <= SZ[1]
                    chk.ob("P3.in-item", "%s %s@+%d" % (pathid, e.kind, o), ok,
                           "%d-byte %s at cursor%+d lies inside the %s-byte item" % (e.size, e.kind, o, sz_desc), e.inst.loc, name)
                else:
                    ln = e.extra
                    same = (SZ[0] == "var" and not v and o == 0 and len(SZ[1]) == 1 and strip_casts(ln) == strip_casts(SZ[1][0][0])) or \
                           (SZ[0] == "const" and ln[0] == "c" and o + ln[2] <= SZ[1] and not v and o >= 0)
                    chk.ob("P3.in-item", "%s %s" % (pathid, e.kind), same,
                           "%s of %s bytes at the cursor; item size %s" % (e.kind, fmt(ln)[:40], sz_desc), e.inst.loc, name)
            for k, e in src_acc:
                o, v = item(e.val)
                ln = e.extra
                same = (SZ[0] == "var" and not v and o == 0 and len(SZ[1]) == 1 and strip_casts(ln) == strip_casts(SZ[1][0][0])) or \
                       (SZ[0] == "const" and ln[0] == "c" and o + ln[2] <= SZ[1] and not v and o >= 0)
                chk.ob("P3.in-item", "%s memcpy-from-cursor" % pathid, same,
                       "memcpy of %s bytes from the cursor; item size %s" % (fmt(ln)[:40], sz_desc), e.inst.loc, name)
        # P4 failure results / NULL handling
        user = ("arg", 1)
        null_cond = None
        for c, taken, inst in p.conds:
            cc = strip_casts(c)
            if cc[0] == "icmp" and cc[1] in ("ne", "eq") and user in (cc[2], cc[3]) and ("null",) in (cc[2], cc[3]):
                null_cond = ((cc[1] == "ne") == bool(taken))     # True: pointer is non-NULL
        if fn.ret_ty != "void":
            if not fits:
                ok = p.ret is not None and p.ret[0] == "c" and p.ret[2] == 0
                chk.ob("P4.zero-on-overflow", pathid, ok, "a value that does not fit unpacks as 0 (returns %s)" % fmt(p.ret)[:40],
                       p.ret_inst.loc, name)
        is_bytes = mt is not None and mt.group(2) == "bytes"
        if is_bytes and len(fn.args) == 3:
            wr_user = [e for e in p.events if e.kind in ("memset", "memcpy") and ptr_parts(e.ptr)[0] == user]
            direction = mt.group(1)
            if direction == "unpack":
                if not fits and null_cond is True:
                    ok = len(wr_user) == 1 and wr_user[0].kind == "memset" and wr_user[0].val == ("c", 8, 0) and \
                        SZ[0] == "var" and strip_casts(wr_user[0].extra) == strip_casts(SZ[1][0][0])
                    chk.ob("P4.zero-fill", pathid, ok,
                           "overflowing unpack_bytes zero-fills exactly the requested bytes of a non-NULL destination",
                           (wr_user[0].inst if wr_user else ginst).loc, name)
                if null_cond is False:
                    chk.ob("P4.null-skips", pathid, not wr_user, "a NULL destination is never written", ginst.loc, name)
                if null_cond is None:
                    chk.ob("P4.zero-fill" if not fits else "P4.null-skips", pathid, False,
                           "the destination is not tested for NULL on this path: an overflowing call must zero-fill a "
                           "non-NULL destination and a NULL destination must be skipped", ginst.loc, name)
                if fits and null_cond is True:
                    ok = len(wr_user) == 1 and wr_user[0].kind == "memcpy" and item(wr_user[0].val) == (0, ())
                    chk.ob("P4.copy", pathid, ok, "fitting unpack_bytes copies from the old cursor to the destination",
                           (wr_user[0].inst if wr_user else ginst).loc, name)
            else:
                wr_buf = [e for k, e in acc if e.kind in ("memset", "memcpy")]
                if fits and null_cond is False:
                    ok = len(wr_buf) == 1 and wr_buf[0].kind == "memset" and wr_buf[0].val == ("c", 8, 0)
                    chk.ob("P4.null-packs-zeros", pathid, ok, "a NULL source packs zeros", (wr_buf[0].inst if wr_buf else ginst).loc, name)
                if fits and null_cond is None:
                    chk.ob("P4.null-packs-zeros", pathid, False,
                           "the source is not tested for NULL on the fitting path (a NULL source must pack zeros)", ginst.loc, name)
                if fits and null_cond is True:
                    ok = len(wr_buf) == 1 and wr_buf[0].kind == "memcpy" and wr_buf[0].val == user
                    chk.ob("P4.copy", pathid, ok, "fitting pack_bytes copies the source to the old cursor", (wr_buf[0].inst if wr_buf else ginst).loc, name)
        # P5 byte order
        if fits and mt and mt.group(2) not in ("bytes",):
            check_byte_order(chk, m, fn, p, pathid, mt, item, SZ)
    return n_fit


def check_byte_order(chk, m, fn, p, pathid, mt, item, SZ):
    name = fn.name
    direction, ty = mt.group(1), mt.group(2)
    if ty == "char":
        width, order, signed = 1, "le", False
    else:
        width = int(mt.group(3)) // 8
        order = mt.group(4) or "le"
        signed = ty[0] == "s"
    if SZ != ("const", width):
        chk.ob("P5.item-size", pathid, False, "item size %s does not match the %d-byte type in the function's name" % (SZ[1], width),
               p.ret_inst.loc, name)
        return
    if direction == "pack":
        stores = {}
        little = str(m.d.get("datalayout", "e")).startswith("e")
        for e in p.events:
            if e.kind == "store" and item(e.ptr) is not None and not item(e.ptr)[1]:
                # a store of n bytes writes n output bytes: on a little-endian target byte j of the stored value goes to offset + j
                nb = e.size or 1
                for j in range(nb):
                    stores[item(e.ptr)[0] + j] = (e, j if little else nb - 1 - j)

        def src_of(x):
            if x == ("arg", 1):
                bits = int(fn.args[1].ty[1:])
                return ("value", bits // 8)
            return None
        for k in range(width):
            e, lane = stores.get(k, (None, 0))
            want = k if order == "le" else width - 1 - k
            if e is None:
                chk.ob("P5.byte-order", "%s byte %d" % (pathid, k), False, "output byte %d is never written" % k, p.ret_inst.loc, name)
                continue
            ln = lanes_of(e.val, src_of)
            got = ln[lane] if ln and lane < len(ln) else None
            ok = got == ("src", "value", want)
            # bytes beyond the declared argument width of a sign/zero-extended narrower argument
            chk.ob("P5.byte-order", "%s byte %d" % (pathid, k), ok,
                   "output byte %d must be byte %d of the value ('%s'); abstract lane: %s" % (k, want, order, got),
                   e.inst.loc, name)
    else:
        little = str(m.d.get("datalayout", "e")).startswith("e")

        def src_of(x):
            if x[0] == "ld" and x[2] == 1 and item(x[1]) is not None and not item(x[1])[1]:
                return ("mem%d" % item(x[1])[0], 1)
            if x[0] == "ld" and x[2] in (2, 4, 8) and item(x[1]) is not None and not item(x[1])[1]:
                return ("memW%d.%d" % (item(x[1])[0], x[2]), x[2])       # a load of several input bytes at once
            return None

        def is_input_byte(lane, want):
            if lane == ("src", "mem%d" % want, 0):
                return True
            if isinstance(lane, tuple) and len(lane) == 3 and lane[0] == "src" and str(lane[1]).startswith("memW"):
                o, nb = (int(t) for t in lane[1][4:].split("."))
                return (o + lane[2] if little else o + nb - 1 - lane[2]) == want
            return False
        r = p.ret
        if r is None:
            return
        ln = lanes_of(r, src_of)
        rbits = int(fn.ret_ty[1:])
        ln = (ln + [0] * 8)[:max(1, rbits // 8)]
        for j in range(width):
            want = j if order == "le" else width - 1 - j
            ok = j < len(ln) and is_input_byte(ln[j], want)
            chk.ob("P5.byte-order", "%s value byte %d" % (pathid, j), ok,
                   "byte %d of the result must be input byte %d ('%s', zero-extended before shifting); abstract lane: %s"
                   % (j, want, order, ln[j] if j < len(ln) else None), p.ret_inst.loc, name)


def check_aux(chk, m):
    n = 0
    rep = discover_rep(m)
    if rep.kind == "idx" and m.has_fn("rf_pack_init"):
        # discover_rep has established: base := buffer, capacity := sz, position := 0 (each stored exactly so)
        fn = m.functions["rf_pack_init"]
        chk.ob("P6.init", "rf_pack_init", True, "%s = buffer, %s = sz, %s = 0" % (rep.base, rep.cap, rep.pos), fn.loc, fn.name)
        n += 1
    if rep.kind == "ptr" and m.has_fn("rf_pack_init"):
        fn = m.functions["rf_pack_init"]
        for p in paths.enumerate_paths(fn, m):
            vals = {}
            for e in p.events:
                if e.kind == "store" and fld(e.ptr, fn, m):
                    vals[fld(e.ptr, fn, m)] = e.val
            ok = vals.get("basep") == ("arg", 1) and vals.get("p") == ("arg", 1)
            ep = vals.get("endp")
            ok_end = ep is not None and ptr_parts(ep)[0] == ("arg", 1) and ptr_parts(ep)[1] == 0 and \
                len(ptr_parts(ep)[2]) == 1 and strip_casts(ptr_parts(ep)[2][0][0]) == ("arg", 2) and ptr_parts(ep)[2][0][1] == 1
            chk.ob("P6.init", "rf_pack_init", ok and ok_end,
                   "basep = p = buffer, endp = buffer + sz (got basep=%s p=%s endp=%s)" %
                   (fmt(vals.get("basep")), fmt(vals.get("p")), fmt(ep)), fn.loc, fn.name)
            n += 1
    def linear(e, f, depth=0):
        """e as a linear form {field name: coefficient, 1: constant} modulo 2^32 over the rf_pack_t fields of arg 0 (pointer
        fields through ptrtoint), following calls of the sibling query functions on the same object; None if it is not one."""
        e = strip_casts(e)
        k = e[0]
        if k == "c":
            return {1: e[2]} if e[2] else {}
        if k == "ld":
            name = fld(e[1], f, m)
            return {name: 1} if name else None
        if k == "b" and e[1] in ("add", "sub"):
            a, b = linear(e[3], f, depth), linear(e[4], f, depth)
            if a is None or b is None:
                return None
            out = dict(a)
            for kk, v in b.items():
                out[kk] = out.get(kk, 0) + (v if e[1] == "add" else -v)
            return {kk: v for kk, v in out.items() if v % (1 << 32)}
        if k == "call" and isinstance(e[1], str) and e[1] in ("rf_pack_consumed", "rf_pack_remaining") and depth < 2 and m.has_fn(e[1]) \
                and e[2] and e[2][0] == ("arg", 0):
            g = m.functions[e[1]]
            ps = paths.enumerate_paths(g, m)
            if len(ps) == 1 and ps[0].ret is not None:
                return linear(ps[0].ret, g, depth + 1)
        return None
    M32 = (1 << 32) - 1
    want_of = {"rf_pack_consumed": ({rep.pos: 1, rep.base: M32} if rep.kind == "ptr" else {rep.pos: 1}),
               "rf_pack_remaining": {rep.cap: 1, rep.pos: M32}}
    for name, hi, lo in (("rf_pack_consumed", rep.pos, rep.base if rep.kind == "ptr" else "0"), ("rf_pack_remaining", rep.cap, rep.pos)):
        if not m.has_fn(name):
            continue
        fn = m.functions[name]
        for p in paths.enumerate_paths(fn, m):
            lf = linear(p.ret, fn) if p.ret else None
            ok = lf is not None and {kk: v % (1 << 32) for kk, v in lf.items()} == want_of[name]
            chk.ob("P6.counters", name, ok, "%s returns %s - %s as an identity of linear forms over the cursor's fields (got %s)" %
                   (name, hi, lo, fmt(p.ret)[:80]), fn.loc, name)
            n += 1
    # "the overflow is visible as a negative remainder": the type of the queries must be able to be negative
    src = ("#include <librfn/pack.h>\n"
           "_Static_assert(((__typeof__(rf_pack_remaining((rf_pack_t *) 0))) -1) < 0, \"rf_pack_remaining must return a signed type\");\n"
           "_Static_assert(((__typeof__(rf_pack_consumed((rf_pack_t *) 0))) -1) < 0, \"rf_pack_consumed must return a signed type\");\n")
    rc, err = build.syntax_check("c12_signed_witness.c", src)
    bad = [l for l in err.splitlines() if "must return a signed type" in l]
    if rc != 0 and not bad:
        chk.unknown("P6.signed-counters", "pack.h", "compile-time witness does not compile: %s" % err[-200:])
    else:
        chk.ob("P6.signed-counters", "rf_pack_remaining / rf_pack_consumed", not bad,
               "both queries return a signed type, so a cursor beyond the end shows as a negative remainder (compile-time witness)" if not bad else
               "%s: with an unsigned result `rf_pack_remaining() < 0` is never true and an overflow reads as about 4e9 bytes left"
               % "; ".join(b.split("error:")[-1].strip() for b in bad)[:200], "include/librfn/pack.h", "rf_pack_remaining")
    chk.expect("P6", "init/consumed/remaining", n, 3)


def run(chk):
    chk.level = "proof"
    chk.explanation = (
        "Every implemented pack/unpack function of pack.c is analysed on every path of its IR, for every buffer "
        "size at once: the cursor is advanced exactly once by the item size before the test (sticky failure, "
        "requested bytes always counted), the transfer is guarded by exactly `advanced cursor <= endp`, every access "
        "through the old cursor lies on a fitting path inside the item, failure results are zero / zero-fill / skip, "
        "and the byte order is decided in the ByteLane abstract domain (each output byte is a named byte of the "
        "value). Obligations are per function and path; all must be discharged.")
    chk.rule("P1", "cursor advanced exactly once per call, by the item size, before any payload access, on every path; an item is never split over several guarded advances")
    chk.rule("P2", "the transfer is guarded by exactly (old cursor + size) <= endp")
    chk.rule("P3", "no access through the cursor on a non-fitting path; on a fitting path every access [k, k+w) satisfies 0 <= k, k+w <= size (mem* length is the item size)")
    chk.rule("P4", "unpackers return 0 on overflow; unpack_bytes zero-fills exactly size bytes of a non-NULL destination and never writes a NULL one; pack_bytes with NULL source writes zeros")
    chk.rule("P5", "ByteLane: 'le' byte i <-> value byte i, 'be' byte i <-> value byte n-1-i; unpackers zero-extend each byte before shifting")
    chk.rule("P6", "rf_pack_init sets basep = p = buffer, endp = buffer + sz; consumed = p - basep; remaining = endp - p")
    chk.assumptions += [
        "total requested bytes below 2^31 (the property's own scope: pointer differences are narrowed to int)",
        "the rf_pack_t and the buffers are distinct objects (no aliasing between different pointer roots)",
        "functions that are declared but have no body in pack.c are outside the property's scope ('implemented operations')",
    ]
    chk.trusted_base += ["sa/domains/lanes.py (ByteLane transfer functions)"]
    run_build(chk, "default")      # (the unsigned-char and other build variants are run by core.run_check for every check)


def run_build(chk, cfg):
    m = build.load_unit("librfn/pack.c", cfg)
    chk.note_unit(m)
    n_fn = n_fit = 0
    for fn in m.defined_functions():
        if not is_pack_fn(fn):
            continue
        chk.note_fn(fn)
        if fn.name in ("rf_pack_init", "rf_pack_consumed", "rf_pack_remaining"):
            continue
        if not NAME_RE.match(fn.name):
            touches_p = any(e for p in paths.enumerate_paths(fn, m) for e in p.events
                            if e.kind == "store" and fld(e.ptr, fn, m) == discover_rep(m).pos)
            if not touches_p:
                continue
        n_fn += 1
        n_fit += check_transfer(chk, m, fn)
    check_aux(chk, m)
    chk.expect("P1", "implemented transfer functions", n_fn, 11)
    chk.expect("P2", "fitting paths", n_fit, 11)
