"""No hidden state: a value read from a mutable object with static storage (a function-static cache, a file-scope variable)
must not reach what the function stores through its arguments, a branch, an address or its result.  A static that is only
written, or only counted up, influences nothing and is not reported.  Forward taint over the SSA values of one function
(callees are not followed: a call whose argument is tainted taints its result)."""


def _root_global(v, m):
    for _ in range(16):
        if v.k == "inst" and v.inst is not None and v.inst.op in ("getelementptr", "bitcast"):
            v = v.inst.ops[0]
        elif v.k == "cexpr":
            v = v.cexpr_ops()[0]
        else:
            break
    if v.k == "global":
        g = m.globals.get(v.name)
        if g is not None and not g.get("const"):
            return v.name
    return None


def check_no_static_influence(chk, rule, m, fn, consequence):
    tainted = {}
    n = 0
    for blk in fn.order:
        for i in blk.insts:
            if i.op == "load":
                n += 1
                g = _root_global(i.ops[0], m)
                if g:
                    tainted[i.name] = (g, i)
    changed = True
    while changed:
        changed = False
        for blk in fn.order:
            for i in blk.insts:
                if not i.name or i.name in tainted or i.is_dbg():
                    continue
                ops = list(i.ops) + (list(i.args) if i.op == "call" else [])
                if i.op == "phi":
                    ops = [v for v, b in i.incoming]
                src = [tainted[o.inst.name] for o in ops if o.k == "inst" and o.inst is not None and o.inst.name in tainted]
                if src and i.op != "store":
                    tainted[i.name] = src[0]
                    changed = True
    bad = None

    def t(v):
        return tainted.get(v.inst.name) if v.k == "inst" and v.inst is not None else None
    for blk in fn.order:
        for i in blk.insts:
            if i.op == "store":
                n += 1
                if t(i.ops[0]) and not _root_global(i.ops[1], m):
                    bad = bad or (t(i.ops[0]), i, "is stored through an argument")
                if t(i.ops[1]):
                    bad = bad or (t(i.ops[1]), i, "selects the address written")
            elif i.op == "load" and t(i.ops[0]):
                bad = bad or (t(i.ops[0]), i, "selects the address read")
        term = blk.term
        if term is not None and term.op in ("br", "switch") and getattr(term, "cond", None) is not None and t(term.cond):
            bad = bad or (t(term.cond), term, "decides a branch")
        if term is not None and term.op == "ret" and term.ops and t(term.ops[0]):
            bad = bad or (t(term.ops[0]), term, "is returned")
    chk.ob(rule, fn.name, bad is None,
           "no value read from a mutable object with static storage reaches a store through an argument, a branch, an address or the "
           "result (%d memory accesses examined)" % n if bad is None else
           "a value read from the mutable static object %s (%s) %s at %s: %s" % (bad[0][0], bad[0][1].loc, bad[2], bad[1].loc, consequence),
           bad[1].loc if bad else fn.loc, fn.name)
    return bad is None



def write_only_member(m, struct_names, field):
    """True if the member `field` of the named struct never influences anything in unit m but itself: every value loaded from it
    flows (through arithmetic and conversions) only into stores back to the same member, or into the return value of a function
    that stores nothing (its accessor).  Such a member is a statistic: the behaviour the rules decide cannot depend on it."""
    from .. import flow
    ARITH = ("add", "sub", "mul", "and", "or", "xor", "shl", "lshr", "ashr", "zext", "sext", "trunc", "phi", "select", "freeze")
    for fn in m.defined_functions():
        acc = flow.accesses(fn, m)
        mine = [a for a in acc if a.struct in struct_names and a.field == field]
        if not mine:
            continue
        has_store = any(a.writes for a in acc)
        for a in mine:
            if a.kind != "load":
                if a.kind != "store":
                    return False        # RMW, block copy: not modelled as a statistic
                continue
            seen, work = set(), [a.inst.name]
            while work:
                v = work.pop()
                if v in seen:
                    continue
                seen.add(v)
                for u in fn.users(v):
                    if u.op in ARITH and u.name:
                        if u.op == "select" and u.ops[0].k == "inst" and u.ops[0].name == v:
                            return False        # decides something
                        work.append(u.name)
                    elif u.op == "store" and u.ops[0].k == "inst" and u.ops[0].name == v:
                        tgt = [b for b in mine if b.inst is u]
                        if not tgt:
                            return False
                    elif u.op == "ret":
                        if has_store:
                            return False
                    else:
                        return False
    return True



def member_influences_protocol(m, struct_names, field, known_fields):
    """Does the additional member `field` take part in the structure's protocol in unit m?  True if a value loaded from it reaches
    (through arithmetic, conversions, comparisons, phis) a value stored into / combined atomically with a documented member, an
    address that is stored through, the return value of a function that is more than an accessor, a call argument, or a branch
    that decides whether documented members are written or which value is returned.  A member that is only compared with and
    stored back into itself (a high-water mark), only returned by its accessor, or only called through (an optional hook) does
    not influence the protocol."""
    from .. import flow
    FLOW = ("add", "sub", "mul", "and", "or", "xor", "shl", "lshr", "ashr", "zext", "sext", "trunc", "phi", "select", "freeze",
            "icmp", "udiv", "sdiv", "urem", "srem", "bitcast", "getelementptr", "ptrtoint", "inttoptr")
    for fn in m.defined_functions():
        acc = flow.accesses(fn, m)
        mine = [a for a in acc if a.struct in struct_names and a.field == field]
        loads = [a for a in mine if a.kind == "load"]
        if not loads:
            continue
        my_stores = set(id(a.inst) for a in mine if a.kind == "store")
        known_writes = set(id(a.inst) for a in acc if a.struct in struct_names and a.field in known_fields and (a.writes or a.kind in ("rmw", "cmpxchg")))
        other_effects = [a for a in acc if a.writes and id(a.inst) not in my_stores]
        is_accessor = not other_effects and not [c for c in fn.calls() if not (c.callee or "").startswith("llvm.")]
        taint = set()
        work = [a.inst.name for a in loads]
        while work:
            v = work.pop()
            if v in taint:
                continue
            taint.add(v)
            for u in fn.users(v):
                if u.op in FLOW and u.name:
                    work.append(u.name)
        tainted = lambda o: o.k == "inst" and o.name in taint

        def reach(b):
            seen, st = set(), [b]
            while st:
                x = st.pop()
                if x.name in seen:
                    continue
                seen.add(x.name)
                st.extend(x.succs)
            return seen
        for blk in fn.order:
            for i in blk.insts:
                if i.is_dbg():
                    continue
                if i.op == "store":
                    if tainted(i.ops[0]) and id(i) not in my_stores:
                        return True
                    if tainted(i.ops[1]):
                        return True
                elif i.op in ("atomicrmw", "cmpxchg"):
                    if any(tainted(o) for o in i.ops):
                        return True
                elif i.op == "ret":
                    if i.ops and tainted(i.ops[0]) and not is_accessor:
                        return True
                elif i.op == "call":
                    if any(tainted(a) for a in i.args) and not (i.callee or "").startswith("llvm."):
                        return True
                elif i.op in ("br", "switch") and i.cond is not None and tainted(i.cond):
                    succs = [fn.blocks[s_ if isinstance(s_, str) else s_.name] for s_ in i.succs]
                    rs = [reach(b) for b in succs]
                    common = set.intersection(*rs) if rs else set()
                    excl = set().union(*rs) - common
                    for bn in excl:
                        for j in fn.blocks[bn].insts:
                            if id(j) in known_writes or j.op in ("atomicrmw", "cmpxchg", "fence", "ret") or \
                                    (j.op in ("load", "store") and j.is_atomic()):
                                return True
                            if j.op == "store" and id(j) not in my_stores:
                                return True
                    # a value chosen by the branch at the join
                    for bn in common:
                        for j in fn.blocks[bn].insts:
                            if j.op != "phi":
                                break
                            if any((b_ if isinstance(b_, str) else b_.name) in excl or (b_ if isinstance(b_, str) else b_.name) == blk.name
                                   for v_, b_ in j.incoming) and len(set(v_.key() for v_, b_ in j.incoming)) > 1:
                                users = fn.users(j.name)
                                if any(not (u.op == "store" and id(u) in my_stores) for u in users):
                                    return True
    return False
