"""C09 - linked list: necessary structural clauses (sequence equivalence over all histories is NOT decided).

 N1 detached nodes are clean: a function that unlinks a node stores NULL to that node's next on the same path
 N2 every end-insertion re-establishes the tail: when a node is stored into a link slot whose old content is NULL on that
    path (head of an empty list, tail->next, *prevnext at the end) the same path stores that node to list->tail; a head
    insertion without knowledge that the list was non-empty must also set the tail
 N3 removal through an iterator slot moves the tail back when the victim is the tail
 N4 stable sorted insertion polarity (C02 T4)
 N5 iterator coherence: list_iterate positions at &list->head and records the list; list_iterator_next advances to the
    current node's next field; list_contains positions the caller's iterator on every path (hit or miss) and reports a hit
    only for the designated node; list_remove removes through the iterator list_contains positioned
"""
from .. import build, paths
from ..ir import AnalysisError
from ..paths import fmt, ptr_parts, strip_casts
from . import C02

UNIT = "librfn/list.c"


def layout(m):
    def offs(name):
        tid = m.di_by_name.get(name)
        if not tid:
            raise AnalysisError("anchor vanished: %s" % name)
        return {p: o for p, o, s, t in m.di_leaves(tid)}
    L = offs("list_t")
    N = offs("list_node_t") if "list_node_t" in m.di_by_name else offs("list_node")
    I = offs("list_iterator_t")
    for d, keys in ((L, ("head", "tail")), (N, ("next",)), (I, ("prevnext", "list"))):
        for k in keys:
            if k not in d:
                raise AnalysisError("anchor vanished: list field %s" % k)
    # the structural rules reason about a list that is exactly {head, tail} over nodes that are exactly {next}, walked by an
    # iterator that is exactly {prevnext, list}: with further
    # state in the list or its nodes (a count, a flag, a back link) emptiness and membership can be decided from that state
    # instead, and these rules cannot tell a correct use of it from a wrong one
    extra = sorted(set(L) - {"head", "tail"}) + sorted(set(N) - {"next"}) + sorted(set(I) - {"prevnext", "list"})
    if extra:
        raise AnalysisError("anchor vanished: list_t / list_node_t / list_iterator_t carry additional state (%s): the list's representation changed and "
                            "the rules stated over {head, tail, next} cannot decide this tree" % ", ".join(extra))
    return L, N, I


def runs_of(m, fn):
    if fn.loops_headers():
        return [(s, p) for s, p in paths.enumerate_segments(fn, m) if p.end != "unreachable"]
    return [(fn.entry.name, p) for p in paths.enumerate_paths(fn, m) if not paths.is_assert_fail_path(p)]


def is_null_on_path(p, e):
    """True / False / None: is expression e known (non-)NULL from the path's conditions?"""
    for c, taken, inst in p.conds:
        cc = strip_casts(c)
        if cc[0] == "icmp" and ("null",) in (cc[2], cc[3]):
            other = cc[2] if cc[3] == ("null",) else cc[3]
            if other == e:
                return (cc[1] == "eq") == bool(taken)
    return None


def check_structure(chk, m, L, N, I):
    head_o, tail_o, next_o = L["head"], L["tail"], N["next"]
    n_unlink = n_end = 0
    for fn in m.defined_functions():
        chk.note_fn(fn)
        list_arg = [i for i, a in enumerate(fn.args) if a.ty == "%struct.list_t*"]
        iter_arg = [i for i, a in enumerate(fn.args) if a.ty == "%struct.list_iterator_t*"]
        for start, p in runs_of(m, fn):
            pid = "%s %s..%s" % (fn.name, start.lstrip("%"), p.end)
            ev = p.events
            # the list object(s) visible on this path
            lists = [("arg", i) for i in list_arg]
            for i in iter_arg:
                lists.append(("ld", paths.mkptr(("arg", i), I["list"]), 8))
            def is_tail_ptr(ptr):
                r, o, v = ptr_parts(ptr)
                return o == tail_o and not v and (r in lists or (r[0] == "ld" and r[:3] in [x[:3] for x in lists if x[0] == "ld"]))
            def is_head_ptr(ptr):
                r, o, v = ptr_parts(ptr)
                return o == head_o and not v and r in lists and r[0] == "arg"
            tail_stores = [(k, e) for k, e in enumerate(ev) if e.kind == "store" and is_tail_ptr(e.ptr)]
            for k, e in enumerate(ev):
                if e.kind != "store" or is_tail_ptr(e.ptr):
                    continue
                val = e.val
                slot = e.ptr
                old = None
                for j in range(k - 1, -1, -1):
                    if ev[j].kind == "load" and ev[j].ptr == slot:
                        old = ev[j].val
                        break
                # ---- N1: unlink = slot := old->next
                sv = strip_casts(val)
                slot_is_link = is_head_ptr(slot) or (iter_arg and slot[0] == "ld" and slot[1] == paths.mkptr(("arg", iter_arg[0]), I["prevnext"])) \
                    or (ptr_parts(slot)[1] == next_o and ptr_parts(slot)[0][0] in ("ld", "sym", "call") and not (iter_arg and ptr_parts(slot)[0] == ("arg", iter_arg[0])))
                if slot == (("arg", iter_arg[0]) if iter_arg else None):
                    slot_is_link = False
                if slot_is_link and sv[0] == "ld" and old is not None and ptr_parts(sv[1]) == (old, next_o, ()):
                    n_unlink += 1
                    cleared = [x for x in ev[k:] if x.kind == "store" and ptr_parts(x.ptr) == (old, next_o, ()) and x.val == ("null",)]
                    chk.ob("N1.clear-on-unlink", pid, bool(cleared),
                           "the unlinked node's next pointer is reset to NULL (a removed or extracted node is immediately reusable; every "
                           "inserter asserts node->next == NULL)", e.inst.loc, fn.name)
                    # ---- N3 (only for unlinking through an iterator slot)
                    root = ptr_parts(slot)[0]
                    local_iters = set(ptr_parts(c.args[-1])[0] for c in ev if c.kind == "call" and c.callee in ("list_contains", "list_iterate")
                                      and c.args and ptr_parts(c.args[-1])[0][0] in ("alloca", "sym"))
                    via_local = root[0] == "ld" and ptr_parts(root[1])[0] in local_iters and ptr_parts(root[1])[1:] == (I["prevnext"], ())
                    if via_local or (iter_arg and root[0] == "ld" and root[1] == paths.mkptr(("arg", iter_arg[0]), I["prevnext"])):
                        cmp_ = None
                        first_clear = min([j for j, x in enumerate(ev) if x.kind == "store" and ptr_parts(x.ptr) == (old, next_o, ())],
                                          default=len(ev))
                        succ_before = [x.val for x in ev[:first_clear] if x.kind == "load" and ptr_parts(x.ptr) == (old, next_o, ())]
                        for c, taken, inst in p.conds:
                            cc = strip_casts(c)
                            if cc[0] == "icmp" and cc[1] in ("eq", "ne"):
                                sides = (cc[2], cc[3])
                                if old in sides and any(s[0] == "ld" and is_tail_ptr(s[1]) for s in sides):
                                    cmp_ = (cc[1] == "eq") == bool(taken)
                                # the same question asked the other way: in a well-formed list (N1/N2) the tail is the one
                                # node whose next is NULL, so "the victim had no successor" (read before it is cleared) is
                                # "the victim is the tail"
                                elif ("null",) in sides and any(strip_casts(s) in succ_before for s in sides):
                                    cmp_ = (cc[1] == "eq") == bool(taken)
                        if cmp_ is None:
                            chk.ob("N3.tail-on-removal", pid, False,
                                   "a node is unlinked through an iterator without comparing it with list->tail: removing the last node "
                                   "leaves tail dangling, so the next tail insertion is lost", e.inst.loc, fn.name)
                        elif cmp_:
                            want = paths.mkptr(root, -next_o)
                            ok = any(ts.val == want for kk, ts in tail_stores)
                            # ... unless the slot is the list's head slot: the victim was the only node, the list is now empty and its
                            # tail is not read before the next insertion sets it (any value will do, NULL included)
                            at_head = False
                            for c, taken, inst in p.conds:
                                cc = strip_casts(c)
                                if cc[0] == "icmp" and cc[1] in ("eq", "ne") and (cc[1] == "eq") == bool(taken):
                                    a_, b_ = strip_casts(cc[2]), strip_casts(cc[3])
                                    for x_, y_ in ((a_, b_), (b_, a_)):
                                        if x_ == strip_casts(root) and y_[0] in ("p", "ld", "arg") and ptr_parts(y_)[1:] == (head_o, ()) \
                                                and ptr_parts(y_)[0][0] in ("ld", "arg"):
                                            at_head = True
                            if at_head and not ok:
                                chk.ob("N3.tail-on-removal", pid, True,
                                       "the victim is the tail and is unlinked from the head slot: it was the only node, the list is now empty "
                                       "and its tail is not read before the next insertion sets it", e.inst.loc, fn.name)
                                continue
                            chk.ob("N3.tail-on-removal", pid, ok,
                                   "the victim is the tail: tail := the node containing the slot (containerof(prevnext))", e.inst.loc, fn.name)
                        else:
                            chk.ob("N3.tail-on-removal", pid, not tail_stores, "the victim is not the tail: tail unchanged", e.inst.loc, fn.name)
                    continue
                # ---- N2: node stored into a link slot
                r, o, v = ptr_parts(slot)
                is_link_slot = is_head_ptr(slot) or (o == next_o and not v and r[0] == "ld" and is_tail_ptr(r[1])) or \
                    (iter_arg and slot[0] == "ld" and slot[1] == paths.mkptr(("arg", iter_arg[0]), I["prevnext"]))
                if not is_link_slot or val == ("null",) or sv[0] == "ld":
                    continue
                if r[0] == "ld" and is_tail_ptr(r[1]) and o == next_o:
                    oldnull, why = True, "tail->next (NULL by the tail invariant)"
                else:
                    known = is_null_on_path(p, old) if old is not None else None
                    if known is None and is_head_ptr(slot):
                        # emptiness may have been tested through the head earlier with the same load
                        known = is_null_on_path(p, ("ld", slot, 8, (0, 0)))
                    oldnull = known
                    why = "slot content %s on this path" % ("NULL" if known else "non-NULL" if known is False else "not tested")
                n_end += 1
                tail_set = any(ts.val == val for kk, ts in tail_stores)
                if oldnull is False:
                    chk.ob("N2.tail-on-end-insert", pid, True, "insertion before an existing node (%s): tail unaffected" % why, e.inst.loc, fn.name)
                else:
                    chk.ob("N2.tail-on-end-insert", pid, tail_set,
                           "node stored at the end of the chain (%s): list->tail must be set to it on this path%s" %
                           (why, "" if tail_set else "; it is not, so a later tail insertion links behind a stale tail and the node "
                            "(or the one appended) is lost from traversal"), e.inst.loc, fn.name)
    chk.expect("N1", "unlink sites on paths", n_unlink, 2)
    chk.expect("N2", "link-slot insertions on paths", n_end, 5)


def path_equalities(p):
    """same(a, b): are the two expressions equal on path p, syntactically or through the path's == / != decisions?"""
    parent = {}

    def find(x):
        while parent.get(x, x) != x:
            x = parent[x]
        return x
    for c, t, i in p.conds:
        cc = strip_casts(c)
        if cc[0] == "icmp" and cc[1] in ("eq", "ne") and (cc[1] == "eq") == bool(t):
            a, b = find(strip_casts(cc[2])), find(strip_casts(cc[3]))
            if a != b:
                parent[a] = b
    return lambda a, b: find(strip_casts(a)) == find(strip_casts(b))


def slot_holds_by_invariant(m, fn, start, p, slot, node, same, head_o, next_o):
    """The search loop carries (prev, curr) with the invariant  prev == NULL ? curr == list->head : curr == prev->next,
    established on entry and kept by every trip round the loop; on the exit segment curr is the node and the slot written
    is list->head (prev == NULL) or prev->next (prev != NULL).  Then the slot holds the node although this segment never
    re-reads it."""
    if not start or start == fn.entry.name:
        return False
    segs = runs_of(m, fn)
    arrivals = [q for s_, q in segs if q.end == "cut:" + start and getattr(q, "carried", None)]
    if not arrivals:
        return False
    names = set(arrivals[0].carried)
    currs = [n for n in names if same(("sym", n), node)]
    # second form: the loop carries (link, curr) with the invariant curr == *link (link is the address of the slot that holds
    # curr: &list->head on entry, &curr->next after each step); the slot written is *link
    for cn in currs:
        for ln in names - {cn}:
            if ptr_parts(slot) != (("sym", ln), 0, ()):
                continue
            ok = True
            for q in arrivals:
                Lk, C = q.carried.get(ln), q.carried.get(cn)
                if Lk is None or C is None:
                    ok = False
                    break
                C = strip_casts(C)
                if not (C[0] == "ld" and ptr_parts(C[1]) == ptr_parts(strip_casts(Lk))):
                    ok = False
                    break
            if ok:
                return True
    for cn in currs:
        for pn in names - {cn}:
            # which slot does this segment write?  head slot needs prev == NULL on the path, prev->next needs the slot to be it
            r, o, v = ptr_parts(slot)
            prev_null = any(strip_casts(c)[0] == "icmp" and strip_casts(c)[1] in ("eq", "ne") and
                            {strip_casts(strip_casts(c)[2]), strip_casts(strip_casts(c)[3])} == {("sym", pn), ("null",)} and
                            (strip_casts(c)[1] == "eq") == bool(t) for c, t, i in p.conds)
            if (r, o, v) == (("arg", 0), head_o, ()):
                if not prev_null:
                    continue
            elif (r, o, v) != (("sym", pn), next_o, ()):
                continue
            ok = True
            for q in arrivals:
                P, C = q.carried.get(pn), q.carried.get(cn)
                if P is None or C is None:
                    ok = False
                    break
                P, C = strip_casts(P), strip_casts(C)
                first = P == ("null",) and C[0] == "ld" and ptr_parts(C[1]) == (("arg", 0), head_o, ())
                step = C[0] == "ld" and ptr_parts(C[1]) == (P, next_o, ())
                if not (first or step):
                    ok = False
                    break
            if ok:
                return True
    return False


I_PREVNEXT = [0]


def check_self_walking_remove(chk, m, fn, L, N):
    """list_remove that searches and unlinks in one walk over the links (no list_contains / iterator).  On every returning
    segment: `true` only after a complete unlink of the slot found to hold the node -- slot := node->next, node->next := NULL,
    and tail := containerof(slot) exactly when the node was the tail -- or after delegating to list_extract with the node found
    at the head; `false` only at a NULL link and without touching the list."""
    head_o, tail_o, next_o = L["head"], L["tail"], N["next"]
    node = ("arg", 1)
    n_ret = 0
    for s, p in runs_of(m, fn):
        if p.end != "ret" or p.ret is None:
            continue
        n_ret += 1
        same = path_equalities(p)
        ev = p.events
        stores = [(k, e) for k, e in enumerate(ev) if e.kind == "store"]
        calls = [e for e in ev if e.kind == "call"]
        ret = strip_casts(p.ret)
        sid = "list_remove %s..ret %s" % (s.lstrip("%"), fmt(ret)[:40])
        loc = p.ret_inst.loc
        head_is_node = any(e.kind == "load" and ptr_parts(e.ptr) == (("arg", 0), head_o, ()) and same(e.val, node) for e in ev)
        ext = [c for c in calls if c.callee == "list_extract" and c.args and c.args[0] == ("arg", 0)]
        if ext:
            # delegation: the node was found at the head, list_extract (checked by N1/N2 itself) takes exactly the head
            truthy = (ret[0] == "c" and ret[2] != 0) or (ret[0] == "icmp" and ret[1] == "ne" and {ret[2], ret[3]} == {ext[0].res, ("null",)})
            chk.ob("N5.remove-through-found-position", sid, head_is_node and truthy and not stores,
                   "the node was found at list->head and is taken off by list_extract; the result reports the removal", loc, fn.name)
            continue
        itrm = [c for c in calls if c.callee == "list_iterator_remove"]
        if itrm and ret[0] == "c" and ret[2]:
            # walks with the iterator API and removes through it: the iterator's current node must be the node asked for
            segs_all = runs_of(m, fn)
            cands = set()
            for c, t, i in p.conds:
                for x in paths.subexprs(c):
                    if x[0] in ("sym", "call") and same(x, node):
                        cands.add(x)
            it = itrm[0].args[0]
            k_rm = [k for k, e in enumerate(ev) if e is itrm[0]][0]
            adv = [e for e in ev[:k_rm] if e.kind == "call" and e.callee in ("list_iterate", "list_iterator_next")
                   and C02._is_cursor_of(e.res, it, s, segs_all, set())]
            pos_st = [e for k, e in stores if ptr_parts(e.ptr)[0] == ptr_parts(it)[0] and ptr_parts(e.ptr)[0][0] in ("alloca", "sym")]
            if not adv and pos_st:
                # the iterator is a local positioned by hand: prevnext := the link that was read and found to hold the node
                lk = [e.val for e in pos_st if ptr_parts(e.ptr)[1] == ptr_parts(it)[1] + I_PREVNEXT[0]]
                held = bool(lk) and any(x.kind == "load" and x.ptr == lk[-1] and same(x.val, node) for x in ev)
                if not held and lk:
                    held = any(same(("ld", lk[-1], 8), node) or (c_[0] == "icmp") and False for c_ in ())
                    for c_, t_, i_ in p.conds:
                        for x in paths.subexprs(c_):
                            if x[0] == "ld" and x[1] == lk[-1] and same(x, node):
                                held = True
                others = [e for k, e in stores if e not in pos_st]
                ok = held and not others
            elif adv:
                # the iterator was moved on this segment: its current node is what the LAST move returned
                ok = adv[-1].res in cands and not stores
            else:
                ok = any(x[0] == "sym" and C02._is_cursor_of(x, it, s, segs_all, set()) for x in cands) and not stores
            chk.ob("N5.remove-through-found-position", sid, ok,
                   "true is returned after list_iterator_remove on the iterator whose current node was found to be the node", loc, fn.name)
            continue
        if ret[0] != "c":
            chk.unknown("N5.remove-through-found-position", sid, "list_remove returns %s, which is not a constant nor a recognised delegation" % fmt(ret)[:60], loc)
            continue
        if not ret[2]:
            stores = [(k, e) for k, e in stores if ptr_parts(e.ptr)[0][0] not in ("alloca",) and not
                      (ptr_parts(e.ptr)[0][0] == "sym" and any(i_.op == "alloca" and i_.name == ptr_parts(e.ptr)[0][1] for i_ in fn.real_insts()))]
            at_end = any(strip_casts(c)[0] == "icmp" and strip_casts(c)[1] in ("eq", "ne") and ("null",) in strip_casts(c)[2:4]
                         and (strip_casts(c)[1] == "eq") == bool(t) and id(i) for c, t, i in p.conds)
            mut = ("list_insert", "list_insert_sorted", "list_push", "list_extract", "list_remove", "list_iterator_remove", "list_iterator_insert")
            chk.ob("N5.remove-through-found-position", sid, not stores and not [c for c in calls if c.callee in mut] and at_end,
                   "false is returned at a NULL link (end of the list) and without modifying the list", loc, fn.name)
            continue
        # ---- returns true: the unlink
        unl = None
        for k, e in stores:
            v = strip_casts(e.val)
            if v[0] == "ld" and ptr_parts(v[1])[1:] == (next_o, ()) and same(ptr_parts(v[1])[0], node):
                held = [x for x in ev[:k] if x.kind == "load" and x.ptr == e.ptr and same(x.val, node)]
                if not held:
                    held = slot_holds_by_invariant(m, fn, s, p, e.ptr, node, same, head_o, next_o)
                if held:
                    unl = (k, e, v)
        chk.ob("N5.remove-through-found-position", sid, unl is not None,
               "true is returned after slot := node->next on the slot that was read and found to hold the node", loc, fn.name)
        if unl is None:
            continue
        k_unl, e_unl, succ = unl
        k_succ = [k for k, x in enumerate(ev) if x.kind == "load" and x.val == succ][0]
        clears = [k for k, x in stores if x.val == ("null",) and ptr_parts(x.ptr)[1:] == (next_o, ()) and same(ptr_parts(x.ptr)[0], node) and k > k_succ]
        chk.ob("N1.clear-on-unlink", sid, bool(clears),
               "the unlinked node's next pointer is reset to NULL (a removed node is immediately reusable; every inserter asserts "
               "node->next == NULL)", e_unl.inst.loc, fn.name)
        first_clear = min(clears, default=len(ev))
        succ_vals = [x.val for x in ev[:first_clear] if x.kind == "load" and ptr_parts(x.ptr)[1:] == (next_o, ()) and same(ptr_parts(x.ptr)[0], node)]
        is_tail = None
        for c, t, i in p.conds:
            cc = strip_casts(c)
            if cc[0] != "icmp" or cc[1] not in ("eq", "ne"):
                continue
            a, b = strip_casts(cc[2]), strip_casts(cc[3])
            for x, y in ((a, b), (b, a)):
                if x[0] == "ld" and ptr_parts(x[1]) == (("arg", 0), tail_o, ()) and same(y, node):
                    is_tail = (cc[1] == "eq") == bool(t)
                if x == ("null",) and y in succ_vals:
                    is_tail = (cc[1] == "eq") == bool(t)
        tail_st = [x for k, x in stores if ptr_parts(x.ptr) == (("arg", 0), tail_o, ())]
        if is_tail is None and ptr_parts(e_unl.ptr) == (("arg", 0), head_o, ()):
            chk.ob("N3.tail-on-removal", sid, not tail_st,
                   "unlinked from the head slot: if the node was also the tail the list is now empty and its tail is not read before the "
                   "next insertion sets it (as in list_extract); otherwise the tail is another node and stays", e_unl.inst.loc, fn.name)
        elif is_tail is None:
            chk.ob("N3.tail-on-removal", sid, False,
                   "a node is unlinked without asking whether it is list->tail: removing the last node leaves tail dangling, so the next "
                   "tail insertion is lost", e_unl.inst.loc, fn.name)
        elif is_tail and ptr_parts(e_unl.ptr) == (("arg", 0), head_o, ()):
            chk.ob("N3.tail-on-removal", sid, True,
                   "the victim is the tail and is unlinked from the head slot: it was the only node, the list is now empty and its tail "
                   "is not read before the next insertion sets it", e_unl.inst.loc, fn.name)
        elif is_tail:
            r, o, v = ptr_parts(e_unl.ptr)
            want = paths.mkptr(r, o - next_o) if not v else None
            chk.ob("N3.tail-on-removal", sid, any(x.val == want for x in tail_st),
                   "the victim is the tail: tail := the node containing the slot (containerof(slot))", e_unl.inst.loc, fn.name)
        else:
            chk.ob("N3.tail-on-removal", sid, not tail_st, "the victim is not the tail: tail unchanged", e_unl.inst.loc, fn.name)
    chk.expect("N5", "returning segments of list_remove", n_ret, 2)


def check_iterators(chk, m, L, N, I):
    head_o, next_o = L["head"], N["next"]
    fn = m.fn("list_iterate")
    for s, p in runs_of(m, fn):
        st = {ptr_parts(e.ptr)[1]: e.val for e in p.events if e.kind == "store" and ptr_parts(e.ptr)[0] == ("arg", 1)}
        ok = st.get(I["prevnext"]) == paths.mkptr(("arg", 0), head_o) and st.get(I["list"]) == ("arg", 0) and \
            p.ret is not None and p.ret[0] == "ld" and p.ret[1] == paths.mkptr(("arg", 0), head_o)
        chk.ob("N5.iterate", "list_iterate", ok, "prevnext = &list->head, list recorded, returns the head", fn.loc, fn.name)
    # the two observers defined in list.h (every user of a queue relies on them): empty <=> head == NULL, peek == head
    head_o = L["head"]
    extra_mods = [build.compile_text("c09_witness.c", "#include <librfn/list.h>\nbool w_e(list_t *l) { return list_empty(l); }\n"
                                     "list_node_t *w_p(list_t *l) { return list_peek(l); }\n")]
    chk.note_unit(extra_mods[0])
    for hname in ("list_empty", "list_peek"):
        owner = None
        for mod in [m] + [x for x in extra_mods if x.has_fn(hname) and not x.functions[hname].decl]:
            if mod.has_fn(hname) and not mod.functions[hname].decl:
                owner = mod
                break
        if owner is None:
            chk.unknown("N6.observers", hname, "inline function not emitted in any analysed unit")
            continue
        hf = owner.functions[hname]
        for p in paths.enumerate_paths(hf, owner):
            r = strip_casts(p.ret) if p.ret is not None else None
            head = ("ld", paths.mkptr(("arg", 0), head_o))
            if hname == "list_peek":
                ok = r is not None and r[:2] == head
                chk.ob("N6.observers", "list_peek", ok, "list_peek returns list->head (got %s)" % fmt(p.ret)[:40], hf.loc, hname)
            else:
                # a constant selected by a test of head, or the comparison itself
                ok = False
                if r is not None and r[0] == "icmp" and r[1] in ("eq", "ne") and ("null",) in (r[2], r[3]):
                    o = r[2] if r[3] == ("null",) else r[3]
                    ok = o[:2] == head and r[1] == "eq"
                elif r is not None and r[0] == "b" and r[1] == "xor":
                    inner = strip_casts(r[3])
                    ok = inner[0] == "icmp" and inner[1] == "ne" and (inner[2][:2] == head or inner[3][:2] == head) and ("null",) in (inner[2], inner[3])
                elif r is not None and r[0] == "c":
                    for c, taken, inst in p.conds:
                        cc = strip_casts(c)
                        if cc[0] == "icmp" and cc[1] in ("eq", "ne") and ("null",) in (cc[2], cc[3]):
                            o = cc[2] if cc[3] == ("null",) else cc[3]
                            if o[:2] == head:
                                ok = ((cc[1] == "eq") == bool(taken)) == bool(r[2])
                chk.ob("N6.observers", "list_empty " + "->".join(b.lstrip("%") for b in p.blocks), ok,
                       "list_empty is true exactly when list->head == NULL (got %s)" % fmt(p.ret)[:50], hf.loc, hname)
    fn = m.fn("list_iterator_next")
    for s, p in runs_of(m, fn):
        pid = "list_iterator_next " + "->".join(b.lstrip("%") for b in p.blocks)
        cur = ("ld", ("ld", ("arg", 0), 8, (0, 0)), 8, (0, 0))
        curs = [e.val for e in p.events if e.kind == "load" and e.ptr[0] == "ld" and e.ptr[1] == ("arg", 0)]
        if not curs:
            chk.unknown("N5.next", pid, "current node is not loaded through prevnext")
            continue
        cur = curs[0]
        isnull = is_null_on_path(p, cur)
        st = [e for e in p.events if e.kind == "store" and e.ptr == ("arg", 0)]
        if isnull:
            chk.ob("N5.next", pid, p.ret == ("null",) and not st, "at the end: returns NULL, position unchanged", p.ret_inst.loc, fn.name)
        else:
            ok = len(st) == 1 and st[0].val == paths.mkptr(cur, next_o) and p.ret is not None and p.ret[0] == "ld" and \
                ptr_parts(p.ret[1]) == (cur, next_o, ())
            chk.ob("N5.next", pid, ok, "advances prevnext to &curr->next and returns curr->next", p.ret_inst.loc, fn.name)
    fn = m.fn("list_contains")
    runs = runs_of(m, fn)
    # every way into the search loop / to a return positions the caller's iterator
    entry_runs = [(s, p) for s, p in runs if s == fn.entry.name]
    uses_iterate = any(e.kind == "call" and e.callee == "list_iterate" for s, p in runs for e in p.events)
    if not uses_iterate:
        # the search walks the links itself and fills the caller's iterator when it is done: on every returning segment with a
        # non-NULL iterator, iter->list = list and iter->prevnext = the link whose content decided the result
        n_ret = 0
        for s, p in runs:
            if p.end != "ret":
                continue
            user_iter = is_null_on_path(p, ("arg", 2))
            if user_iter is True:
                continue
            n_ret += 1
            st = {ptr_parts(e.ptr)[1]: e.val for e in p.events if e.kind == "store" and ptr_parts(e.ptr)[0] == ("arg", 2) and not ptr_parts(e.ptr)[2]}
            link = st.get(I["prevnext"])
            lst = st.get(I["list"])
            decided = False
            if link is not None:
                for c, taken, inst in p.conds:
                    cc = strip_casts(c)
                    if cc[0] == "icmp" and cc[1] in ("eq", "ne"):
                        for a, b in ((cc[2], cc[3]), (cc[3], cc[2])):
                            a = strip_casts(a)
                            if a[0] == "ld" and a[1] == link and (b == ("null",) or strip_casts(b) == ("arg", 1)):
                                decided = True
            ok = lst == ("arg", 0) and link is not None and decided and user_iter is False
            chk.ob("N5.contains-positions-iterator", "list_contains %s..ret (caller iterator)" % s.lstrip("%"), ok,
                   "the caller's iterator is left on the link that decided the search (iter->list = list, iter->prevnext = that link)"
                   if ok else "the caller's iterator is not positioned on the link that decided the search (list %s, prevnext %s, tested %s, "
                   "iterator tested for NULL %s)" % (fmt(lst) if lst else None, fmt(link)[:40] if link else None, decided, user_iter is False),
                   p.ret_inst.loc, fn.name)
        chk.expect("N5", "returning segments of list_contains with a caller iterator", n_ret, 1)
        entry_runs = []
    for s, p in entry_runs:
        it = [e for e in p.events if e.kind == "call" and e.callee == "list_iterate" and e.args[0] == ("arg", 0)]
        user_iter = is_null_on_path(p, ("arg", 2))
        ok = len(it) == 1 and (it[0].args[1] == ("arg", 2) if user_iter is False else True)
        chk.ob("N5.contains-positions-iterator", "list_contains %s (%s)" % (p.end, "caller iterator" if user_iter is False else "local iterator"),
               ok, "list_contains starts every search with list_iterate(list, iter)%s" %
               ("" if ok else ": on this path the caller's iterator is left unpositioned (stale), so insert/remove through it after a "
                "miss acts on whatever list it last walked"), p.ret_inst.loc, fn.name)
    for s, p in runs:
        if p.end == "ret" and p.ret is not None and p.ret[0] == "c":
            if p.ret[2]:
                hit = False
                for c, taken, inst in p.conds:
                    cc = strip_casts(c)
                    if cc[0] == "icmp" and cc[1] in ("eq", "ne") and ("arg", 1) in (cc[2], cc[3]) and (cc[1] == "eq") == bool(taken):
                        hit = True
                chk.ob("N5.contains-hit", "list_contains %s..ret true" % s.lstrip("%"), hit,
                       "true is returned only when the current node is the node searched for", p.ret_inst.loc, fn.name)
            elif s != fn.entry.name:
                end = any(is_null_on_path(p, x) for c in p.conds if strip_casts(c[0])[0] == "icmp" for x in strip_casts(c[0])[2:4]
                          if x != ("null",))
                chk.ob("N5.contains-miss", "list_contains %s..ret false" % s.lstrip("%"), end,
                       "false is returned only at the end of the list", p.ret_inst.loc, fn.name)
    fn = m.fn("list_remove")
    self_walking = not any(e.kind == "call" and e.callee == "list_contains" for s, p in runs_of(m, fn) for e in p.events)
    if self_walking:
        I_PREVNEXT[0] = I["prevnext"]
        check_self_walking_remove(chk, m, fn, L, N)
    for s, p in (runs_of(m, fn) if not self_walking else []):
        calls = [e for e in p.events if e.kind == "call"]
        ct = [e for e in calls if e.callee == "list_contains"]
        rm = [e for e in calls if e.callee == "list_iterator_remove"]
        ok = len(ct) == 1 and ct[0].args[0] == ("arg", 0) and ct[0].args[1] == ("arg", 1)
        # the unlink may be open-coded (or come from an inlined helper): slot := victim->next through the prevnext of the
        # iterator that list_contains positioned; its clear / tail obligations are N1 / N3's, decided on the same segment
        inline_rm = []
        if ok:
            itp = ct[0].args[2]
            for e in p.events:
                if e.kind == "store" and e.ptr[0] == "ld" and ptr_parts(e.ptr[1]) == (ptr_parts(itp)[0], ptr_parts(itp)[1] + I["prevnext"], ()):
                    v = strip_casts(e.val)
                    if v[0] == "ld" and ptr_parts(v[1])[1:] == (next_o, ()):
                        inline_rm.append(e)
        if rm:
            ok = ok and rm[0].args[0] == ct[0].args[2] and p.ret is not None and p.ret[0] == "c" and p.ret[2] == 1
        elif inline_rm:
            ok = ok and len(inline_rm) == 1 and p.ret is not None and p.ret[0] == "c" and p.ret[2] == 1
        else:
            ok = ok and p.ret is not None and p.ret[0] == "c" and p.ret[2] == 0
        chk.ob("N5.remove-through-found-position", "list_remove " + "->".join(b.lstrip("%") for b in p.blocks), ok,
               "list_remove removes through the iterator that list_contains positioned on the node, and reports hit/miss accordingly",
               p.ret_inst.loc, fn.name)


def check_effects(chk, m, L, N, I):
    """N7: the basic mutators do their job on every path (the conditional rules N1-N3 say nothing about a mutator that does nothing).
    list_extract: NULL exactly when the list is empty, otherwise the old head, which is unlinked (head := head->next, directly or
    through list_iterator_remove on an iterator just positioned by list_iterate).  list_push: head := node, node->next := old head.
    list_insert: node stored into the end slot (head of an empty list / tail->next)."""
    head_o, tail_o, next_o = L["head"], L["tail"], N["next"]
    headp = paths.mkptr(("arg", 0), head_o)

    def same_ld(x, ptr):
        x = strip_casts(x)
        return x[0] == "ld" and x[1] == ptr
    n = 0
    if m.has_fn("list_extract"):
        fn = m.functions["list_extract"]
        for start, p in runs_of(m, fn):
            n += 1
            pid = "list_extract " + "->".join(b.lstrip("%") for b in p.blocks)
            its = [e for e in p.events if e.kind == "call" and e.callee == "list_iterate" and e.args[0] == ("arg", 0)]
            cands = [e.res for e in its]
            hl = [e.val for e in p.events if e.kind == "load" and e.ptr == headp]
            cands += hl
            r = strip_casts(p.ret) if p.ret is not None else None
            stores = [e for e in p.events if e.kind == "store" and ptr_parts(e.ptr)[0] == ("arg", 0)]
            rm = [e for e in p.events if e.kind == "call" and e.callee == "list_iterator_remove"]
            if r == ("null",) or (r in cands and is_null_on_path(p, r) is True):
                ok = any(is_null_on_path(p, c) is True for c in cands) and not stores and not rm
                chk.ob("N7.extract", pid, ok, "NULL is returned only from an empty list, which is left alone", p.ret_inst.loc, fn.name)
                continue
            ok = r in cands and is_null_on_path(p, r) is not True
            direct = [e for e in stores if e.ptr == headp and same_ld(e.val, paths.mkptr(r, next_o))] if ok else []
            via_it = [e for e in rm if its and e.args[0] == its[0].args[1] and r == its[0].res and
                      not any(x.kind == "call" and x.callee == "list_iterator_next" for x in p.events)] if ok else []
            ok = ok and (bool(direct) or bool(via_it))
            chk.ob("N7.extract", pid, ok,
                   "the old head is returned and unlinked (%s)" % ("head := head->next" if direct else "list_iterator_remove at the first position") if ok else
                   "a node is returned (%s) but the head is not unlinked on this path: the same node is extracted again and again "
                   "(the scheduler would dispatch one fibre for ever)" % fmt(p.ret)[:40], p.ret_inst.loc, fn.name)
    if m.has_fn("list_push"):
        fn = m.functions["list_push"]
        for start, p in runs_of(m, fn):
            n += 1
            pid = "list_push " + "->".join(b.lstrip("%") for b in p.blocks)
            st_head = [e for e in p.events if e.kind == "store" and e.ptr == headp and strip_casts(e.val) == ("arg", 1)]
            st_next = [e for e in p.events if e.kind == "store" and e.ptr == paths.mkptr(("arg", 1), next_o) and same_ld(e.val, headp)]
            hl = [e.val for e in p.events if e.kind == "load" and e.ptr == headp]
            empty = any(is_null_on_path(p, h) is True for h in hl)
            ok = bool(st_head) and (empty or (bool(st_next) and p.events.index(st_next[0]) < p.events.index(st_head[0])))
            chk.ob("N7.push", pid, ok, "node->next := old head (nothing to do when the list was empty: a node outside a list has a NULL "
                   "next), then head := node", p.ret_inst.loc, fn.name)
    if m.has_fn("list_insert"):
        fn = m.functions["list_insert"]
        for start, p in runs_of(m, fn):
            n += 1
            pid = "list_insert " + "->".join(b.lstrip("%") for b in p.blocks)
            st = [e for e in p.events if e.kind == "store" and strip_casts(e.val) == ("arg", 1) and
                  (e.ptr == headp or (ptr_parts(e.ptr)[1:] == (next_o, ()) and same_ld(ptr_parts(e.ptr)[0], paths.mkptr(("arg", 0), tail_o))))]
            chk.ob("N7.insert", pid, bool(st), "the node is stored into the end slot of the list (head of an empty list, else tail->next)",
                   p.ret_inst.loc, fn.name)
    chk.expect("N7", "paths of the basic mutators", n, 5)


def run(chk):
    chk.explanation = (
        "Structural clauses of list.c decided on every path / loop-free segment of every list function: clear-on-unlink, "
        "tail re-establishment on end insertion, tail fix-up on removal, stable sorted insertion, iterator coherence. Each is a "
        "necessary condition of the sequence behaviour with a concrete failing operation sequence when broken. Taken whole, C09 is "
        "a heap-shape property over all operation sequences; no shape analysis is attempted and sequence equivalence is NOT decided.")
    chk.rule("N1", "every path that unlinks a node (slot := node->next) later stores NULL to node->next")
    chk.rule("N2", "every path that stores a node into a link slot whose old content is NULL or untested (head, tail->next, *prevnext) also stores that node to list->tail")
    chk.rule("N3", "unlinking through an iterator slot compares the victim with list->tail and, if equal, sets tail to containerof(prevnext)")
    chk.rule("N7", "the basic mutators do their job on every path: extract returns and unlinks the old head (NULL only from an empty list), push links the node in front, insert stores it into the end slot")
    chk.rule("N4", "list_insert_sorted: node moves past X iff cmp(node, X) >= 0 at both tests (C02 T4)")
    chk.rule("N9", "every assertion of a list operation is evaluated before the operation's first store (otherwise inconclusive)")
    chk.rule("N6", "list.h observers: list_empty(l) is true exactly when l->head == NULL; list_peek(l) returns l->head")
    chk.rule("N5", "list_iterate / list_iterator_next / list_contains / list_remove keep the iterator designating the element the API documents")
    chk.assumptions += ["a node is never inserted while it is a member of a list (the property's scope; inserters assert node->next == NULL)",
                        "tail invariant: when the list is non-empty tail->next == NULL (re-established by N2/N3)",
                        "equality with an abstract sequence after arbitrary operation histories is NOT decided"]
    chk.not_decided += ["sequence equivalence over all operation histories", "behaviour of iterators used past the end"]
    run_rules(chk)
    from . import macrohyg
    chk.rule("N8", "the list API as a caller writes it evaluates each argument once (list_push(&a, list_extract(&b)) moves ONE node)")
    macrohyg.check_single_evaluation(chk, "N8.single-evaluation", "librfn/list.h", [
        ("list_insert(l, next())", "void w_ins(list_t *l, list_node_t *(*next)(void)) { list_insert(l, next()); }"),
        ("list_push(l, next())", "void w_push(list_t *l, list_node_t *(*next)(void)) { list_push(l, next()); }"),
        ("list_insert_sorted(l, next(), cmp)", "void w_sorted(list_t *l, list_node_t *(*next)(void), list_node_compare_t *c) { list_insert_sorted(l, next(), c); }"),
        ("list_remove(l, next())", "bool w_rm(list_t *l, list_node_t *(*next)(void)) { return list_remove(l, next()); }"),
        ("list_extract(next())", "list_node_t *w_ext(list_t *(*next)(void)) { return list_extract(next()); }"),
        ("list_iterator_insert(it, next())", "void w_iti(list_iterator_t *it, list_node_t *(*next)(void)) { list_iterator_insert(it, next()); }"),
    ])
    chk.rule_prefix = "N4."
    chk.rule_filter = lambda r: r.startswith("T4")
    C02.check_t4(chk, build.load_unit(UNIT))
    chk.rule_prefix = ""
    chk.rule_filter = None


def check_assertions_precede_stores(chk, m):
    """N9: the list operations assert their preconditions (node->next == NULL) before they touch anything.  An assertion evaluated
    after the operation has begun to store into the list or the node is evaluated on a half-updated structure: whether it can fail
    on a call the API allows is a heap question these rules do not decide - reported as inconclusive, never as a violation."""
    n = 0
    for fn in m.defined_functions():
        if not fn.blocks:
            continue
        try:
            ps = paths.enumerate_paths(fn, m, loop_bound=1)
        except AnalysisError:
            continue
        for p in ps:
            if not paths.is_assert_fail_path(p):
                continue
            n += 1
            st = [e for e in p.events if e.kind in ("store", "memset", "memcpy") and e.ptr is not None and ptr_parts(e.ptr)[0][0] not in ("alloca",)]
            if st:
                chk.unknown("N9.assert-before-store", "%s %s" % (fn.name, p.ret_inst.loc if p.ret_inst is not None else ""),
                            "%s reaches an assertion after it has already stored into the list (%s): the assertion is evaluated on a "
                            "half-updated structure, and whether it can fail on a call the API allows is not decided"
                            % (fn.name, st[0].inst.loc), st[0].inst.loc)
            else:
                chk.ob("N9.assert-before-store", "%s %s" % (fn.name, "->".join(b.lstrip("%") for b in p.blocks)[-60:]), True,
                       "the assertion is evaluated before the operation stores anything", fn.loc, fn.name)
    # (no minimum: a build with NDEBUG has no assertion paths at all)
    chk.ob("N9.assert-before-store", "list.c", True, "%d assertion-failure paths examined" % n, "", "")


def run_rules(chk):
    """N1-N3, N5, N6 on list.c / list.h (also imported by the checks whose code stands on the list API)."""
    m = build.load_unit(UNIT)
    chk.note_unit(m)
    L, N, I = layout(m)
    check_structure(chk, m, L, N, I)
    check_effects(chk, m, L, N, I)
    check_iterators(chk, m, L, N, I)
    check_assertions_precede_stores(chk, m)
