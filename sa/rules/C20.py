"""C20 - memory log keeps the most recent N messages, oldest first.

 L1 every subscript of log.line is `x mod N` (urem N, or & (N-1) for N a power of two): in bounds for every counter
 L2 vmlog writes fmt and exactly three arguments into slot (head mod N), then increments head once
 L3 the counter fold preserves the slot residue, keeps the log 'wrapped' and keeps head below 2^31
 L4 get_line(n) is NULL exactly on n >= head or n >= N; otherwise slot (n + (head >= N ? head : 0)) mod N
 L5 vmlog_nice logs exactly when head < N
 L6 mlog_dump / mlog_get_line format fmt with arg[0..2] of the line get_line returns, for n = 0,1,... until NULL;
    mlog_clear stores 0
Arithmetic lemma (evidence): with L2-L3, head == number of messages (mod N) and head >= N iff at least N messages were
logged since the clear; hence L4's slot is message number total - min(total, N) + n.
"""
from .. import build, flow, paths
from ..ir import AnalysisError
from ..paths import fmt, ptr_parts, strip_casts

UNIT = "librfn/mlog.c"


HEAD_META = {}      # id(module) -> {"bits": width of log.head, "T": inductive bound head < T found for vmlog}


def log_info(m, strict=True):
    g = m.globals.get("log")
    if not g or not g.get("di_ty"):
        raise AnalysisError("anchor vanished: static struct mlog log")
    leaves = {p: (o, s, t) for p, o, s, t in m.di_leaves(g["di_ty"])}
    if "head" not in leaves or "line" not in leaves:
        raise AnalysisError("anchor vanished: log.head / log.line")
    # further members: harmless if nothing depends on them; otherwise the log keeps state (a write cursor, a free count) that
    # the rules stated over {head, line} know nothing about
    from .purity import member_influences_protocol
    tops = sorted(set(p.split(".")[0].split("[")[0] for p in leaves))
    for f in tops:
        if strict and f not in ("head", "line") and member_influences_protocol(m, ("log",), f, ("head", "line[].fmt", "line[].arg[]")):
            raise AnalysisError("anchor vanished: struct mlog carries additional state (%s) that the log's operations depend on: its "
                                "representation changed and the rules stated over {head, line} cannot decide this tree" % f)
    arr = m.di_array_info(leaves["line"][2])
    if not arr:
        raise AnalysisError("log.line is not an array")
    n = arr[1]
    esz = leaves["line"][1] // n
    HEAD_META[id(m)] = {"bits": leaves["head"][1] * 8, "T": None}
    return leaves["head"][0], leaves["line"][0], n, esz


def is_head(ptr, info):
    return ptr_parts(ptr) == (("g", "log"), info[0], ())


def line_access(ptr, info):
    """(index expr, offset inside the element) if ptr addresses log.line[idx].field"""
    root, off, var = ptr_parts(ptr)
    head_off, line_off, n, esz = info
    if root != ("g", "log"):
        return None
    if line_off <= off < line_off + n * esz or (var and off < line_off + esz):
        if len(var) == 1 and var[0][1] == esz:
            return var[0][0], off - line_off
        if not var:
            return ("c", 64, (off - line_off) // esz), (off - line_off) % esz
        return ("?",), 0
    return None


def mod_n(idx, n):
    """X if idx == X mod n, else None."""
    c = strip_casts(idx)
    if c[0] == "c":
        return c if c[2] < n else None
    if c[0] == "b" and c[1] in ("urem",) and c[4] == ("c", c[2], n):
        return c[3]
    if c[0] == "b" and c[1] == "and" and n & (n - 1) == 0 and c[4][0] == "c" and c[4][2] == n - 1:
        return c[3]
    return None


def bounded_by_conds(idx, p, n):
    """Is idx < n implied by a branch condition of the path (idx ult n / idx ule n-1 ...)?"""
    core = strip_casts(idx)
    for c, taken, inst in p.conds:
        cc = strip_casts(c)
        if cc[0] != "icmp":
            continue
        a, b, pred = strip_casts(cc[2]), strip_casts(cc[3]), cc[1]
        if not taken:
            pred = {"ult": "uge", "uge": "ult", "ule": "ugt", "ugt": "ule", "slt": "sge", "sge": "slt",
                    "sle": "sgt", "sgt": "sle", "eq": "ne", "ne": "eq"}[pred]
        if a == core and b[0] == "c":
            if pred in ("ult", "slt") and b[2] <= n:
                return True
            if pred in ("ule", "sle") and b[2] <= n - 1:
                return True
        if b == core and a[0] == "c":
            if pred in ("ugt", "sgt") and a[2] <= n:
                return True
            if pred in ("uge", "sge") and a[2] <= n - 1:
                return True
    return False


def path_prover(p, info, atom_of):
    """Prover with the path's branch conditions as hypotheses (those that are linear comparisons)."""
    from ..domains.lin import Lin, Prover, expr_to_lin
    pr = Prover()
    skipped = []
    for c, taken, inst in p.conds:
        cc = strip_casts(c)
        if cc[0] != "icmp":
            skipped.append(fmt(cc)[:60])
            continue
        pred = cc[1]
        if not taken:
            pred = {"ult": "uge", "uge": "ult", "ule": "ugt", "ugt": "ule", "eq": "ne", "ne": "eq",
                    "slt": "sge", "sge": "slt", "sle": "sgt", "sgt": "sle"}[pred]
        a, b = expr_to_lin(norm_head(cc[2], info), atom_of), expr_to_lin(norm_head(cc[3], info), atom_of)
        named = lambda l: all(isinstance(k, str) for k in l.atoms())
        if not (named(a) and named(b)):
            skipped.append(fmt(cc)[:60])
            continue
        p2 = pred[1:] if pred[0] in "us" and len(pred) == 3 else pred
        if p2 == "lt":
            pr.assume_lt(a, b)
        elif p2 == "le":
            pr.assume_le(a, b)
        elif p2 == "gt":
            pr.assume_lt(b, a)
        elif p2 == "ge":
            pr.assume_le(b, a)
        elif p2 == "eq":
            pr.assume_eq(a, b)
        elif p2 == "ne":
            pr.assume_ne(a, b)
    return pr, skipped


def boundary_values(n):
    return sorted(set([0, 1, 2, n - 2, n - 1, n, n + 1, 2 * n - 1, 2 * n, 2 * n + 1, 3 * n]))


def bdd_subscript_bound(fn, conds, sub, info):
    """True if conds imply sub <u N for all 32-bit arguments and head < 2^31; None if not decided."""
    from ..domains.bdd import BDD, BV
    from ..domains.bvexec import expr_bv, Top
    head_off, line_off, N, esz = info
    B = BDD()
    bv = BV(B)
    vars_ = {}

    def var(key):
        if key not in vars_:
            k = len(vars_)
            vars_[key] = [B.var(4 * i + k) for i in range(32)]
        return vars_[key]

    def atom(x):
        if x[0] == "arg" and x[1] < len(fn.args) and paths.int_bits_of(fn.args[x[1]].ty) == 32 and x[1] < 3:
            return var(("arg", x[1]))
        if x[0] == "ld" and is_head(x[1], info):
            return var("head")
        return None
    try:
        pc = 1
        for c, taken, inst in conds:
            if inst is not None and getattr(inst, "op", None) == "switch":
                return None
            v = expr_bv(c, bv, atom)
            bit = 0
            for x in v:
                bit = B.OR(bit, x)
            pc = B.AND(pc, bit if taken else B.NOT(bit))
        sv = expr_bv(sub, bv, atom)
    except (Top, KeyError, IndexError, TypeError):
        return None
    if "head" in vars_:
        pc = B.AND(pc, bv.ult(vars_["head"], bv.const(1 << 31, 32)))
    bad = B.AND(pc, B.NOT(bv.ult(sv, bv.const(N, len(sv)))))
    return True if bad == 0 else None


class _Conds:
    def __init__(self, conds):
        self.conds = conds


def _subscript_witness(fn, conds, sub, info):
    from itertools import product
    head_off, line_off, n, esz = info
    atoms = set()
    for e in [sub] + [c for c, t, i in conds]:
        for x in paths.subexprs(e):
            if x[0] == "arg" or (x[0] == "ld" and is_head(x[1], info)):
                atoms.add(x)
    atoms = sorted(atoms, key=str)
    if not atoms or len(atoms) > 3:
        return None
    argv = (0, 1, 2, 255, 256, 0xffffffff, 0xffffff00, 0x7fffffff, 0x80000000)
    headv = (0, 1, 255, 256, 1000, 0x7fffff00, 0x7fffff01, 0x7ffffffe, 0x7fffffff)
    for vals in product(*[(headv if a[0] == "ld" else argv) for a in atoms]):
        env = dict(zip(atoms, vals))
        try:
            if not all(paths.cond_holds(cd, env) for cd in conds if cd[2] is None or cd[2].op != "switch"):
                continue
            v = paths.eval_concrete(sub, env)
        except paths.NoValue:
            return None
        bits = paths.expr_bits(sub) or 64
        v &= (1 << bits) - 1
        if v >> (bits - 1):
            v -= 1 << bits
        if not 0 <= v < n:
            return v, {("head" if a[0] == "ld" else "argument %d" % a[1]): (x if x < 0x80000000 or a[0] == "ld" else x - (1 << 32)) for a, x in env.items()}
    return None


def decide_subscript(chk, m, info, fn, conds, sub, inst, what, depth):
    """L1 for one access: subscript expression `sub` under branch conditions `conds` inside fn."""
    from ..domains.lin import Lin, expr_to_lin
    head_off, line_off, n, esz = info
    p = _Conds(conds)
    if mod_n(sub, n) is not None:
        chk.ob("L1.subscript-in-bounds", what, True, "subscript %s is a residue mod %d" % (fmt(sub)[:60], n), inst.loc, fn.name)
        return
    if bounded_by_conds(sub, p, n):
        chk.ob("L1.subscript-in-bounds", what, True, "subscript %s is tested against %d on this path" % (fmt(sub)[:60], n), inst.loc, fn.name)
        return

    def atom_of(x):
        if x[0] == "arg":
            return "arg%d" % x[1]
        if x[0] == "ld" and is_head(x[1], info):
            return "head"
        return None
    pr, skipped = path_prover(p, info, atom_of)
    idx = expr_to_lin(norm_head(sub, info), atom_of)
    named = all(isinstance(k, str) for k in idx.atoms())
    if named and pr.prove_ge0(idx) and pr.prove_le(idx, Lin.const(n - 1)):
        chk.ob("L1.subscript-in-bounds", what, True, "subscript %s proved within [0, %d] from the path conditions" % (idx, n - 1),
               inst.loc, fn.name)
        return
    # bit-precise attempt: conditions and subscript as functions of the 32-bit arguments and of head (< 2^31)
    bd = bdd_subscript_bound(fn, conds, sub, info)
    if bd is True:
        chk.ob("L1.subscript-in-bounds", what, True, "subscript %s < %d under the path conditions, for all 32-bit argument values "
               "and every head < 2^31 (BDD)" % (fmt(sub)[:50], n), inst.loc, fn.name)
        return
    if fn.internal and named and any(a.startswith("arg") for a in idx.atoms()):
        # a file-local helper: its arguments are whatever its callers pass
        if range_walker_summary(m, fn, info) is not None:
            chk.ob("L1.subscript-in-bounds", what, True, "%s walks the slots [arg, arg): the ranges its callers pass are "
                   "bounded by rule L6.dump-range-bounds" % fn.name, inst.loc, fn.name)
            return
        if depth >= 2:
            chk.unknown("L1.subscript-in-bounds", what, "subscript %s depends on the arguments of file-local %s through more than "
                        "two levels of callers" % (idx, fn.name), inst.loc)
            return
        ncall = 0
        for caller in m.defined_functions():
            if caller.name == fn.name:
                continue
            for cp in paths.enumerate_paths(caller, m, loop_bound=1):
                for e in cp.events:
                    if e.kind == "call" and e.callee == fn.name:
                        ncall += 1
                        # branch conditions that depend on the result of this call (or a later one) are evaluated after
                        # the access and are not preconditions of it
                        seq = e.res[3] if e.res is not None and e.res[0] == "call" else None
                        later = lambda c: seq is not None and paths.contains(c, lambda x: x[0] == "call" and len(x) > 3 and
                                                                             isinstance(x[3], int) and x[3] >= seq)
                        cc = [x for x in cp.conds if not later(x[0])] + [(paths.subst_args(c, e.args), t, i) for c, t, i in conds]
                        decide_subscript(chk, m, info, caller, cc, paths.subst_args(sub, e.args), inst,
                                         "%s called from %s line %s" % (what, caller.name, e.inst.loc.split(":")[-1] if e.inst.loc else "?"), depth + 1)
        if ncall == 0:
            chk.ob("L1.subscript-in-bounds", what, True, "file-local %s has no callers" % fn.name, inst.loc, fn.name)
        return
    env = None
    # concrete witness search: the path's conditions and the subscript evaluated bit-precisely on boundary values of the arguments
    # and of head (within the scope head < 2^31)
    w = _subscript_witness(fn, conds, sub, info)
    if w is not None:
        chk.ob("L1.subscript-in-bounds", what, False,
               "subscript %s of log.line[%d] is %d with %s: outside the array (a signed remainder is negative for a negative dividend; "
               "the sum wraps the int once head + n reaches 2^31)" % (fmt(sub)[:50], n, w[0], w[1]), inst.loc, fn.name)
        return
    if named and not skipped:
        atoms = sorted(idx.atoms() | set().union(*[h.atoms() for h in pr.hyps + pr.neqs]) if (pr.hyps or pr.neqs) else idx.atoms())
        env = pr.refute_ge0(Lin.const(n - 1) - idx, {a: boundary_values(n) for a in atoms})
    if env is not None:
        chk.ob("L1.subscript-in-bounds", what, False,
               "subscript %s of log.line[%d] can be out of bounds, e.g. with %s" % (idx, n, {k: int(v) for k, v in env.items()}),
               inst.loc, fn.name)
    else:
        chk.unknown("L1.subscript-in-bounds", what, "subscript %s of log.line is neither a residue mod %d nor bounded by "
                    "the path conditions: not decided%s" % (fmt(sub)[:60], n, ("; conditions not modelled: %s" % skipped) if skipped else ""), inst.loc)


def check_subscripts(chk, m, info):
    n_acc = 0
    head_off, line_off, n, esz = info
    for fn in m.defined_functions():
        ps = paths.enumerate_paths(fn, m, loop_bound=1)
        sites = []
        for p in ps:
            for e in p.events:
                if e.kind in ("load", "store") and e.ptr is not None:
                    la = line_access(e.ptr, info)
                    if la is not None:
                        sites.append((p, la, e.inst, "%s %s" % (fn.name, e.kind)))
            if p.ret is not None and p.ret[0] in ("p", "g"):
                la = line_access(p.ret, info)
                if la is not None:
                    sites.append((p, la, p.ret_inst, "%s returned line" % fn.name))
        for p, la, inst, what in sites:
            n_acc += 1
            decide_subscript(chk, m, info, fn, p.conds, la[0], inst, what, 0)
    chk.expect("L1", "subscripted accesses to log.line", n_acc, 2)


def norm_head(e, info):
    """Loads of log.head with different memory tags are the same value as long as no store to head intervenes
    (stores into log.line cannot alias head once L1 holds): erase the tag."""
    if isinstance(e, tuple):
        if e and e[0] == "ld" and is_head(e[1], info):
            return ("ld", e[1], e[2], 0)
        return tuple(norm_head(x, info) if isinstance(x, tuple) else x for x in e)
    return e


def check_vmlog(chk, m, info):
    fn = m.fn("vmlog")
    chk.note_fn(fn)
    head_off, line_off, n, esz = info
    ps = paths.enumerate_paths(fn, m)
    for p in ps:
        if paths.is_assert_fail_path(p):
            continue
        pid = "vmlog path " + "->".join(b.lstrip("%") for b in p.blocks)
        ev = p.events
        hl = [k for k, e in enumerate(ev) if e.kind == "load" and is_head(e.ptr, info)]
        hs = [k for k, e in enumerate(ev) if e.kind == "store" and is_head(e.ptr, info)]
        ls = [(k, e, line_access(e.ptr, info)) for k, e in enumerate(ev) if e.kind == "store" and line_access(e.ptr, info)]
        if not hl or not hs:
            chk.ob("L2.write-then-count", pid, False, "head is not loaded and stored on this path", fn.loc, fn.name)
            continue
        old = norm_head(ev[hl[0]].val, info)
        offs = sorted(la[1] for k, e, la in ls)
        want = [0] + [8 + 8 * i for i in range((esz - 8) // 8)]
        ok_fields = offs == want
        idx_ok = all(mod_n(la[0], n) is not None and norm_head(strip_casts(mod_n(la[0], n)), info) == old for k, e, la in ls)
        before = all(k < hs[0] for k, e, la in ls)
        fmt_ok = any(la[1] == 0 and e.val == ("arg", 0) for k, e, la in ls)
        # every argument slot receives a value fetched from the caller's argument list (whatever the format string says:
        # "%*d" consumes two arguments for one conversion), never a constant
        consts = [(k, e, la) for k, e, la in ls if la[1] != 0 and strip_casts(e.val)[0] in ("c", "null")]
        if not consts:
            chk.ob("L2.args-from-caller", pid, True, "no argument slot is filled with a constant on this path", ev[hs[0]].inst.loc, fn.name)
        if consts:
            chk.ob("L2.args-from-caller", pid, False,
                   "argument slot at element offset %d is filled with the constant %s on this path instead of the caller's next "
                   "argument: a message whose format consumes it (for example \"%%*d\") is later formatted with the wrong value"
                   % (consts[0][2][1], fmt(consts[0][1].val)), consts[0][1].inst.loc, fn.name)
        chk.ob("L2.write-then-count", pid, ok_fields and idx_ok and before and fmt_ok,
               "stores fmt + %d arguments (element offsets %s, expected %s) into slot (old head mod %d)%s%s, before the counter is incremented"
               % (len(want) - 1, offs, want, n, "" if idx_ok else " [slot index is not the old head mod N]",
                  "" if fmt_ok else " [fmt not stored at offset 0]"), ev[hs[0]].inst.loc, fn.name)
    # --- the counter update as a function head' = f(head), bit-precise over all head < 2^31 -------------------------
    from ..domains.bdd import BDD, BV
    from ..domains.bvexec import expr_bv, Top
    B = BDD()
    bv = BV(B)
    W = HEAD_META[id(m)]["bits"]
    hv = bv.inputs(0, W)

    def atom(x):
        if x[0] == "ld" and is_head(x[1], info):
            return hv
        return None
    inv = 1
    newh = None
    covered = 0
    cands = set()
    try:
        for p in ps:
            if paths.is_assert_fail_path(p):
                continue
            hs = [e for e in p.events if e.kind == "store" and is_head(e.ptr, info)]
            if not hs:
                continue
            pc = inv
            for c, taken, inst in p.conds:
                if not paths.contains(c, lambda x: x[0] == "ld" and is_head(x[1], info)):
                    continue
                if inst is not None and inst.op == "switch":
                    raise Top("switch on the counter")
                v = expr_bv(c, bv, atom)
                bit = 0
                for x in v:
                    bit = B.OR(bit, x)
                pc = B.AND(pc, bit if taken else B.NOT(bit))
            val = expr_bv(hs[-1].val, bv, atom)
            val = bv.trunc(val, W) if len(val) >= W else bv.zext(val, W)
            newh = val if newh is None else bv.mux(pc, val, newh)
            covered = B.OR(covered, pc)
            for c, taken, inst in p.conds:
                for x in paths.subexprs(c):
                    if x[0] == "c" and 0 < x[2] <= (1 << W):
                        cands.add(x[2])
    except Top as t:
        chk.unknown("L3.fold", "vmlog", "counter update outside the bit-vector fragment: %s" % t, fn.loc)
        return
    if newh is None:
        return
    loc = fn.loc
    # the inductive bound of the counter: the smallest T among the constants the counter is compared with (and 2^31, 2^W)
    # such that head < T holds after mlog_clear (0) and is preserved by vmlog
    T = None
    for cand in sorted(cands | {min(1 << 31, 1 << W), 1 << W}):
        below = bv.ult(bv.zext(hv, W + 1), bv.const(cand, W + 1))
        if B.AND(below, B.NOT(bv.ult(bv.zext(newh, W + 1), bv.const(cand, W + 1)))) == 0:
            T = cand
            break
    HEAD_META[id(m)]["T"] = T
    inv = bv.ult(bv.zext(hv, W + 1), bv.const(T, W + 1))
    hv32, newh32 = hv, newh
    if W < 32:
        hv, newh = bv.zext(hv, 32), bv.zext(newh, 32)
    elif W > 32:
        chk.unknown("L3.fold", "vmlog", "a %d-bit counter is not modelled" % W, fn.loc)
        return

    def show(f):
        a = B.sat_one(f) or {}
        return "head == %d (0x%x)" % ((sum((1 << i) for i in range(32) if a.get(i)),) * 2)
    gap = B.AND(inv, B.NOT(covered))
    h1 = bv.add(hv, bv.const(1, 32))
    # (h1 is the mathematical successor: for a member narrower than 32 bits the addition above cannot wrap, and the stored
    # value newh - which the member truncates - is compared with it)
    small = bv.ult(h1, bv.const(n, 32))
    bad = B.OR(gap, B.AND(B.AND(inv, small), B.NOT(bv.eq(newh, h1))))
    chk.ob("L2.increment", "vmlog", bad == 0,
           "below %d messages the counter is exactly old head + 1 (every head)" % n if bad == 0 else
           "the counter is not old head + 1 for %s" % show(bad), loc, fn.name)
    mask = bv.const(n - 1, 32) if n & (n - 1) == 0 else None
    if mask is None:
        chk.unknown("L3.fold-residue", "vmlog", "line count %d is not a power of two: residues not modelled" % n, loc)
    else:
        bad = B.AND(inv, B.NOT(bv.eq(bv.AND(newh, mask), bv.AND(h1, mask))))
        chk.ob("L3.fold-residue", "vmlog", bad == 0,
               "new head == old head + 1 (mod %d) for every head < 2^31: the slot order survives whatever folding is done" % n if bad == 0 else
               "the slot residue (head mod %d) is not preserved for %s: new head mod %d differs from (old head + 1) mod %d, so the "
               "oldest-first order is rotated" % (n, show(bad), n, n), loc, fn.name)
    bad = B.AND(B.AND(inv, B.NOT(small)), bv.ult(newh, bv.const(n, 32)))
    chk.ob("L3.fold-stays-wrapped", "vmlog", bad == 0,
           "once %d messages have been logged the counter never drops below %d again" % (n, n) if bad == 0 else
           "the counter drops below %d for %s: the log forgets that it has wrapped" % (n, show(bad)), loc, fn.name)
    ok = T is not None and T <= (1 << 31)
    chk.ob("L3.fold-threshold", "vmlog", ok,
           "head < %d is an inductive bound of the %d-bit counter (holds after mlog_clear, preserved by vmlog) and is at most 2^31, so a "
           "negative int index, converted to unsigned, is >= head and is rejected" % (T, W) if ok else
           "no bound of the counter below 2^31 is preserved by vmlog: the counter can reach 2^31 and a negative index is then accepted",
           loc, fn.name)


def check_get_line_bdd(chk, m, info):
    """L4 decided bit-precisely: get_line as a function of the 32-bit patterns of n and head (head below 2^31, which L3
    maintains).  For every path: NULL is returned only where NOT valid, a line only where valid, with
    valid := n <u head and n <u N (so a negative int index, whose pattern is >= 2^31, is never valid); and the slot
    returned is (n + (head >= N ? head : 0)) mod N.  Returns False if the function is outside the bit-vector fragment."""
    from ..domains.bdd import BDD, BV
    from ..domains.bvexec import expr_bv, Top
    fn = m.fn("get_line")
    head_off, line_off, N, esz = info
    if N & (N - 1):
        return False
    B = BDD()
    bv = BV(B)
    nv = [B.var(2 * i) for i in range(32)]
    W = HEAD_META[id(m)]["bits"]
    T = HEAD_META[id(m)]["T"] or min(1 << 31, 1 << W)
    if W > 32:
        return False
    hw = [B.var(2 * i + 1) for i in range(W)]
    hv = bv.zext(hw, 32) if W < 32 else hw
    abits = paths.int_bits_of(fn.args[0].ty) if fn.args else None
    if abits != 32:
        return False

    def atom(x):
        if x == ("arg", 0):
            return nv
        if x[0] == "ld" and is_head(x[1], info):
            return hw
        return None
    dom = bv.ult(bv.zext(hv, 33), bv.const(T, 33))
    valid = B.AND(bv.ult(nv, hv), bv.ult(nv, bv.const(N, 32)))
    wrapped = B.NOT(bv.ult(hv, bv.const(N, 32)))
    want_slot = bv.AND(bv.add(nv, bv.mux(wrapped, hv, bv.const(0, 32))), bv.const(N - 1, 32))

    def show(f):
        a = B.sat_one(f) or {}
        n_ = sum((1 << i) for i in range(32) if a.get(2 * i))
        h_ = sum((1 << i) for i in range(32) if a.get(2 * i + 1))
        return "n=%d%s head=%d" % (n_, " (int %d)" % (n_ - (1 << 32)) if n_ >> 31 else "", h_)
    ps = [p for p in paths.enumerate_paths(fn, m) if not paths.is_assert_fail_path(p)]
    results = []
    try:
        for p in ps:
            pc = dom
            for c, taken, inst in p.conds:
                if inst is not None and inst.op == "switch":
                    raise Top("switch")
                v = expr_bv(c, bv, atom)
                bit = 0
                for x in v:
                    bit = B.OR(bit, x)
                pc = B.AND(pc, bit if taken else B.NOT(bit))
            slot = None
            if p.ret != ("null",):
                la = line_access(p.ret, info)
                if la is None:
                    raise Top("returned pointer %s is not an element of log.line" % fmt(p.ret)[:50])
                slot = expr_bv(la[0], bv, atom)
            results.append((p, pc, slot))
    except Top:
        return False
    for p, pc, slot in results:
        pid = "get_line path " + "->".join(b.lstrip("%") for b in p.blocks)
        if pc == 0:
            continue
        if slot is None:
            bad = B.AND(pc, valid)
            chk.ob("L4.reader-predicate", pid, bad == 0,
                   "NULL is returned only when n >= head or n >= %d (all 32-bit n, negative int included; head < 2^31)" % N if bad == 0 else
                   "NULL is returned although n < head and n < %d, e.g. %s: a stored message is hidden" % (N, show(bad)),
                   p.ret_inst.loc, fn.name)
            continue
        bad = B.AND(pc, B.NOT(valid))
        chk.ob("L4.reader-predicate", pid, bad == 0,
               "a line is returned only when n < head and n < %d (all 32-bit n, negative int included; head < 2^31)" % N if bad == 0 else
               "a line is returned for %s: an index outside the stored messages (a negative one included) must yield NULL" % show(bad),
               p.ret_inst.loc, fn.name)
        w = max(len(slot), 32)
        s2 = bv.zext(slot, w) if len(slot) < w else slot
        ws = bv.zext(want_slot, w)
        bad = B.AND(B.AND(pc, valid), B.NOT(bv.eq(s2, ws)))
        chk.ob("L4.reader-index", pid, bad == 0,
               "slot == (n + (head >= %d ? head : 0)) mod %d for every valid n and every head" % (N, N) if bad == 0 else
               "the slot returned is not (n + (head >= %d ? head : 0)) mod %d, e.g. %s" % (N, N, show(bad)), p.ret_inst.loc, fn.name)
    chk.expect("L4", "paths of get_line", len(results), 2)
    return True


def check_get_line(chk, m, info):
    from ..domains.lin import Lin, expr_to_lin
    fn = m.fn("get_line")
    chk.note_fn(fn)
    if check_get_line_bdd(chk, m, info):
        return
    head_off, line_off, n, esz = info
    N = n
    ps = paths.enumerate_paths(fn, m)
    arg = ("arg", 0)
    is_head_ld = lambda x: x[0] == "ld" and is_head(x[1], info)
    MAXH = (1 << 32) - 1

    def atom_of(x):
        if x == arg:
            return "n"
        if is_head_ld(x):
            return "head"
        return None

    for p in ps:
        pid = "get_line path " + "->".join(b.lstrip("%") for b in p.blocks)
        pr, skipped = path_prover(p, info, atom_of)
        if skipped:
            chk.unknown("L4.reader-predicate", pid, "condition not modelled: %s" % skipped[0], p.ret_inst.loc)
            continue
        n_, h_ = Lin.atom("n"), Lin.atom("head")
        bv = {"n": boundary_values(N), "head": boundary_values(N)}
        if p.ret == ("null",):
            q = pr.clone()
            q.assume_lt(n_, h_)
            q.assume_lt(n_, Lin.const(N))
            if q.infeasible():
                chk.ob("L4.reader-predicate", pid, True, "NULL is returned only when n >= head or n >= %d" % N, p.ret_inst.loc, fn.name)
            else:
                env = q.refute_ge0(Lin.const(-1), bv)
                if env is not None:
                    chk.ob("L4.reader-predicate", pid, False,
                           "NULL is returned although n < head and n < %d, e.g. n=%d head=%d: a stored message is hidden"
                           % (N, env["n"], env["head"]), p.ret_inst.loc, fn.name)
                else:
                    chk.unknown("L4.reader-predicate", pid, "cannot decide the NULL predicate", p.ret_inst.loc)
            continue
        ok1, ok2 = pr.prove_lt(n_, h_), pr.prove_lt(n_, Lin.const(N))
        if ok1 and ok2:
            chk.ob("L4.reader-predicate", pid, True, "a line is returned only when n < head and n < %d" % N, p.ret_inst.loc, fn.name)
        else:
            env = pr.refute_ge0(h_ - n_ - 1, bv) if not ok1 else pr.refute_ge0(Lin.const(N - 1) - n_, bv)
            if env is not None:
                chk.ob("L4.reader-predicate", pid, False,
                       "a line is returned for n=%d with head=%d: index beyond the stored messages must yield NULL"
                       % (env["n"], env["head"]), p.ret_inst.loc, fn.name)
            else:
                chk.unknown("L4.reader-predicate", pid, "cannot decide the line predicate", p.ret_inst.loc)
            continue
        # head interval from the hypotheses (for the slot formula)
        hlo, hhi = 0, MAXH
        for v in boundary_values(N):
            if pr.prove_le(Lin.const(v), h_):
                hlo = max(hlo, v)
            if pr.prove_le(h_, Lin.const(v)):
                hhi = min(hhi, v)
        facts = {"n>=N": False}
        la = line_access(p.ret, info)
        x = mod_n(la[0], N) if la else None
        if x is None and la is not None and facts.get("n>=N") is False:
            x = la[0]       # an unreduced subscript already known to be < N
        if x is None:
            chk.unknown("L4.reader-index", pid, "returned pointer %s is not &log.line[x mod N]" % fmt(p.ret)[:60], p.ret_inst.loc)
            continue
        lin = expr_to_lin(x, atom_of)
        if not lin.atoms() <= {"n", "head"}:
            chk.unknown("L4.reader-index", pid, "slot expression %s is not linear in n and head" % fmt(x)[:60], p.ret_inst.loc)
            continue
        a, b, c0 = int(lin.co.get("n", 0)), int(lin.co.get("head", 0)), int(lin.c)
        bad = None
        # sub-case A: head < N (not wrapped): slot == n ; sub-case B: head >= N: slot == n + head   (mod N)
        for (lo, hi, want_b, name) in ((hlo, min(hhi, N - 1), 0, "head < %d" % N), (max(hlo, N), hhi, 1, "head >= %d" % N)):
            if lo > hi:
                continue
            if (a - 1) % N:
                bad = "%s: coefficient of n is %d" % (name, a)
            elif lo == hi:
                if ((b - want_b) * lo + c0) % N:
                    bad = "%s (head == %d): slot %s != n%s (mod %d)" % (name, lo, lin, " + head" if want_b else "", N)
            elif (b - want_b) % N or c0 % N:
                bad = "%s: slot is %s, expected n%s (mod %d)" % (name, lin, " + head" if want_b else "", N)
        chk.ob("L4.reader-index", pid, bad is None,
               "slot = %s (mod %d) with head in [%d, %d]: must be n when the log has not wrapped and n + head when it has%s"
               % (lin, N, hlo, hhi, "" if bad is None else "; " + bad), p.ret_inst.loc, fn.name)
    chk.expect("L4", "paths of get_line", len(ps), 3)


def _head_grid(n):
    return sorted(set(h for h in (0, 1, 2, 3, n - 2, n - 1, n, n + 1, 2 * n - 1, 2 * n, 2 * n + 1, 1000 * n, (1 << 31) - 2, (1 << 31) - 1,
                                  1 << 31, (1 << 32) - 1) if 0 <= h < (1 << 32)))


def _head_grid_fact(p, info, pred):
    """True / False if every head value (of a grid around 0, N, 2N, 2^31, 2^32) for which the path's conditions hold satisfies /
    violates pred; 'infeasible' if none holds; None if mixed or not evaluable."""
    n = info[2]
    hlds = set(x for c, t, i in p.conds for x in paths.subexprs(c) if x[0] == "ld" and is_head(x[1], info))
    if not hlds:
        return None
    got = set()
    for h in _head_grid(n):
        env = {x: h for x in hlds}
        try:
            if all(paths.cond_holds(cd, env) for cd in p.conds):
                got.add(bool(pred(h)))
        except paths.NoValue:
            return None
    if not got:
        return "infeasible"
    return got.pop() if len(got) == 1 else None


def check_nice_clear(chk, m, info):
    head_off, line_off, n, esz = info
    fn = m.fn("vmlog_nice")
    chk.note_fn(fn)
    for p in paths.enumerate_paths(fn, m):
        calls = [e for e in p.events if e.kind == "call" and e.callee == "vmlog"]
        fact = None
        for c, taken, inst in p.conds:
            cc = strip_casts(c)
            if cc[0] == "icmp" and strip_casts(cc[2])[0] == "ld" and is_head(strip_casts(cc[2])[1], info) and cc[3][0] == "c":
                v = cc[3][2]
                if cc[1] == "ult" and v == n:
                    fact = bool(taken)
                elif cc[1] == "ule" and v == n - 1:
                    fact = bool(taken)
                elif cc[1] == "uge" and v == n:
                    fact = not taken
                elif cc[1] == "ugt" and v == n - 1:
                    fact = not taken
                else:
                    fact = "other: %s" % fmt(cc)[:50]
        if True:
            # the decision written in another way (through a count / space accessor): evaluate the path's conditions as a function
            # of head on a grid around every boundary that matters
            r = _head_grid_fact(p, info, lambda h: h < n)
            if r == "infeasible":
                continue
            if r is not None:
                fact = r
        pid = "vmlog_nice path " + "->".join(b.lstrip("%") for b in p.blocks)
        # the effect of logging, done inline instead of through vmlog: fmt and the arguments stored into slot `head` (which is
        # head mod N below N) and head := head + 1 (no fold can be due below N)
        ev = p.events
        ls = [(e, line_access(e.ptr, info)) for e in ev if e.kind == "store" and line_access(e.ptr, info)]
        hs = [e for e in ev if e.kind == "store" and is_head(e.ptr, info)]
        inline_log = False
        if ls or hs:
            want = [0] + [8 + 8 * i for i in range((esz - 8) // 8)]
            offs = sorted(la[1] for e, la in ls)

            def slot_is_head(x):
                x = norm_head(strip_casts(mod_n(x, n) if mod_n(x, n) is not None else x), info)
                x = strip_casts(x)
                return x[0] == "ld" and is_head(x[1], info)
            hv = norm_head(strip_casts(hs[-1].val), info) if hs else None
            inc_ok = hv is not None and hv[0] == "b" and hv[1] == "add" and strip_casts(hv[3])[0] == "ld" and is_head(strip_casts(hv[3])[1], info) \
                and hv[4][0] == "c" and hv[4][2] == 1
            inline_log = offs == want and all(slot_is_head(la[0]) for e, la in ls) and len(hs) == 1 and inc_ok and \
                any(la[1] == 0 and e.val == ("arg", 0) for e, la in ls) and all(ev.index(e) < ev.index(hs[0]) for e, la in ls)
        logged = (len(calls) == 1 and not ls and not hs) or (not calls and inline_log)
        silent = not calls and not ls and not hs
        ok = (fact is True and logged) or (fact is False and silent)
        chk.ob("L5.nice", pid, ok, "logs exactly when head < %d (test %s; %d call(s) of vmlog, %d line stores, %d head stores%s)"
               % (n, fact, len(calls), len(ls), len(hs), ", inline effect equals vmlog's below the wrap" if inline_log else ""), fn.loc, fn.name)
    check_clear(chk, m, info)


def check_clear(chk, m, info):
    head_off, line_off, n, esz = info
    fc = m.fn("mlog_clear")
    chk.note_fn(fc)
    for p in paths.enumerate_paths(fc, m):
        st = [e for e in p.events if e.kind == "store" and is_head(e.ptr, info)]
        chk.ob("L6.clear", "mlog_clear", len(st) == 1 and st[0].val[0] == "c" and st[0].val[2] == 0, "mlog_clear stores 0 to head", fc.loc, fc.name)
        # "since the last mlog_clear": every bookkeeping field of the log object that any function consults must be back at
        # its initial value (0, the object is static) after mlog_clear - a flag or cached count that survives the clear makes
        # the readers see messages from before it
        consulted = {}
        for g in m.defined_functions():
            for i in g.real_insts():
                if i.op != "load":
                    continue
                try:
                    pp = flow.resolve_ptr(i.ops[0], m)
                except AnalysisError:
                    continue
                if pp.root.k == "global" and pp.root.name == "log" and not pp.var and not (line_off <= pp.off < line_off + n * esz):
                    consulted.setdefault(pp.off, (g.name, i.loc))
        cleared = set()
        whole = False
        for e in p.events:
            if e.kind == "store" and e.ptr is not None and ptr_parts(e.ptr)[0] == ("g", "log") and not ptr_parts(e.ptr)[2] \
                    and e.val[0] == "c" and e.val[2] == 0:
                cleared.add(ptr_parts(e.ptr)[1])
            if e.kind == "memset" and ptr_parts(e.ptr)[0] == ("g", "log") and e.val == ("c", 8, 0):
                whole = True
        missing = sorted(o for o in consulted if o not in cleared) if not whole else []
        chk.ob("L6.clear-resets-all", "mlog_clear", not missing,
               "every bookkeeping field of log that is read anywhere (%s) is zeroed by mlog_clear" %
               ", ".join("+%d" % o for o in sorted(consulted)) if not missing else
               "log+%d is read by %s (%s) but not reset by mlog_clear: state from before the clear leaks into the readers"
               % (missing[0], consulted[missing[0]][0], consulted[missing[0]][1]), fc.loc, fc.name)


def _open_coded_format(p, pr, line, nargs):
    """The text produced without the library's allocator: measured by snprintf(NULL, 0, fmt, args), a buffer of that length + 1
    from malloc, filled by s(n)printf with the same format and arguments (size >= length + 1), and returned.  NULL may be returned
    only after the measuring call reported an error or malloc returned NULL.  -> (ok, note)"""
    names = [e.callee for e in pr]
    if any(n not in ("snprintf", "sprintf", "malloc") for n in names):
        return False, ""
    fm = [e for e in pr if e.callee in ("snprintf", "sprintf")]
    for e in fm:
        if not check_format_args(e.args[2:] if e.callee == "snprintf" else e.args[1:], line, nargs, 0):
            return False, ""
    measure = [e for e in fm if e.callee == "snprintf" and e.args[0] == ("null",) and e.args[1][0] == "c" and e.args[1][2] == 0]
    mal = [e for e in pr if e.callee == "malloc"]

    def plus1(x, ln):
        x = strip_casts(x)
        return x[0] == "b" and x[1] == "add" and strip_casts(x[3]) == strip_casts(ln) and x[4][0] == "c" and x[4][2] == 1
    ret_is_null = p.ret == ("null",)
    if mal and p.ret == mal[0].res:
        for c, taken, inst in p.conds:
            cc = strip_casts(c)
            if cc[0] == "icmp" and ("null",) in (cc[2], cc[3]) and mal[0].res in (cc[2], cc[3]) and (cc[1] == "eq") == bool(taken):
                ret_is_null = True
    if ret_is_null:
        if [e for e in fm if mal and e.args[0] == mal[0].res]:
            return False, ""        # formats through the NULL pointer
        failed = False
        for c, taken, inst in p.conds:
            cc = strip_casts(c)
            if cc[0] != "icmp":
                continue
            if measure and strip_casts(cc[2]) == strip_casts(measure[0].res) and cc[3][0] == "c" and cc[3][2] == 0 and \
                    ((cc[1] == "slt" and taken) or (cc[1] == "sge" and not taken)):
                failed = True
            if mal and ("null",) in (cc[2], cc[3]) and mal[0].res in (cc[2], cc[3]) and (cc[1] == "eq") == bool(taken):
                failed = True
        return failed, " (NULL after a failed measurement / allocation)"
    if len(measure) != 1 or len(mal) != 1 or p.ret != mal[0].res or not plus1(mal[0].args[0], measure[0].res):
        return False, ""
    fill = [e for e in fm if e.args[0] == mal[0].res]
    if len(fill) != 1 or (fill[0].callee == "snprintf" and not plus1(fill[0].args[1], measure[0].res)):
        return False, ""
    return True, " (measured with snprintf(NULL, 0, ..), allocated length + 1, filled with the same format and arguments)"


def check_readers(chk, m, info):
    head_off, line_off, n, esz = info
    nargs = (esz - 8) // 8
    # mlog_get_line(n): passes n to get_line unchanged, formats fmt + args of that line, NULL otherwise
    fn = m.fn("mlog_get_line")
    chk.note_fn(fn)
    for p in paths.enumerate_paths(fn, m):
        pid = "mlog_get_line path " + "->".join(b.lstrip("%") for b in p.blocks)
        gl = [e for e in p.events if e.kind == "call" and e.callee == "get_line"]
        if not gl and p.ret == ("null",) and not [e for e in p.events if e.kind == "call" and not str(e.callee).startswith("llvm.")]:
            # an index the reader would reject anyway, rejected up front: negative (it converts to a value >= 2^31 > head)
            neg = False
            for c, taken, inst in p.conds:
                cc = strip_casts(c)
                if cc[0] == "icmp" and strip_casts(cc[2]) == ("arg", 0) and cc[3][0] == "c" and cc[3][2] == 0 and \
                        ((cc[1] == "slt" and taken) or (cc[1] == "sge" and not taken)):
                    neg = True
            chk.ob("L6.get-line", pid, neg, "NULL without consulting the log only for a negative index (which get_line rejects: as unsigned "
                   "it is >= 2^31 > head)", p.ret_inst.loc, fn.name)
            continue
        if len(gl) != 1 or gl[0].args[0] != ("arg", 0):
            chk.ob("L6.get-line", pid, False, "get_line must be called once with the caller's index unchanged "
                   "(a negative index then converts to a value >= head and is rejected)", fn.loc, fn.name)
            continue
        line = gl[0].res
        pr = [e for e in p.events if e.kind == "call" and e.callee not in ("get_line",) and not str(e.callee).startswith("llvm.")]
        isnull = None
        for c, taken, inst in p.conds:
            cc = strip_casts(c)
            if cc[0] == "icmp" and line in (cc[2], cc[3]) and ("null",) in (cc[2], cc[3]):
                isnull = (cc[1] == "eq") == bool(taken)
        if isnull:
            chk.ob("L6.get-line", pid, p.ret == ("null",) and not pr, "no line -> NULL, nothing formatted", p.ret_inst.loc, fn.name)
        else:
            if paths.is_assert_fail_path(p):
                continue
            ok = len(pr) == 1 and check_format_args(pr[0].args, line, nargs, 0) and p.ret == pr[0].res
            how = ""
            if not ok:
                ok, how = _open_coded_format(p, pr, line, nargs)
            chk.ob("L6.get-line", pid, ok, "formats line->fmt with line->arg[0..%d] and returns the text%s" % (nargs - 1, how),
                   p.ret_inst.loc, fn.name)
    fd = m.fn("mlog_dump")
    chk.note_fn(fd)
    ps = paths.enumerate_paths(fd, m, loop_bound=2)
    ok_all = True
    seen_iter = 0
    for p in ps:
        if paths.is_assert_fail_path(p):
            continue
        gl = [e for e in p.events if e.kind == "call" and e.callee == "get_line"]
        idx = [e.args[0] for e in gl]
        want = [("c", 32, i) for i in range(len(gl))]
        good = idx == want
        pr = [e for e in p.events if e.kind == "call" and e.callee == "fprintf"]
        bound = [(c, t, i_) for c, t, i_ in p.conds if paths.contains(c, lambda x: x[0] == "ld" and is_head(x[1], info))]
        if bound:
            # a counted walk: for (i = 0; i < <number of lines held>; i++) print get_line(i).  Each line fetched is printed, and for
            # every head (on the grid) for which this complete path is the one taken, the number of lines printed is the number
            # get_line has (L4: min(head, N))
            good = good and len(pr) == len(gl)
            for i, e in enumerate(pr):
                good = good and e.args[0] == ("arg", 0) and check_format_args(e.args[1:], gl[i].res, nargs, 0)
            hlds = set(x for c, t, i_ in bound for x in paths.subexprs(c) if x[0] == "ld" and is_head(x[1], info))
            feasible = []
            for h in _head_grid(n):
                try:
                    if all(paths.cond_holds(cd, {x: h for x in hlds}) for cd in bound):
                        feasible.append(h)
                except paths.NoValue:
                    good = False
            if not feasible and good:
                continue
            good = good and all(len(pr) == min(h, n) for h in feasible)
            seen_iter = max(seen_iter, len(pr))
            if not good:
                ok_all = False
            continue
        # each printed line is the one just fetched; loop ends at the first NULL
        good = good and len(pr) == len(gl) - 1
        for i, e in enumerate(pr):
            good = good and e.args[0] == ("arg", 0) and check_format_args(e.args[1:], gl[i].res, nargs, 0)
        for (c, taken, inst), g in zip(p.conds, gl):
            cc = strip_casts(c)
            good = good and cc[0] == "icmp" and g.res in (cc[2], cc[3]) and ("null",) in (cc[2], cc[3])
        seen_iter = max(seen_iter, len(pr))
        if not good:
            ok_all = False
    if not any(e.kind == "call" and e.callee == "get_line" for p in ps for e in p.events):
        if not check_dump_ranges(chk, m, info, fd):
            chk.unknown("L6.dump", "mlog_dump", "mlog_dump neither iterates through get_line(0), get_line(1), ... nor is a sequence of "
                        "range walks over log.line: this enumeration idiom is not modelled", fd.loc)
    else:
        chk.ob("L6.dump", "mlog_dump", ok_all and seen_iter >= 2,
               "mlog_dump prints get_line(0), get_line(1), ... in order with fmt and arg[0..%d], stopping at the first NULL (or at the number of lines held) "
               "(checked on all paths with up to 2 loop iterations)" % (nargs - 1), fd.loc, fd.name)


def range_walker_summary(m, fn, info):
    """If fn(f, from, to) prints the lines of slots from, from+1, ..., to-1 (index or pointer loop), return
    (from_arg, to_arg); else None."""
    head_off, line_off, n, esz = info
    heads = fn.loops_headers()
    if len(heads) != 1:
        return None
    H = list(heads)[0]
    segs = [(s, p) for s, p in paths.enumerate_segments(fn, m) if p.end != "unreachable"]
    entry = [p for s, p in segs if s == fn.entry.name and p.end == "cut:" + H]
    body = [p for s, p in segs if s == H and p.end == "cut:" + H]
    exit_ = [p for s, p in segs if s == H and p.end == "ret"]
    if len(entry) != 1 or len(body) != 1 or len(exit_) != 1 or entry[0].conds:
        return None
    carried = getattr(entry[0], "carried", {})
    if len(carried) != 1:
        return None
    var, e0 = list(carried.items())[0]

    def slot_of(e):
        """expression for the slot number: ('arg', k) / ('sym', var) (+const) or None"""
        e = strip_casts(e)
        if e[0] in ("arg", "sym"):
            return ("idx", e, 0)
        root, off, v = ptr_parts(e)
        if root == ("g", "log") and len(v) == 1 and v[0][1] == esz and (off - line_off) % esz == 0:
            return ("idx", strip_casts(v[0][0]), (off - line_off) // esz)
        if root[0] == "sym" and not v and off % esz == 0:
            return ("ptr", root, off // esz)
        return None
    s0 = slot_of(e0)
    if s0 is None or s0[2] != 0 or s0[1][0] != "arg":
        return None
    from_arg = s0[1][1]
    b = body[0]
    pr = [e for e in b.events if e.kind == "call" and e.callee == "fprintf"]
    if len(pr) != 1:
        return None
    fmtv = strip_casts(pr[0].args[1])
    if fmtv[0] != "ld":
        return None
    ptr_mode = slot_of(e0)[0] == "idx" and ptr_parts(e0)[0] == ("g", "log")
    cur = slot_of(fmtv[1])
    sym = ("sym", var)
    if cur is None or cur[2] != 0 or cur[1] != sym:
        # pointer-valued loop variable: the line printed is *var
        if not (ptr_parts(fmtv[1]) == (sym, 0, ())):
            return None
    if not check_format_args(pr[0].args[1:], ptr_parts(fmtv[1])[0] if ptr_parts(fmtv[1])[2] == () and ptr_parts(fmtv[1])[0] == sym else fmtv[1], (esz - 8) // 8, 0):
        # arguments must be the fields of the same line
        base = fmtv[1]
        ok = len(pr[0].args) == (esz - 8) // 8 + 2
        for i, a in enumerate(pr[0].args[1:]):
            a = strip_casts(a)
            if a[0] != "ld" or a[1] != paths.mkptr(base, 8 * i):
                ok = False
        if not ok:
            return None
    step = b.carried.get(var)
    if step is None:
        return None
    st = strip_casts(step)
    ok_step = st == ("b", "add", st[2] if len(st) > 2 else 0, sym, ("c", st[2] if len(st) > 2 else 0, 1)) or st == paths.mkptr(sym, esz)
    if not ok_step:
        return None
    # continue condition: var < to  (index or pointer form)
    to_arg = None
    for c, taken, inst in b.conds:
        cc = strip_casts(c)
        if cc[0] == "icmp" and cc[1] in ("ult", "slt") and taken and strip_casts(cc[2]) == sym:
            t = slot_of(cc[3])
            if t and t[2] == 0 and t[1][0] == "arg":
                to_arg = t[1][1]
    if to_arg is None:
        return None
    return from_arg, to_arg


def check_dump_ranges(chk, m, info, fd):
    """mlog_dump as a sequence of range walks: compare, case by case on head, with the sequence get_line defines."""
    from ..domains.lin import Lin, Prover, expr_to_lin
    head_off, line_off, n, esz = info
    N = n
    ps = [p for p in paths.enumerate_paths(fd, m) if not paths.is_assert_fail_path(p)]
    helpers = {}
    for p in ps:
        for e in p.events:
            if e.kind == "call" and isinstance(e.callee, str) and m.has_fn(e.callee) and e.callee not in helpers:
                helpers[e.callee] = range_walker_summary(m, m.functions[e.callee], info)
    if not helpers or any(v is None for v in helpers.values()):
        return False
    Hd, Rr = Lin.atom("head"), Lin.atom("r")

    def atom_of(x):
        if x[0] == "ld" and is_head(x[1], info):
            return "head"
        if x[0] == "b" and x[1] in ("urem",) and x[4][0] == "c" and x[4][2] == N and strip_casts(x[3])[0] == "ld" and is_head(strip_casts(x[3])[1], info):
            return "r"
        if x[0] == "b" and x[1] == "and" and x[4][0] == "c" and x[4][2] == N - 1 and N & (N - 1) == 0 and strip_casts(x[3])[0] == "ld" \
                and is_head(strip_casts(x[3])[1], info):
            return "r"
        return None
    cases = {
        "head == 0": lambda pr: (pr.assume_eq(Hd, Lin.const(0)), pr.assume_eq(Rr, Lin.const(0))),
        "0 < head < N": lambda pr: (pr.assume_le(Lin.const(1), Hd), pr.assume_le(Hd, Lin.const(N - 1)), pr.assume_eq(Rr, Hd)),
        "head == N": lambda pr: (pr.assume_eq(Hd, Lin.const(N)), pr.assume_eq(Rr, Lin.const(0))),
        "head > N, head mod N == 0": lambda pr: (pr.assume_le(Lin.const(N + 1), Hd), pr.assume_eq(Rr, Lin.const(0))),
        "head > N, head mod N >= 1": lambda pr: (pr.assume_le(Lin.const(N + 1), Hd), pr.assume_le(Lin.const(1), Rr), pr.assume_le(Rr, Lin.const(N - 1))),
    }
    spec = {
        "head == 0": [],
        "0 < head < N": [(Lin.const(0), Hd)],
        "head == N": [(Lin.const(0), Lin.const(N))],
        "head > N, head mod N == 0": [(Lin.const(0), Lin.const(N))],
        "head > N, head mod N >= 1": [(Rr, Lin.const(N)), (Lin.const(0), Rr)],
    }
    for cname, setup in cases.items():
        pr0 = Prover()
        setup(pr0)
        chosen = []
        for p in ps:
            pr = pr0.clone()
            ok = True
            for c, taken, inst in p.conds:
                cc = strip_casts(c)
                if cc[0] != "icmp":
                    return False
                a, b = expr_to_lin(norm_head(cc[2], info), atom_of), expr_to_lin(norm_head(cc[3], info), atom_of)
                if not all(isinstance(k, str) for k in a.atoms() | b.atoms()):
                    return False
                pred = cc[1] if taken else {"ult": "uge", "uge": "ult", "ule": "ugt", "ugt": "ule", "eq": "ne", "ne": "eq",
                                            "slt": "sge", "sge": "slt", "sle": "sgt", "sgt": "sle"}[cc[1]]
                p2 = pred[1:] if pred[0] in "us" and len(pred) == 3 else pred
                {"lt": lambda: pr.assume_lt(a, b), "le": lambda: pr.assume_le(a, b), "gt": lambda: pr.assume_lt(b, a),
                 "ge": lambda: pr.assume_le(b, a), "eq": lambda: pr.assume_eq(a, b), "ne": lambda: pr.assume_ne(a, b)}[p2]()
            if not pr.infeasible():
                chosen.append((p, pr))
        if len(chosen) != 1:
            chk.unknown("L6.dump", "mlog_dump case %s" % cname, "%d paths feasible in this case" % len(chosen), fd.loc)
            continue
        p, pr = chosen[0]
        got = []
        for e in p.events:
            if e.kind == "call" and e.callee in helpers:
                fa, ta = helpers[e.callee]
                a = expr_to_lin(norm_head(e.args[fa], info), atom_of)
                b = expr_to_lin(norm_head(e.args[ta], info), atom_of)
                if pr.prove_le(b, a):
                    continue            # empty range
                if not pr.prove_lt(a, b):
                    got = None
                    break
                got.append((a, b))
        if got is None:
            chk.unknown("L6.dump", "mlog_dump case %s" % cname, "a range is neither provably empty nor provably non-empty", fd.loc)
            continue
        for g in got:
            inb = pr.prove_ge0(g[0]) and pr.prove_le(g[1], Lin.const(N))
            chk.ob("L6.dump-range-bounds", "mlog_dump case %s range [%s,%s)" % (cname, g[0], g[1]), inb,
                   "the range walked lies within [0,%d]" % N if inb else "the range walked is not within log.line[0..%d)" % N, fd.loc, fd.name)
        want = spec[cname]
        same = len(got) == len(want) and all(pr.prove_eq(g[0], w[0]) and pr.prove_eq(g[1], w[1]) for g, w in zip(got, want))
        chk.ob("L6.dump", "mlog_dump case %s" % cname, same,
               "slots printed: %s; slots mlog_get_line(0..) yields: %s%s" %
               (["[%s,%s)" % g for g in got] or "none", ["[%s,%s)" % w for w in want] or "none",
                "" if same else " - mlog_dump and mlog_get_line disagree in this case (with r = head mod %d)" % N), fd.loc, fd.name)
    return True


def check_format_args(args, line, nargs, base):
    """args == [*line, *(line+8), ...] i.e. fmt followed by the arguments of that line."""
    if len(args) != nargs + 1:
        return False
    for i, a in enumerate(args):
        a = strip_casts(a)
        if a[0] != "ld":
            return False
        if ptr_parts(a[1]) != (line, 8 * i, ()):
            return False
    return True


def run(chk):
    chk.level = "proof"
    chk.explanation = (
        "Constant / congruence analysis of mlog.c over its IR: every subscript of log.line is a residue mod N; vmlog "
        "writes slot (head mod N) then increments; the fold preserves the residue and the wrapped state and keeps head "
        "below 2^31; get_line's predicate and slot formula are extracted from its branch conditions and compared with "
        "the stated ones; vmlog_nice, mlog_clear, mlog_get_line and mlog_dump are checked against the same reader. "
        "Together with the arithmetic lemma in this module's docstring this gives: line k is message n-min(n,N)+k.")
    chk.rule("L1", "every subscript of log.line is x urem N (or x & (N-1), N a power of two)")
    chk.rule("L2", "vmlog stores fmt and the three arguments into slot (old head mod N) before storing head = old head + 1")
    chk.rule("L3", "fold at head == T: head -= F with F == 0 (mod N), T - F >= N, T <= 2^31 (or head := c with c == T mod N, N <= c < T)")
    chk.rule("L4", "get_line(n): NULL exactly on n >= head or n >= N; otherwise &log.line[(n + (head >= N ? head : 0)) mod N]")
    chk.rule("L5", "vmlog_nice calls vmlog exactly when head < N")
    chk.rule("L6", "mlog_get_line / mlog_dump format fmt with arg[0..2] of get_line's result for n = 0,1,.. until NULL; mlog_clear stores 0")
    chk.assumptions += ["the text produced by the libc formatter is not decided",
                        "single-threaded use (the log has no atomics)"]
    m = build.load_unit(UNIT)
    chk.note_unit(m)
    try:
        info = log_info(m)
    except AnalysisError as ae:
        if "additional state" in str(ae):
            # one rule does not depend on what the additional state means: whatever the readers consult must be reset by
            # mlog_clear ("since the last mlog_clear")
            chk.rule("L6", "mlog_clear resets every bookkeeping member any function of the log consults")
            check_clear(chk, m, log_info(m, strict=False))
        raise
    chk.extra["N"] = info[2]
    check_subscripts(chk, m, info)
    check_vmlog(chk, m, info)
    check_get_line(chk, m, info)
    check_nice_clear(chk, m, info)
    check_readers(chk, m, info)
    # the text itself is produced by strdup_printf: its contract (complete text, own buffer) is part of this property's clause
    from . import strdep
    strdep.import_into(chk)
