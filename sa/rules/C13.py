"""C13 - WAV headers round-trip and describe their file.

 W1 encoder/decoder walk agreement (wire grammar per guarded path: same fields, order, widths, guards)
 W2 initialiser totality: rf_wavheader_init writes every field on every path ("whatever the structure held")
 W3 size constants agree with the encoder: chunk_size stored by init == bytes the encoder emits after the
    size field, per format
 W4 derived fields: block_align, byte_rate, bits_per_sample; set_num_frames bookkeeping (polynomial identities)
 W5 validate accepts what init builds
Not decided: byte-exact re-encoding of every accepted byte string beyond W1.
"""
from itertools import product

from .. import build, paths
from ..ir import AnalysisError
from ..paths import fmt, ptr_parts, strip_casts, eval_concrete, NoValue
from . import wav

FORMATS = {"S16LE": 0, "S32LE": 1, "FLOAT": 2}


def grammars(chk, m, name, direction):
    fn = m.fn(name)
    chk.note_fn(fn)
    wh = wav.wh_index(fn)
    out = {}
    for p in wav.success_paths(fn, m):
        guards, items, _ = wav.grammar_of_path(p, fn, m, wh, direction)
        out.setdefault(guards, []).append((items, p))
    return fn, out


def check_w1(chk, m):
    fe, ge = grammars(chk, m, "rf_wavheader_encode", "encode")
    fd, gd = grammars(chk, m, "rf_wavheader_decode", "decode")
    table, total = wav.field_table(m)

    # a guard one function alone has, with the same outcome on every path that succeeds, decides nothing about the walk: its other
    # side only leaves with an error (the decoder's "extension longer than 16 bits can say" filter); what such filters reject is
    # W8's subject, not the walk's
    def outcomes(gs):
        o = {}
        for guards in gs:
            for g, t in guards:
                o.setdefault(g, set()).add(t)
        return o
    oe, od = outcomes(ge), outcomes(gd)
    filters = set(g for g, ts in oe.items() if g not in od and len(ts) == 1) | set(g for g, ts in od.items() if g not in oe and len(ts) == 1)

    def simplify(guards):
        # the decoder peeks a chunk id and asks whether it is 'fact'; the encoder asks whether fact_chunk_id is
        return tuple(sorted((g, t) for g, t in guards if not g.startswith("?") and g not in filters))
    E = {}
    for g, lst in ge.items():
        E.setdefault(simplify(g), []).extend(lst)
    D = {}
    for g, lst in gd.items():
        D.setdefault(simplify(g), []).extend(lst)
    keys = sorted(set(E) | set(D))
    n = 0
    for k in keys:
        kid = ",".join("%s=%s" % (g, "T" if t else "F") for g, t in k) or "<unconditional>"
        if k not in E or k not in D:
            side = E if k in E else D
            raw = ge if k in E else gd
            unrec = [g for gs in raw for g, t in gs if g.startswith("?") and simplify(gs) == k]
            if unrec:
                chk.unknown("W1.walk-agreement", "case " + kid, "the %s branches on a condition that is not recognised (%s): which of the "
                            "other function's cases this one corresponds to is not decided" % ("encoder" if k in E else "decoder", unrec[0][1:60]),
                            side[k][0][1].ret_inst.loc)
                continue
            chk.ob("W1.walk-agreement", "case " + kid, False,
                   "guarded case exists only in the %s: the two functions branch on different conditions" %
                   ("encoder" if k in E else "decoder"), (E.get(k) or D.get(k))[0][1].ret_inst.loc,
                   "rf_wavheader_encode/decode")
            continue
        n += 1
        ie = [i.key() for i in E[k][0][0]]
        idd = [i.key() for i in D[k][0][0]]
        # all paths of one case must give one walk
        for lst, who in ((E[k], "encoder"), (D[k], "decoder")):
            for items, p in lst[1:]:
                if [i.key() for i in items] != [i.key() for i in lst[0][0]]:
                    chk.unknown("W1.walk-agreement", "case " + kid, "%s has two different walks under the same guards" % who)
        if ie == idd:
            chk.ob("W1.walk-agreement", "case " + kid, True,
                   "%d items, identical fields/order/widths: %s" % (len(ie), " ".join(map(repr, E[k][0][0]))),
                   fe.loc, "rf_wavheader_encode/decode")
        else:
            # first difference
            j = 0
            while j < min(len(ie), len(idd)) and ie[j] == idd[j]:
                j += 1
            a = repr(E[k][0][0][j]) if j < len(ie) else "<end>"
            b = repr(D[k][0][0][j]) if j < len(idd) else "<end>"
            loc = (E[k][0][0][j].loc if j < len(ie) else D[k][0][0][j].loc)
            chk.ob("W1.walk-agreement", "case " + kid, False,
                   "item %d differs: encoder packs %s, decoder unpacks %s; bytes written by one are not the bytes "
                   "read by the other, so encode->decode (or decode->encode) is not the identity" % (j, a, b),
                   loc, "rf_wavheader_encode/decode")
    chk.expect("W1", "guarded cases compared", n, 4)
    # every integer on the wire lands in (and is taken from) a structure member that can hold it: a member narrower than
    # its wire field loses the upper bytes on decode and re-encodes them as zero
    seen_w = set()
    for who, G in (("encode", E), ("decode", D)):
        for k, lst in G.items():
            for it in lst[0][0]:
                if it.kind == "int" and it.field in table and (who, it.field) not in seen_w:
                    seen_w.add((who, it.field))
                    wire = it.width
                    have = table[it.field][1]
                    chk.ob("W1.field-width", "%s %s" % (who, it.field), have >= wire,
                           "%d-byte wire field <-> %d-byte member %s" % (wire, have, it.field) if have >= wire else
                           "the %d-byte wire field is kept in the %d-byte member %s: a header whose value there does not fit is accepted, "
                           "decodes with the right length, and re-encodes to different bytes" % (wire, have, it.field), it.loc,
                           "rf_wavheader_" + who)
    # byte-array lengths fit their fields
    for who, G in (("encode", E), ("decode", D)):
        for k, lst in G.items():
            for it in lst[0][0]:
                if it.kind == "bytes" and it.field in table and hasattr(it, "length_expr"):
                    ln = it.length_expr
                    ok = ln[0] == "c" and ln[2] <= table[it.field][1]
                    chk.ob("W1.array-length", "%s %s" % (who, it.field), ok,
                           "%s bytes transferred to/from %s[%d]" % (it.length, it.field, table[it.field][1]), it.loc,
                           "rf_wavheader_" + who)
    return E, D


def init_states(chk, m):
    """Abstract post-state of rf_wavheader_init per format: field -> expr / ('glob', name) / None."""
    fn = m.fn("rf_wavheader_init")
    chk.note_fn(fn)
    wh = wav.wh_index(fn)
    fmt_arg = None
    for i, a in enumerate(fn.args):
        if fn.arg_names.get(i) == "format":
            fmt_arg = i
    if fmt_arg is None:
        fmt_arg = len(fn.args) - 1
    table, total = wav.field_table(m)
    ps = [p for p in paths.enumerate_paths(fn, m, call_effects=wav.EFFECTS) if not paths.is_assert_fail_path(p)]
    states = {}
    for name, v in FORMATS.items():
        sel = []
        for p in ps:
            ok = True
            for cd in p.conds:
                try:
                    holds = paths.cond_holds(cd, {("arg", fmt_arg): v})
                except NoValue:
                    continue
                if not holds:
                    ok = False
                    break
            if ok:
                sel.append(p)
        if len(sel) != 1:
            raise AnalysisError("rf_wavheader_init: %d paths for format %s (expected exactly one)" % (len(sel), name))
        p = sel[0]
        st = {f: None for f in table}
        for e in p.events:
            if e.kind == "memset" and ptr_parts(e.ptr)[0] == ("arg", wh):
                lo = ptr_parts(e.ptr)[1]
                hi = lo + (e.size if e.size is not None else 0)
                if e.val == ("c", 8, 0):
                    for f, (off, size) in table.items():
                        if lo <= off and off + size <= hi:
                            st[f] = ("c", size * 8, 0)
            elif e.kind == "memcpy":
                f = wav.field_name(e.ptr, fn, m, wh)
                if f and e.val[0] == "g":
                    st[f] = ("glob", e.val[1])
            elif e.kind == "store":
                f = wav.field_name(e.ptr, fn, m, wh)
                if f:
                    # a value computed from members written earlier in the same call (a size summed from the chunk sizes just
                    # stored): substitute what those members hold at this moment
                    env = {("arg", fmt_arg): v}
                    for x in paths.subexprs(e.val):
                        if x[0] == "ld" and x[1] is not None and ptr_parts(x[1])[0] == ("arg", wh):
                            g = wav.field_name(x[1], fn, m, wh)
                            cur = st.get(g) if g else None
                            if cur is not None and cur[0] == "c" and x[2] * 8 == cur[1]:
                                env[x] = cur[2]
                    st[f] = paths.partial_eval(e.val, env)
        states[name] = (st, p)
    return fn, wh, fmt_arg, states, table


def check_w2(chk, fn, states):
    for name, (st, p) in states.items():
        missing = sorted(f for f, v in st.items() if v is None)
        chk.ob("W2.init-totality", "format %s" % name, not missing,
               "rf_wavheader_init leaves %d field(s) with whatever the structure held beforehand: %s; encode/validate/"
               "round-trip then depend on stale memory (a stale 'fact' id emits a bogus chunk, a stale fact_chunk_size "
               "fails validation, padding/extension fields break the encode->decode identity)" % (len(missing), ", ".join(missing))
               if missing else "every field written", fn.loc, fn.name)


def encoder_len(E, st):
    """Bytes the encoder emits for an abstract state; (total, after_size_field) or None."""
    def truth(g):
        if g.startswith("chunk-is-"):
            v = st.get("fact_chunk_id")
            return v == ("glob", g[len("chunk-is-"):])
        for op in (">=", "=="):
            if op in g:
                f, c = g.split(op)
                v = st.get(f)
                if v is None:
                    v = ("c", 32, 0)
                if v[0] != "c":
                    return None
                return v[2] >= int(c) if op == ">=" else v[2] == int(c)
        return None
    for k, lst in E.items():
        if all(truth(g) == t for g, t in k):
            total = 0
            for it in lst[0][0]:
                if it.kind == "int":
                    total += it.width
                else:
                    ln = it.length_expr
                    env = {}
                    val = eval_len(ln, st)
                    if val is None:
                        return None
                    total += val
            return total
    return None


def eval_len(e, st):
    if e[0] == "c":
        return e[2]
    if e[0] == "F":
        v = st.get(e[1]) or ("c", 32, 0)
        return v[2] if v[0] == "c" else None
    if e[0] == "b":
        a, b = eval_len(e[3], st), eval_len(e[4], st)
        if a is None or b is None:
            return None
        r = paths.fold_bin(e[1], e[2], ("c", e[2], a & paths.mask(e[2])), ("c", e[2], b & paths.mask(e[2])))
        return r[2] if r else None
    return None


def check_w3(chk, fn, states, E):
    for name, (st, p) in states.items():
        cs = st.get("chunk_size")
        total = encoder_len(E, st)
        if cs is None or cs[0] != "c" or total is None:
            chk.unknown("W3.riff-size", "format %s" % name, "chunk_size %s / encoder length %s not constant" % (fmt(cs), total))
            continue
        want = total - 8
        chk.ob("W3.riff-size", "format %s" % name, cs[2] == want,
               "rf_wavheader_init stores chunk_size = %d; the encoder emits a %d-byte header for this format, so the "
               "RIFF size of a file with no data must be %d (bytes following the size field)" % (cs[2], total, want),
               fn.loc, fn.name)


def poly_equal(e1, e2, atoms, bits=32, where=(), admitted=None):
    """Identity of two add/sub/mul/const expressions over atoms modulo 2^bits, by evaluation on a grid
    (4 points per variable: polynomials of degree <= 3 per variable over a ring are decided only
    heuristically in general, so the caller additionally requires both sides to be built from add/sub/mul)."""
    grid = (0, 1, 2, 5) if len(atoms) > 3 else (0, 1, 2, 5, 63, 64, 128, 255, 256, 1000, 65535)
    for vals in product(grid, repeat=len(atoms)):
        env = dict(zip(atoms, vals))
        # (only assignments the path's own conditions over these atoms admit)
        skip = False
        for c_, t_ in where:
            try:
                if bool(eval_concrete(c_, env)) != bool(t_):
                    skip = True
                    break
            except NoValue:
                pass
        if skip:
            continue
        if admitted is not None:
            admitted.append(1)
        try:
            a = eval_concrete(e1, env) & paths.mask(bits)
            b = eval_concrete(e2, env) & paths.mask(bits)
        except NoValue:
            return None
        if a != b:
            return (False, env)
    return (True, None)


def is_poly(e, atoms):
    if e in atoms:
        return True
    if e[0] == "c":
        return True
    if e[0] == "cast":
        return is_poly(e[4], atoms)
    if e[0] == "b" and e[1] in ("add", "sub", "mul"):
        return is_poly(e[3], atoms) and is_poly(e[4], atoms)
    return False


def degree_ok(e, atoms, limit=3):
    def deg(x):
        if x in atoms:
            return 1
        if x[0] == "c":
            return 0
        if x[0] == "cast":
            return deg(x[4])
        if x[1] == "mul":
            return deg(x[3]) + deg(x[4])
        return max(deg(x[3]), deg(x[4]))
    return deg(e) <= limit


def check_w4(chk, m, fn, wh, fmt_arg, states):
    sf, ch = ("arg", 1), ("arg", 2)
    for name, (st, p) in states.items():
        bps = 2 if name == "S16LE" else 4

        def K(v, bits=32):
            return ("c", bits, v)
        want = {
            "block_align": (("b", "mul", 32, K(bps), ch), 16),
            "byte_rate": (("b", "mul", 32, ("b", "mul", 32, sf, K(bps)), ch), 32),
            "bits_per_sample": (K(bps * 8), 16),
            "num_channels": (ch, 16),
            "sample_rate": (sf, 32),
            "audio_format": (K(3 if name == "FLOAT" else 1), 16),
        }
        for f, (w, bits) in want.items():
            got = st.get(f)
            if got is None:
                chk.ob("W4.derived", "%s %s" % (name, f), False, "field never written", fn.loc, fn.name)
                continue
            if not is_poly(got, (sf, ch)) or not degree_ok(got, (sf, ch)):
                # not a polynomial (a division, a shift): compared with the stated formula on a grid of rates and channel counts
                # that includes every combination whose TRUE result still fits the member (an intermediate that wraps earlier
                # than the result does is exactly what such a rewrite risks)
                bad = None
                n_ok = 0
                try:
                    for rate in (1, 8000, 44100, 48000, 192000, 1000000, 80000000, 0x7fffffff):
                        for chans in (1, 2, 6, 64, 700, 3000, 65535):
                            env = {sf: rate, ch: chans}
                            true_val = paths.eval_concrete(w, env)
                            exact = {"block_align": bps * chans, "byte_rate": rate * bps * chans}.get(f)
                            if exact is not None and exact >= (1 << bits):
                                continue        # the member cannot hold the true value: outside what any formula can deliver
                            g_ = paths.eval_concrete(got, env) & ((1 << bits) - 1)
                            if g_ != true_val & ((1 << bits) - 1):
                                bad = "sfreq=%d, channels=%d gives %d, the formula gives %d" % (rate, chans, g_, true_val & ((1 << bits) - 1))
                                break
                            n_ok += 1
                        if bad:
                            break
                except paths.NoValue:
                    chk.unknown("W4.derived", "%s %s" % (name, f), "value %s is not a polynomial in (sfreq, channels)" % fmt(got)[:80])
                    continue
                chk.ob("W4.derived", "%s %s" % (name, f), bad is None,
                       "equal to the stated formula on every evaluated (rate, channels) whose result fits the member (%d cases; not a "
                       "polynomial, so not an identity proof)" % n_ok if bad is None else
                       "differs from the stated formula although the result fits: %s (an intermediate product wraps)" % bad, fn.loc, fn.name)
                continue
            r = poly_equal(got, w, (sf, ch), bits)
            if r is None:
                chk.unknown("W4.derived", "%s %s" % (name, f), "not evaluable: %s" % fmt(got)[:80])
            else:
                chk.ob("W4.derived", "%s %s" % (name, f), r[0],
                       "%s = %s must equal %s%s" % (f, fmt(got)[:70], fmt(w),
                                                   "" if r[0] else "; differs at sfreq=%d channels=%d" % (r[1][sf], r[1][ch])),
                       fn.loc, fn.name)
    # set_num_frames
    fs = m.fn("rf_wavheader_set_num_frames")
    chk.note_fn(fs)
    w2 = wav.wh_index(fs)
    ps = [p for p in paths.enumerate_paths(fs, m, call_effects=wav.EFFECTS) if not paths.is_assert_fail_path(p)]
    table, _ = wav.field_table(m)

    def subst(e):
        if isinstance(e, tuple):
            if e and e[0] == "ld":
                f = wav.field_name(e[1], fs, m, w2)
                if f:
                    return ("A", f)
            if e == ("arg", 1):
                return ("A", "frames")
            return tuple(subst(x) if isinstance(x, tuple) else x for x in e)
        return e
    A = lambda n: ("A", n)
    B32 = lambda op, a, b: ("b", op, 32, a, b)
    want = {
        "data_chunk_size": B32("mul", A("frames"), A("block_align")),
        "sample_length": B32("mul", A("frames"), A("num_channels")),
        "chunk_size": B32("add", B32("sub", A("chunk_size"), A("data_chunk_size")), B32("mul", A("frames"), A("block_align"))),
    }
    text = {"data_chunk_size": "frames*block_align", "sample_length": "frames*num_channels",
            "chunk_size": "chunk_size - old data_chunk_size + frames*block_align"}
    names = [A("frames"), A("block_align"), A("num_channels"), A("chunk_size"), A("data_chunk_size")]
    for p in ps:
        pid = "path " + "->".join(b.lstrip("%") for b in p.blocks)
        final = {}
        for e in p.events:
            if e.kind == "store":
                f = wav.field_name(e.ptr, fs, m, w2)
                if f:
                    final[f] = e.val
        guards = dict(wav.classify_guard(wav.normalise(c, {}, fs, m, w2), t) for c, t, i in p.conds)
        for f, w in want.items():
            got = final.get(f)
            if got is None:
                if f == "sample_length" and guards.get("chunk-is-fact") is False:
                    chk.ob("W4.set-num-frames", "%s %s" % (pid, f), True,
                           "sample_length left alone when there is no fact chunk", fs.loc, fs.name)
                else:
                    # not stored on this path: the member keeps its old value, which is right exactly when the path's own
                    # conditions (over the old members and the argument) make the old value equal to the required one
                    # (an early return taken when the header already describes this much data)
                    adm = []
                    r = poly_equal(A(f), w, names, where=[(subst(c_), t_) for c_, t_, i_ in p.conds if i_ is None or i_.op != "switch"],
                                   admitted=adm) if A(f) in names else None
                    if r is not None and r[0] and adm:
                        chk.ob("W4.set-num-frames", "%s %s" % (pid, f), True,
                               "%s is left alone on this path, and the path is taken only where the old value already equals %s "
                               "(%d admitted grid points)" % (f, text[f], len(adm)), fs.loc, fs.name)
                    else:
                        chk.ob("W4.set-num-frames", "%s %s" % (pid, f), False, "%s is not updated on this path%s" % (
                            f, "; the path's conditions admit e.g. %s where the old value is not %s" % (
                                {k[1]: v for k, v in r[1].items()}, text[f]) if r is not None and not r[0] else ""), fs.loc, fs.name)
                continue
            g = subst(got)
            if not is_poly(g, names):
                chk.unknown("W4.set-num-frames", "%s %s" % (pid, f), "new value %s is not a polynomial of the old fields" % fmt(got)[:100])
                continue
            r = poly_equal(g, w, names, where=[(subst(c_), t_) for c_, t_, i_ in p.conds if i_ is None or i_.op != "switch"])
            if r is None:
                chk.unknown("W4.set-num-frames", "%s %s" % (pid, f), "not evaluable")
            else:
                chk.ob("W4.set-num-frames", "%s %s" % (pid, f), r[0],
                       "new %s must be %s (the header-only part of the RIFF size is kept, data size = frames * block "
                       "alignment, sample length = frames * channels)%s" %
                       (f, text[f], "" if r[0] else "; differs e.g. at %s" % {k[1]: v for k, v in r[1].items()}),
                       fs.loc, fs.name)
        extra = sorted(set(final) - set(want))
        chk.ob("W4.set-num-frames", pid + " no-other-field", not extra,
               "fields modified besides the three size fields: %s" % extra, fs.loc, fs.name)


def check_decode_total(chk, m):
    """W8.decode-total: the structure a successful decode leaves behind depends on the input only - every byte of *wh is written
    on every success path (the whole-structure memset, member stores, unpacked arrays, copies).  A member the decoder neither
    clears nor stores keeps what the caller's structure held before: the same bytes then decode to different structures, and a
    stale fact id makes the encoder emit a chunk the input never had."""
    fn = m.fn("rf_wavheader_decode")
    wh = wav.wh_index(fn)
    table, total = wav.field_table(m)
    n = 0
    for p in wav.success_paths(fn, m):
        n += 1
        cov = [False] * total

        def mark(ptr, size):
            root, off, var = ptr_parts(ptr)
            if root == ("arg", wh) and not var and size:
                for j in range(max(0, off), min(total, off + size)):
                    cov[j] = True
        for e in p.events:
            if e.kind == "store":
                mark(e.ptr, e.size)
            elif e.kind in ("memset", "memcpy") and e.extra is not None and e.extra[0] == "c":
                mark(e.ptr, e.extra[2])
            elif e.kind == "call" and e.callee == "rf_unpack_bytes" and e.args[1] != ("null",) and e.args[2][0] == "c":
                mark(e.args[1], e.args[2][2])
        # padding bytes are not members
        member = [False] * total
        for f, (o, sz) in table.items():
            for j in range(o, min(total, o + sz)):
                member[j] = True
        miss = [j for j in range(total) if member[j] and not cov[j]]
        names = sorted(set(f for f, (o, sz) in table.items() if any(o <= j < o + sz for j in miss)))
        chk.ob("W8.decode-total", "rf_wavheader_decode " + "->".join(b.lstrip("%") for b in p.blocks)[:100], not miss,
               "every member of *wh is written on this successful path" if not miss else
               "member(s) %s keep whatever the caller's structure held before the call on this successful path: the decoded structure "
               "is not a function of the input (a stale fact chunk id is re-encoded as a chunk the input never had)" % ", ".join(names[:6]),
               p.ret_inst.loc, fn.name)
    chk.expect("W8", "successful decoder paths", n, 4)


def check_size_rejects(chk, m):
    """W8.size-reject: the decoder may turn a buffer away because of what the header says, never because of how long the buffer is
    once it is long enough: a refusal decided by the size argument alone (and the pointers being non-NULL) must not apply to any
    size from the shortest encoding upwards - encode returns that length, and decoding what it wrote from a buffer of that length
    has to succeed."""
    fn = m.fn("rf_wavheader_decode")
    wh = wav.wh_index(fn)
    fe, ge = grammars(chk, m, "rf_wavheader_encode", "encode")
    lens = set()
    for guards, lst in ge.items():
        for items, p in lst:
            tot = 0
            for it in items:
                if it.kind == "int":
                    tot += it.width
                elif isinstance(it.length, int) or (isinstance(it.length, str) and it.length.isdigit()):
                    tot += int(it.length)
                else:
                    tot = None
                    break
            if tot:
                lens.add(tot)
    if not lens:
        chk.unknown("W8.size-reject", "rf_wavheader_decode", "no encoder walk of constant length found")
        return
    lmin = min(lens)
    int_args = [k for k, a in enumerate(fn.args) if a.ty in ("i32", "i64")]
    n = 0
    for p in paths.enumerate_paths(fn, m, call_effects=wav.EFFECTS):
        if paths.is_assert_fail_path(p):
            continue
        r = p.ret
        if not (r is not None and r[0] == "c" and r[2] >> (r[1] - 1)):
            continue
        n += 1
        bad = None
        for nbytes in list(range(lmin, lmin + 70)) + [1 << 12, 1 << 20]:
            env = {("arg", k): (nbytes if k in int_args else 0x10000 * (k + 1)) for k in range(len(fn.args))}
            try:
                if p.conds and all(bool(eval_concrete(c, env)) == bool(t) for c, t, i in p.conds if i is None or i.op != "switch"):
                    bad = nbytes
                    break
            except NoValue:
                bad = None
                break
        chk.ob("W8.size-reject", "rf_wavheader_decode error path " + "->".join(b.lstrip("%") for b in p.blocks)[-80:], bad is None,
               "this refusal depends on the header's contents (or applies only to buffers shorter than the shortest encoding, %d bytes)" % lmin
               if bad is None else
               "a buffer of %d bytes is refused whatever it holds (shortest encoding: %d bytes, which is what rf_wavheader_encode returns for "
               "a PCM header): encode followed by decode of the bytes written fails" % (bad, lmin), p.ret_inst.loc, fn.name)
    chk.expect("W8", "error-return paths of the decoder examined for size-only refusals", n, 1)


def check_w7(chk, m):
    """W7: the RIFF-size test of rf_wavheader_validate and rf_wavheader_decode accepts exactly the headers with
    chunk_size >= 12 + fmt_chunk_size + fact_chunk_size, decided for all 32-bit chunk sizes (so also for files of 2 to 4 GiB)
    and all fmt / fact chunk sizes below 2^17 (no wrap of the right-hand side), as a Boolean function over ROBDD bit-vectors."""
    from ..domains.bdd import BDD, BV
    from ..domains.bvexec import expr_bv, Top
    for fname in ("rf_wavheader_validate", "rf_wavheader_decode"):
        if not m.has_fn(fname):
            continue
        fn = m.fn(fname)
        wh = wav.wh_index(fn)
        B = BDD()
        bv = BV(B)
        V = {"chunk_size": [B.var(3 * i) for i in range(32)], "fmt_chunk_size": [B.var(3 * i + 1) for i in range(32)],
             "fact_chunk_size": [B.var(3 * i + 2) for i in range(32)]}
        ps = [p for p in paths.enumerate_paths(fn, m, call_effects=wav.EFFECTS) if not paths.is_assert_fail_path(p)]
        res2field = {}
        for p in ps:
            for e in p.events:
                if e.kind == "store" and e.ptr is not None:
                    f = wav.field_name(e.ptr, fn, m, wh)
                    v = strip_casts(e.val)
                    if f and v[0] == "call":
                        res2field[v] = f

        def atom(x):
            if x[0] == "ld":
                f = wav.field_name(x[1], fn, m, wh)
                if f in V:
                    return V[f]
            if x in res2field and res2field[x] in V:
                return V[res2field[x]]
            return None

        def mentions_size(c):
            return paths.contains(c, lambda x: (x[0] == "ld" and wav.field_name(x[1], fn, m, wh) == "chunk_size") or
                                  (x in res2field and res2field[x] == "chunk_size"))
        accept = 0
        n_ok = 0
        try:
            for p in ps:
                r = p.ret
                success = r is not None and not (r[0] == "c" and (r[2] >> 31) & 1 and r[1] == 32)   # not a negative errno
                if fname == "rf_wavheader_validate":
                    success = r is not None and r[0] == "c" and r[2] == 0
                if not success:
                    continue
                n_ok += 1
                pc = 1
                for c, taken, inst in p.conds:
                    if not mentions_size(c):
                        continue
                    v = expr_bv(c, bv, atom)
                    bit = 0
                    for x in v:
                        bit = B.OR(bit, x)
                    pc = B.AND(pc, bit if taken else B.NOT(bit))
                accept = B.OR(accept, pc)
        except (Top, KeyError, IndexError, TypeError) as t:
            chk.unknown("W7.size-predicate", fname, "size test outside the bit-vector fragment: %s" % t, fn.loc)
            continue
        if not n_ok:
            chk.unknown("W7.size-predicate", fname, "no successful path found", fn.loc)
            continue
        small = B.AND(bv.ult(V["fmt_chunk_size"], bv.const(1 << 17, 32)), bv.ult(V["fact_chunk_size"], bv.const(1 << 17, 32)))
        need = bv.add(bv.add(V["fmt_chunk_size"], V["fact_chunk_size"]), bv.const(12, 32))
        want = B.NOT(bv.ult(V["chunk_size"], need))
        bad = B.AND(small, B.XOR(accept, want))

        def show(f):
            a = B.sat_one(f) or {}
            g = lambda k: sum((1 << i) for i in range(32) if a.get(3 * i + k))
            return "chunk_size=%d fmt_chunk_size=%d fact_chunk_size=%d" % (g(0), g(1), g(2))
        chk.ob("W7.size-predicate", fname, bad == 0,
               "accepts exactly chunk_size >= 12 + fmt_chunk_size + fact_chunk_size for every 32-bit chunk size" if bad == 0 else
               "the size test disagrees with chunk_size >= 12 + fmt_chunk_size + fact_chunk_size for %s (%s)" %
               (show(bad), "rejected although large enough" if B.AND(bad, want) != 0 else "accepted although too small"), fn.loc, fname)


def check_w5(chk, m, states):
    fv = m.fn("rf_wavheader_validate")
    chk.note_fn(fv)
    wh = wav.wh_index(fv)
    ps = [p for p in paths.enumerate_paths(fv, m, call_effects=wav.EFFECTS) if not paths.is_assert_fail_path(p)]
    table, _ = wav.field_table(m)
    for name, (st, pinit) in states.items():
        verdicts = []
        for p in ps:
            feasible = True
            unknown = None
            for c, taken, inst in p.conds:
                n = wav.normalise(c, {}, fv, m, wh)
                g = wav.classify_guard(n, taken)
                val = None
                if g[0].startswith("chunk-is-"):
                    # which field is compared?
                    fld = None
                    for x in paths.subexprs(c):
                        if x[0] == "call" and x[1] == "memcmp":
                            for a in x[2]:
                                f = wav.field_name(a, fv, m, wh)
                                if f:
                                    fld = f
                    v = st.get(fld)
                    if v is None:
                        unknown = "field %s is stale (never written by init)" % fld
                    else:
                        val = (v == ("glob", g[0][len("chunk-is-"):])) == g[1]
                else:
                    # numeric condition over fields
                    env = {}
                    stale = None
                    for x in paths.subexprs(c):
                        if x[0] == "ld":
                            f = wav.field_name(x[1], fv, m, wh)
                            if f:
                                v = st.get(f)
                                if v is None:
                                    stale = f
                                elif v[0] == "c":
                                    env[x] = v[2]
                    if stale:
                        unknown = "field %s is stale (never written by init)" % stale
                    else:
                        try:
                            val = bool(eval_concrete(c, env)) == bool(taken)
                        except NoValue:
                            unknown = "NOTEVAL condition %s is not evaluable from the members init sets" % fmt(c)[:60]
                if unknown:
                    break
                if not val:
                    feasible = False
                    break
            if unknown:
                verdicts.append(("stale", unknown, p))
            elif feasible:
                verdicts.append(("taken", p.ret, p))
        stale = [v for v in verdicts if v[0] == "stale"]
        taken = [v for v in verdicts if v[0] == "taken"]
        # a condition the evaluation cannot follow (a tag compared word-wise or through a table, a helper) is not evidence of stale
        # memory: inconclusive.  So is a verdict that is not a constant (a branch-free conditional over the size members)
        if any(v[1].startswith("NOTEVAL") for v in stale) or (len(taken) == 1 and not stale and strip_casts(taken[0][1])[0] != "c"):
            why = [v[1][8:] for v in stale if v[1].startswith("NOTEVAL")]
            chk.unknown("W5.validate-accepts-init", "format %s" % name, why[0] if why else
                        "validate's result %s is not a constant for this header" % fmt(taken[0][1])[:60], fv.loc)
            continue
        if stale and not any(t[1] == ("c", 32, 0) for t in taken):
            chk.ob("W5.validate-accepts-init", "format %s" % name, False,
                   "rf_wavheader_validate's verdict on a freshly initialised header depends on stale memory: %s" % stale[0][1],
                   fv.loc, fv.name)
        elif len(taken) == 1 and not stale:
            ok = taken[0][1] == ("c", 32, 0)
            chk.ob("W5.validate-accepts-init", "format %s" % name, ok,
                   "validate returns %s for the header rf_wavheader_init builds" % fmt(taken[0][1]), fv.loc, fv.name)
        elif stale:
            chk.ob("W5.validate-accepts-init", "format %s" % name, False,
                   "rf_wavheader_validate's verdict on a freshly initialised header depends on stale memory: %s" % stale[0][1],
                   fv.loc, fv.name)
        else:
            chk.unknown("W5.validate-accepts-init", "format %s" % name, "%d feasible paths" % len(taken))


def select_case(E, st):
    """Encoder case (guards, items) taken for an abstract state."""
    def truth(g):
        if g.startswith("chunk-is-"):
            return st.get("fact_chunk_id") == ("glob", g[len("chunk-is-"):])
        for op in (">=", "=="):
            if op in g:
                f, c = g.split(op)
                v = st.get(f) or ("c", 32, 0)
                if v[0] != "c":
                    return None
                return v[2] >= int(c) if op == ">=" else v[2] == int(c)
        return None
    for k, lst in E.items():
        if all(truth(g) == t for g, t in k):
            return k, lst[0][0]
    return None, None


def check_w6(chk, m, states, E):
    """Round trip identity: a field the encoder does not transfer for this format must be zero in every header
    init + set_num_frames can produce (the decoder clears the structure and never reads it back)."""
    fs = m.fn("rf_wavheader_set_num_frames")
    w2 = wav.wh_index(fs)
    ps = [p for p in paths.enumerate_paths(fs, m, call_effects=wav.EFFECTS) if not paths.is_assert_fail_path(p)]
    for name, (st, pinit) in states.items():
        k, items = select_case(E, st)
        if items is None:
            chk.unknown("W6.untransferred-zero", "format %s" % name, "no encoder case selected")
            continue
        sent = set(i.field for i in items)
        nonzero = {f: "rf_wavheader_init stores %s" % fmt(v)[:40] for f, v in st.items()
                   if v is not None and v != ("c", v[1] if len(v) > 1 else 0, 0) and not (v[0] == "c" and v[2] == 0)}
        # set_num_frames paths feasible for this state
        for p in ps:
            feasible = True
            for c, taken, inst in p.conds:
                g = wav.classify_guard(wav.normalise(c, {}, fs, m, w2), taken)
                if g[0].startswith("chunk-is-"):
                    fld = None
                    for x in paths.subexprs(c):
                        if x[0] == "call" and x[1] == "memcmp":
                            for a in x[2]:
                                f = wav.field_name(a, fs, m, w2)
                                if f:
                                    fld = f
                    v = st.get(fld)
                    if (v == ("glob", g[0][len("chunk-is-"):])) != g[1]:
                        feasible = False
            if not feasible:
                continue
            for e in p.events:
                if e.kind == "store":
                    f = wav.field_name(e.ptr, fs, m, w2)
                    if f and not (e.val[0] == "c" and e.val[2] == 0):
                        nonzero[f] = "rf_wavheader_set_num_frames stores %s at %s" % (fmt(e.val)[:50], e.inst.loc)
        lost = sorted(f for f in nonzero if f not in sent)
        chk.ob("W6.untransferred-zero", "format %s" % name, not lost,
               "fields that can be non-zero but are not transferred by the encoder for this format: %s; encode->decode "
               "then returns a different structure (the decoder clears them)" %
               "; ".join("%s (%s)" % (f, nonzero[f]) for f in lost) if lost else
               "all %d possibly non-zero fields are transferred" % len(nonzero), fs.loc, "rf_wavheader_init/set_num_frames")


def run(chk):
    chk.explanation = (
        "Static sibling-agreement and constant-propagation analysis of wavheader.c over its IR: encoder and decoder "
        "are linearised per guarded path into a wire grammar (field, width, order, guard) and compared; the abstract "
        "post-state of rf_wavheader_init (per format, symbolic in rate and channels) is checked for totality, pushed "
        "through the encoder's grammar to obtain the header length and compared with the stored RIFF size, checked "
        "against the derived-field formulae (polynomial identities) and against rf_wavheader_validate's tests. "
        "rf_wavheader_set_num_frames is checked as a polynomial update of the three size fields.")
    chk.rule("W1", "encoder and decoder branch on the same guards and, per guarded case, walk the same fields in the same order with the same widths/lengths; byte-array transfers fit their fields")
    chk.rule("W2", "rf_wavheader_init writes every field of rf_wavheader_t on every path (or clears the object first)")
    chk.rule("W3", "per format: chunk_size stored by init == (bytes emitted by the encoder for the initialised header) - 8")
    chk.rule("W4", "block_align = bps*ch, byte_rate = sfreq*bps*ch, bits_per_sample = 8*bps, audio_format by format; set_num_frames: data = frames*block_align, sample_length = frames*channels, chunk_size keeps its header part")
    chk.rule("W6", "every field that init / set_num_frames can make non-zero is transferred by the encoder case of that format (otherwise encode->decode is not the identity)")
    chk.rule("pack", "C12's transfer rules P1-P5 on pack.c (single advance, exact fits guard, in-item accesses, zero/NULL handling, byte order)")
    chk.rule("W7", "validate / decode accept exactly chunk_size >= 12 + fmt_chunk_size + fact_chunk_size, for all 32-bit chunk sizes (BDD)")
    chk.rule("W5", "rf_wavheader_validate returns 0 on the abstract post-state of rf_wavheader_init, independent of stale memory")
    chk.assumptions += [
        "rf_(un)pack_* behave as C12 establishes (widths and byte order taken from the callee's name)",
        "sizes fit in 32 bits (the property's scope)",
        "byte-exact re-encoding of every accepted byte string is decided only up to W1 (same walk, same guards)",
    ]
    m = wav.load()
    wav.check_tag_tests_recognised(m)
    chk.note_unit(m)
    E, D = check_w1(chk, m)
    fn, wh, fmt_arg, states, table = init_states(chk, m)
    check_w2(chk, fn, states)
    check_w3(chk, fn, states, E)
    check_w4(chk, m, fn, wh, fmt_arg, states)
    check_w5(chk, m, states)
    check_w6(chk, m, states, E)
    check_w7(chk, m)
    chk.rule("W8", "rf_wavheader_decode writes every member of the structure on every successful path")
    check_decode_total(chk, m)
    check_size_rejects(chk, m)
    # the round trip rests on the cursor functions transferring every item that fits, whole and in the stated byte order,
    # and nothing else (C12's rules on pack.c)
    from . import C12
    chk.rule_prefix = "pack."
    chk.rule_filter = lambda r: r.startswith(("P1", "P2", "P3", "P4", "P5", "P6"))
    mp = build.load_unit("librfn/pack.c")
    chk.note_unit(mp)
    for f2 in mp.defined_functions():
        if C12.is_pack_fn(f2) and C12.NAME_RE.match(f2.name):
            C12.check_transfer(chk, mp, f2)
    # both codecs return sz - rf_pack_remaining(): the length, and the "buffer too short" signal (remaining going negative)
    C12.check_aux(chk, mp)
    chk.rule_prefix = ""
    chk.rule_filter = None
