"""C16 - bit-counting helpers equal their mathematical definitions on all inputs.

Functions (bitops.c) and macros (constexpr.h, through witness functions with a run-time argument) are
abstractly interpreted in the BDD bit-vector domain: the abstract result IS the function computed for all
2^32 (resp. 2^64) arguments, in canonical form, and is compared node-for-node with the specification's
vector.  A difference yields a concrete witness argument.  The macros are additionally checked as constant
expressions by compile-time witnesses (_Static_assert batch evaluated by clang's constant folder).
"""
import random

from .. import build
from ..domains.bdd import BDD, BV
from ..domains.bvexec import BVExec, Top
from ..ir import AnalysisError

MACRO_WITNESS = '''
#include <stdint.h>
#include <librfn/constexpr.h>
int w_const_pop(uint64_t c) { return const_pop(c); }
int w_const_lssb(uint64_t c) { return const_lssb(c); }
/* the VALUE of the expression, before any conversion to a narrower result type can repair it */
int w_const_lssb_negative(uint64_t c) { return const_lssb(c) < 0; }
int w_const_pop32(uint32_t c) { return const_pop(c); }
int w_const_lssb32(uint32_t c) { return const_lssb(c); }
int w_const_pop_s32(int32_t c) { return const_pop((uint32_t) c); }
'''


def spec_popcount(bv, x, n):
    return bv.popcount(x, n)


def spec_clz(bv, x, n):
    res = bv.const(len(x), n)
    for k in range(len(x)):
        res = bv.mux(x[k], bv.const(len(x) - 1 - k, n), res)
    return res


def spec_ctz(bv, x, n, zero_value=None):
    res = bv.const(len(x) if zero_value is None else zero_value & ((1 << n) - 1), n)
    for k in range(len(x) - 1, -1, -1):
        res = bv.mux(x[k], bv.const(k, n), res)
    return res


def spec_ilog2(bv, x, n):
    res = bv.const(0, n)
    for k in range(len(x)):
        res = bv.mux(x[k], bv.const(k, n), res)
    return res


def nonzero(bv, x):
    r = 0
    for b in x:
        r = bv.b.OR(r, b)
    return r


def witness_value(assign, nbits):
    v = 0
    for k, bit in assign.items():
        if bit and k < nbits:
            v |= 1 << k
    return v


def concrete(bv, bits, assign):
    """Evaluate a BDD vector under a total assignment (missing vars = 0)."""
    out = 0
    for i, node in enumerate(bits):
        n = node
        while n > 1:
            v, lo, hi = bv.b.nodes[n]
            n = hi if assign.get(v, 0) else lo
        if n == 1:
            out |= 1 << i
    return out


def decide(chk, rule, name, m, fname, nin, spec, care=None, what=""):
    bdd = BDD()
    bv = BV(bdd)
    if not m.has_fn(fname):
        chk.unknown(rule, name, "anchor vanished: function %s" % fname)
        return
    fn = m.functions[fname]
    chk.note_fn(fn)
    x = bv.inputs(0, nin)
    ex = BVExec(m, bv)
    try:
        bits, defined = ex.run(fn, [x])
    except Top as t:
        chk.unknown(rule, name, "outside the BDD bit-vector fragment: %s" % t, fn.loc)
        return
    if bits is None:
        chk.unknown(rule, name, "function returns no value", fn.loc)
        return
    want = spec(bv, x, len(bits))
    c = care(bv, x) if care else 1
    # must be defined wherever we care
    undefined = bdd.AND(c, bdd.NOT(defined))
    if undefined != 0:
        a = bdd.sat_one(undefined)
        chk.ob(rule, name, False, "no value is returned for argument 0x%x" % witness_value(a, nin), fn.loc, fname)
        return
    diff = 0
    for g, w in zip(bits, want):
        diff = bdd.OR(diff, bdd.XOR(g, w))
    diff = bdd.AND(diff, c)
    if diff == 0:
        chk.ob(rule, name, True, "%s: abstract result equals the specification on all 2^%d arguments%s "
               "(%d BDD nodes, %d paths, %d instructions interpreted)" %
               (what or fname, nin, " in the care set" if care else "", bdd.size(), ex.paths, ex.steps), fn.loc, fname)
    else:
        a = bdd.sat_one(diff)
        arg = witness_value(a, nin)
        total = {k: a.get(k, 0) for k in range(nin)}
        hidden = {k: v for k, v in a.items() if k >= 512}
        total.update(hidden)
        got, exp = concrete(bv, bits, total), concrete(bv, want, total)
        def s(v, n):
            return v - (1 << n) if v >> (n - 1) else v
        chk.ob(rule, name, False, "%s: argument 0x%x gives %d, the definition gives %d%s" %
               (what or fname, arg, s(got, len(bits)), s(exp, len(want)),
                " (for some content of the static objects the function reads: the result is not a function of the argument)" if hidden else ""),
               fn.loc, fname)


def static_assert_witness(chk, seed, tier):
    """Compile-time constants: the same macros evaluated by the compiler's constant folder."""
    vals = [0, (1 << 64) - 1]
    for i in range(64):
        vals.append(1 << i)
    for i in range(64):
        for j in range(i + 1, 64):
            vals.append((1 << i) | (1 << j))
    for lo in range(64):
        for hi in range(lo, 64):
            vals.append(((1 << (hi - lo + 1)) - 1) << lo)
    rnd = random.Random(seed)
    for _ in range(20000 if tier == "thorough" else 2000):
        vals.append(rnd.getrandbits(64))
    vals = sorted(set(vals))
    lines = ["#include <stdint.h>", "#include <librfn/constexpr.h>"]
    for k, v in enumerate(vals):
        pop = bin(v).count("1")
        lssb = (v & -v).bit_length() - 1 if v else -1
        lines.append("_Static_assert(const_pop(0x%xull) == %d, \"pop %d\");" % (v, pop, k))
        lines.append("_Static_assert(const_lssb(0x%xull) == %d, \"lssb %d\");" % (v, lssb, k))
    rc, err = build.syntax_check("c16_static.c", "\n".join(lines) + "\n")
    failed = [l for l in err.splitlines() if "static_assert failed" in l or "static assertion failed" in l]
    other = [l for l in err.splitlines() if "error:" in l and l not in failed]
    if other:
        chk.unknown("B3.constant-expression", "static-assert batch", "witness does not compile: %s" % other[0][:200])
        return
    detail = "%d constants (all one-bit, two-bit and contiguous-mask patterns, 0, ~0, %d pseudo-random from seed %d): %d mismatches" % (
        len(vals), 20000 if tier == "thorough" else 2000, seed, len(failed))
    if failed:
        idx = failed[0]
        detail += "; first: %s" % idx.strip()[:160]
    chk.ob("B3.constant-expression", "const_pop/const_lssb as integer constant expressions", not failed, detail,
           "include/librfn/constexpr.h", "const_pop/const_lssb")
    chk.extra["static_assert_constants"] = len(vals)


def check_regdump(chk):
    from .. import paths
    try:
        m = build.load_unit("librfn/regdump.c")
    except AnalysisError as e:
        chk.unknown("B4.regdump-shift", "regdump.c", str(e)[:200])
        return
    chk.note_unit(m)
    fn = m.fn("fregdump_single")
    found = False
    ok = True
    for i in fn.real_insts():
        if i.op in ("lshr", "ashr") and not i.ops[1].is_const_int():
            found = True
            # the shift count is ctz(mask): a call of ctz, or what the header makes of it (a count-trailing-zeros builtin with the
            # zero case selected separately), possibly widened
            leaves, work, seen = [], [i.ops[1]], set()
            while work:
                v = work.pop()
                if v.is_const_int():
                    continue
                d = v.inst
                if d is None or id(d) in seen:
                    if d is None:
                        leaves.append(None)
                    continue
                seen.add(id(d))
                if d.op in ("zext", "sext", "trunc", "freeze"):
                    work.append(d.ops[0])
                elif d.op == "phi":
                    work += [x for x, b in d.incoming]
                elif d.op == "select":
                    work += [d.ops[1], d.ops[2]]
                else:
                    leaves.append(d)
            good = bool(leaves) and all(d is not None and d.op == "call" and (d.callee == "ctz" or (d.callee or "").startswith("llvm.cttz."))
                                        for d in leaves)
            if good:
                # the mask whose ctz is taken is the mask applied to the register value
                val = i.ops[0].inst
                good = val is not None and val.op == "and"
            ok = ok and good
    if not found:
        chk.unknown("B4.regdump-shift", "fregdump_single", "no variable right shift found")
    else:
        chk.ob("B4.regdump-shift", "fregdump_single", ok,
               "the field is extracted as (reg & mask) >> ctz(mask)", fn.loc, fn.name)


API_WITNESS = '''
#include <stdint.h>
#include <librfn/bitops.h>
int w_once_bitcnt(uint32_t (*next)(void)) { return bitcnt(next()); }
int w_once_clz(uint32_t (*next)(void)) { return clz(next()); }
int w_once_ctz(uint32_t (*next)(void)) { return ctz(next()); }
int w_once_ilog2(uint32_t (*next)(void)) { return ilog2(next()); }
/* the helpers take a uint32_t: a wider argument is converted first, whatever the header makes of the name */
int w_wide_bitcnt(uint64_t x) { return bitcnt(x); }
int w_wide_clz(uint64_t x) { return clz(x); }
int w_wide_ctz(uint64_t x) { return ctz(x); }
'''


def check_api_hygiene(chk):
    """B6: bitcnt / clz / ctz / ilog2 as a caller writes them (function, header inline or macro): the argument expression is
    evaluated exactly once, and an argument wider than 32 bits is converted to uint32_t before anything is decided from it."""
    from .. import paths
    chk.rule("B6", "bitcnt / clz / ctz / ilog2 as written by a caller: argument evaluated once; a wider argument is converted to uint32_t first")
    names = ["w_once_bitcnt", "w_once_clz", "w_once_ctz", "w_once_ilog2", "w_wide_bitcnt", "w_wide_clz", "w_wide_ctz"]
    try:
        w = build.api_view("c16_hyg.c", API_WITNESS, ["librfn/bitops.c"], names)
    except AnalysisError as e:
        chk.unknown("B6.single-evaluation", "bitops witness", "witness does not build: %s" % str(e)[-200:])
        return
    chk.note_unit(w)
    for nm in names[:4]:
        fn = w.fn(nm)
        # IR level: exactly one call through the function-pointer argument, outside every cycle, in a block that dominates every
        # return (so it is executed exactly once whatever path is taken)
        ind = [i for i in fn.real_insts() if i.op == "call" and i.callee is None]
        rets = fn.rets()
        once = len(ind) == 1 and not fn.in_cycle(ind[0]) and all(fn.block_dominates(ind[0].block, r.block) for r in rets)
        chk.ob("B6.single-evaluation", "%s(next())" % nm[7:], once,
               "the argument expression is evaluated exactly once on every path" if once else
               "the argument expression is not evaluated exactly once (%d call site(s)%s): with an argument that has a side effect (a FIFO "
               "pop, a register read) the value examined is not the value counted" % (len(ind), ", one inside a loop" if any(fn.in_cycle(i) for i in ind) else ""),
               fn.loc, nm)
    decide(chk, "B6.argument-conversion", "bitcnt(uint64_t)", w, "w_wide_bitcnt", 64, lambda bv, x, n: spec_popcount(bv, x[:32], n), what="bitcnt of a 64-bit argument")
    decide(chk, "B6.argument-conversion", "clz(uint64_t)", w, "w_wide_clz", 64, lambda bv, x, n: spec_clz(bv, x[:32], n), what="clz of a 64-bit argument")
    decide(chk, "B6.argument-conversion", "ctz(uint64_t)", w, "w_wide_ctz", 64, lambda bv, x, n: spec_ctz(bv, x[:32], n), what="ctz of a 64-bit argument")


def run(chk):
    chk.level = "proof"
    chk.explanation = (
        "bitcnt, clz, ctz, ilog2 (bitops.c) and the macros const_pop / const_lssb (through witness functions with a "
        "run-time argument) are abstractly interpreted over their LLVM IR in the BDD bit-vector domain: every SSA value "
        "is a vector of canonical Boolean functions of the input bits, branches are followed with exact path conditions. "
        "The result is compared with the specification vector; equality of canonical forms is equality on all 2^32 / "
        "2^64 arguments. The macros are also checked as integer constant expressions by a _Static_assert batch.")
    chk.rule("B1", "bitcnt(x) = number of one bits; clz(x), ctz(x) = leading / trailing zero count (32 for 0); ilog2(x) = index of highest set bit for x > 0: equality of BDD vectors")
    chk.rule("B2", "const_pop(c), const_lssb(c) applied to a run-time 64-bit (and 32-bit) value equal popcount / lowest set bit index (-1 for 0): equality of BDD vectors")
    chk.rule("B3", "const_pop / const_lssb are integer constant expressions with the right value for all listed constant families (compile-time witness)")
    chk.rule("B4", "regdump extracts a field as (reg & mask) >> ctz(mask)")
    chk.trusted_base += ["sa/domains/bdd.py (ROBDD), sa/domains/bvexec.py (bit-vector transfer functions)",
                         "clang's constant folder for the _Static_assert witness"]
    chk.assumptions += ["32-bit int / unsigned (ILP32 or LP64), as on every target the library supports",
                        "if a helper converts through floating point: IEEE-754 binary32/binary64 and the default rounding mode (round to nearest even)"]
    m = build.load_unit("librfn/bitops.c")
    chk.note_unit(m)
    # each of the four is a FUNCTION of its argument: nothing remembered from earlier calls may reach the result
    from .purity import check_no_static_influence
    chk.rule("B5", "bitcnt / clz / ctz / ilog2 keep no state between calls: no value read from a mutable static object reaches the result or a branch")
    for nm in ("bitcnt", "clz", "ctz", "ilog2"):
        if m.has_fn(nm):
            check_no_static_influence(chk, "B5.stateless", m, m.fn(nm),
                                      "the result then depends on the arguments of earlier calls, not only on x")
    decide(chk, "B1.bitcnt", "bitcnt", m, "bitcnt", 32, spec_popcount)
    decide(chk, "B1.clz", "clz", m, "clz", 32, spec_clz)
    decide(chk, "B1.ctz", "ctz", m, "ctz", 32, spec_ctz)
    decide(chk, "B1.ilog2", "ilog2", m, "ilog2", 32, spec_ilog2, care=nonzero, what="ilog2 (x > 0)")
    try:
        # the macros as user code sees them: whatever they expand to is linked with bitops.c and inlined into the witnesses
        w = build.api_view("c16_api.c", MACRO_WITNESS, ["librfn/bitops.c"],
                           ["w_const_pop", "w_const_lssb", "w_const_lssb_negative", "w_const_pop32", "w_const_lssb32", "w_const_pop_s32"])
        chk.note_unit(w)
        decide(chk, "B2.const_pop", "const_pop(uint64_t run-time value)", w, "w_const_pop", 64, spec_popcount, what="const_pop")
        decide(chk, "B2.const_lssb", "const_lssb(uint64_t run-time value)", w, "w_const_lssb", 64,
               lambda bv, x, n: spec_ctz(bv, x, n, zero_value=-1), what="const_lssb")
        decide(chk, "B2.const_lssb", "const_lssb(c) < 0 exactly for c == 0 (the VALUE is -1, not 2^64-1 in an unsigned type)", w,
               "w_const_lssb_negative", 64, lambda bv, x, n: bv.zext([bv.eq(x, bv.const(0, len(x)))], n), what="const_lssb(c) < 0")
        decide(chk, "B2.const_pop", "const_pop(uint32_t run-time value)", w, "w_const_pop32", 32, spec_popcount, what="const_pop")
        decide(chk, "B2.const_lssb", "const_lssb(uint32_t run-time value)", w, "w_const_lssb32", 32,
               lambda bv, x, n: spec_ctz(bv, x, n, zero_value=-1), what="const_lssb")
    except AnalysisError as e:
        chk.unknown("B2.const_pop", "macro witness", "witness does not compile: %s" % str(e)[-300:])
    static_assert_witness(chk, chk.seed, chk.tier)
    check_regdump(chk)
    check_api_hygiene(chk)
