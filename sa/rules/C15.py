"""C15 - console: memory-safety and protocol clauses, and the tokeniser as a finite transducer.

 K1 line cursor stays inside the line buffer: every store through bufp is guarded by bufp < buf + K with
    K <= SCRATCH_SIZE-1, bufp only moves by +1 after such a store, by -1 above buf, or is reset to buf
 K2 NUL-suffix invariant: every byte at or above bufp is NUL when the tokeniser measures the line with strlen
    (a decrement must zero the vacated byte, or a NUL is stored through bufp before tokenising)
 K3 argv bounds: inductive invariant 1 <= argc <= lengthof(argv)-1 at the tokeniser's loop head; every argv[] store in bounds
 K4 constant subscripts / address-of-element stay inside the declared array (IR GEP steps)
 K5 command table: the full test guards every store; names are tested for NULL before strcmp; lookup is an exact strcmp == 0
 K6 dispatch order: tokenise -> find -> spawn the command -> prompt reset (which clears the whole scratch area)
 K7 delivery routes: putchar / process / eval feed the ring before waking or running the console
 K8 tokeniser: the loop body, evaluated over character classes closed under the code's own tests, walks in lock-step with
    the reference transducer on every line whose tokenisation the property determines (exhaustive over reachable
    product states, hence over all such lines of any length)
Both CONFIG_NO_FIBRE settings are analysed.
"""
from .. import build, flow, paths
from ..domains.lin import Lin, Prover, expr_to_lin
from ..ir import AnalysisError
from ..paths import fmt, ptr_parts, strip_casts

UNIT = "librfn/console.c"


def layout(m):
    tid = m.di_by_name.get("console_t") or m.di_by_name.get("console")
    if not tid:
        raise AnalysisError("anchor vanished: console_t")
    L = {p: (o, s) for p, o, s, t in m.di_leaves(tid)}
    for k in ("scratch.buf", "bufp", "argc", "argv"):
        if k not in L:
            raise AnalysisError("anchor vanished: console_t.%s" % k)
    scratch_lo = min(o for p, (o, s) in L.items() if p.startswith("scratch."))
    scratch_hi = max(o + s for p, (o, s) in L.items() if p.startswith("scratch."))
    return L, scratch_lo, scratch_hi, m.ditypes[m.di_strip(tid)]["size"]


def carg(fn):
    for i, a in enumerate(fn.args):
        if a.ty in ("%struct.console*",):
            return i
    return None


class CursorSem:
    """Branch conditions of one segment over o = bufp - buf (64-bit signed, pointers as offsets from buf), BDD-decided.
    Loads of bufp separated by a call that may write bufp get different variables; each carries the cursor invariant."""

    def __init__(self, p, m, fn, ca, buf_off, buf_sz, bufp_ptr, writers):
        from ..domains.bdd import BDD, BV
        from ..domains.bvexec import expr_bv, Top
        self.B = B = BDD()
        self.bv = BV(B)
        self.expr_bv, self.Top = expr_bv, Top
        self.p, self.ca, self.buf_off, self.buf_sz, self.bufp_ptr = p, ca, buf_off, buf_sz, bufp_ptr
        self.vars = {}
        # epoch of every load of bufp: number of possibly-writing calls before it
        epoch = 0
        self.epoch_of = {}
        for e in p.events:
            if e.kind == "call" and (not isinstance(e.callee, str) or e.callee in writers):
                epoch += 1
            if e.kind == "load" and e.ptr == bufp_ptr and e.val is not None:
                self.epoch_of.setdefault(e.val, epoch)
        self.problem = None
        self.pc = 1
        for c, taken, inst in p.conds:
            if not paths.contains(c, lambda x: x[0] == "ld" and x[1] == bufp_ptr):
                continue
            v = self.conv(c)
            if v is None:
                self.problem = "condition %s on the cursor is outside the modelled fragment" % fmt(c)[:90]
                continue
            bit = 0
            for x in v:
                bit = B.OR(bit, x)
            self.pc = B.AND(self.pc, bit if taken else B.NOT(bit))

    def var(self, ld):
        ep = self.epoch_of.get(ld, 0)
        if ep not in self.vars:
            base = 64 * len(self.vars)
            v = [self.B.var(base + i) for i in range(64)]
            inv = self.B.AND(self.B.NOT(self.bv.slt(v, self.bv.const(0, 64))), self.bv.slt(v, self.bv.const(self.buf_sz, 64)))
            self.vars[ep] = (v, inv, base)
            self.pc = self.B.AND(self.pc, inv)
        return self.vars[ep][0]

    def off_of(self, x):
        bv = self.bv
        if x[0] == "cast" and x[1] in ("bitcast", "ptrtoint", "inttoptr"):
            return self.off_of(x[4])
        if x[0] == "ld" and x[1] == self.bufp_ptr:
            return self.var(x)
        if x[0] == "arg" and x[1] == self.ca:
            return bv.const((-self.buf_off) & ((1 << 64) - 1), 64)
        if x[0] == "p":
            base = self.off_of(x[1])
            if base is None:
                return None
            v = bv.add(base, bv.const(x[2] & ((1 << 64) - 1), 64))
            for ve, sc in x[3]:
                t = self.conv(ve)
                if t is None:
                    return None
                t = bv.sext(t, 64) if len(t) < 64 else t
                v = bv.add(v, bv.mul(t, bv.const(sc, 64)))
            return v
        return None

    def atom(self, x):
        if x[0] == "cast" and x[1] == "ptrtoint":
            return self.off_of(x[4])
        if x[0] in ("ld", "p"):
            o = self.off_of(x)
            if o is not None:
                return o
        if x[0] == "icmp":
            a, b = self.off_of(x[2]), self.off_of(x[3])
            if a is not None and b is not None:
                bv, BB = self.bv, self.B
                pr = {"ule": "sle", "ult": "slt", "ugt": "sgt", "uge": "sge"}.get(x[1], x[1])
                return [{"eq": lambda: bv.eq(a, b), "ne": lambda: BB.NOT(bv.eq(a, b)), "slt": lambda: bv.slt(a, b),
                         "sgt": lambda: bv.slt(b, a), "sle": lambda: BB.NOT(bv.slt(b, a)), "sge": lambda: BB.NOT(bv.slt(a, b))}[pr]()]
        return None

    def conv(self, x):
        try:
            return self.expr_bv(x, self.bv, self.atom)
        except (self.Top, KeyError, IndexError, TypeError):
            return None

    def offset_within(self, ld, d, lo, hi):
        """Do the segment's conditions imply lo <= (ld - buf) + d <= hi ?  -> (True, None) | (False, witness o) | (None, why)"""
        if self.problem:
            return None, self.problem
        bv, B = self.bv, self.B
        o = self.var(ld)
        t = bv.add(o, bv.const(d & ((1 << 64) - 1), 64))
        ok = B.AND(B.NOT(bv.slt(t, bv.const(lo, 64))), B.NOT(bv.slt(bv.const(hi, 64), t)))
        bad = B.AND(self.pc, B.NOT(ok))
        if bad == 0:
            return True, None
        asg = B.sat_one(bad) or {}
        base = self.vars[self.epoch_of.get(ld, 0)][2]
        val = sum((1 << i) for i in range(64) if asg.get(base + i))
        if val >> 63:
            val -= 1 << 64
        return False, val


def check_k1_k2(chk, m, cfg, L, scr_lo, scr_hi):
    fn = m.fn("console_run")
    chk.note_fn(fn)
    ca = carg(fn)
    buf_off, buf_sz = L["scratch.buf"]
    bufp_ptr = paths.mkptr(("arg", ca), L["bufp"][0])
    segs = paths.enumerate_segments(fn, m)
    n_store = n_dec = 0
    tokenise_segments = []
    # functions that (transitively) write console_t.bufp: a load of bufp after a call of one of them is a new value
    prog = flow.Program([m])
    direct_w = set(f.name for f in m.defined_functions()
                   if any(a.struct in ("console", "console_t") and a.writes and (a.field == "bufp" or a.kind in ("memset", "memcpy_dst"))
                          for a in flow.accesses(f, m)))
    writers = set(f.name for f in m.defined_functions() if any(g.name in direct_w for g in prog.closure(f)))
    for start, p in segs:
        sid = "console_run[%s] %s..%s" % (cfg, start.lstrip("%"), (p.blocks[-1] if p.blocks else "").lstrip("%"))
        ev = p.events
        is_bufp_ld = lambda x: x[0] == "ld" and x[1] == bufp_ptr
        # stores through the cursor, decided semantically: with o = bufp - buf and the cursor invariant 0 <= o <= size-1 at the
        # start of the segment, the branch conditions of the segment must imply that the byte written is inside the line
        sem = CursorSem(p, m, fn, ca, buf_off, buf_sz, bufp_ptr, writers)
        for k, e in enumerate(ev):
            if e.kind == "store" and e.ptr is not None:
                root, off, var = ptr_parts(e.ptr)
                if is_bufp_ld(root):
                    n_store += 1
                    if var:
                        chk.unknown("K1.guarded-store", sid, "store through bufp with a variable offset", e.inst.loc)
                        continue
                    is_nul = e.val[0] == "c" and e.val[2] == 0
                    hi = buf_sz - 1 if is_nul else buf_sz - 2
                    verdict, wit = sem.offset_within(root, off, 0, hi)
                    what = "NUL" if is_nul else "a character"
                    if verdict is None:
                        chk.unknown("K1.guarded-store", sid, wit, e.inst.loc)
                    elif verdict:
                        chk.ob("K1.guarded-store", sid + " bufp%+d" % off, True,
                               "store of %s at bufp%+d stays within buf[0..%d] under the segment's conditions and the cursor invariant"
                               % (what, off, hi), e.inst.loc, fn.name)
                    else:
                        chk.ob("K1.guarded-store", sid + " bufp%+d" % off, False,
                               "store of %s at bufp%+d can fall outside buf[0..%d]: e.g. with bufp - buf == %s the byte written is buf[%s]%s"
                               % (what, off, hi, wit, wit + off, "" if is_nul else
                                  "; buf[%d] must stay NUL (the only terminator of a full line: strlen in the tokeniser would run off "
                                  "the buffer)" % (buf_sz - 1)), e.inst.loc, fn.name)
            if e.kind == "store" and e.ptr == bufp_ptr:
                v = e.val
                root, off, var = ptr_parts(v)
                if is_bufp_ld(root) and off == 1 and not var:
                    st = [x for x in ev if x.kind == "store" and x.ptr is not None and ptr_parts(x.ptr)[0] == root]
                    chk.ob("K1.cursor-update", sid + " +1", bool(st), "bufp++ belongs to a store through the old bufp", e.inst.loc, fn.name)
                    verdict, wit = sem.offset_within(root, 1, 0, buf_sz - 1)
                    if verdict is None:
                        chk.unknown("K1.cursor-update", sid, wit, e.inst.loc)
                    else:
                        chk.ob("K1.cursor-update", sid + " +1 range", verdict, "bufp + 1 <= buf + %d on this segment" % (buf_sz - 1)
                               if verdict else "bufp++ can move the cursor beyond buf + %d (bufp - buf == %s before)" % (buf_sz - 1, wit),
                               e.inst.loc, fn.name)
                elif is_bufp_ld(root) and off == -1 and not var:
                    n_dec += 1
                    verdict, wit = sem.offset_within(root, -1, 0, buf_sz - 1)
                    if verdict is None:
                        chk.unknown("K1.cursor-update", sid, wit, e.inst.loc)
                    else:
                        chk.ob("K1.cursor-update", sid + " -1", verdict, "bufp-- only when bufp > buf" +
                               ("" if verdict else " (possible with bufp - buf == %s)" % wit), e.inst.loc, fn.name)
                    # K2: the vacated byte must be zeroed
                    zero = [x for x in ev if x.kind == "store" and x.ptr is not None and ptr_parts(x.ptr)[0] == root
                            and ptr_parts(x.ptr)[1] == -1 and x.val[0] == "c" and x.val[2] == 0]
                    p.k2_dec = (e, bool(zero))
                elif v == paths.mkptr(("arg", ca), buf_off):
                    chk.ob("K1.cursor-update", sid + " reset", True, "bufp = buf", e.inst.loc, fn.name)
                else:
                    chk.unknown("K1.cursor-update", sid, "bufp is assigned %s" % fmt(v)[:60], e.inst.loc)
        if any(e.kind == "call" and e.callee == "do_tokenize" for e in ev):
            tokenise_segments.append((sid, p))
    chk.expect("K1", "stores through bufp [%s]" % cfg, n_store, 1)
    # K2
    term_before_tok = True
    for sid, p in tokenise_segments:
        k_tok = [k for k, e in enumerate(p.events) if e.kind == "call" and e.callee == "do_tokenize"][0]
        z = [e for e in p.events[:k_tok] if e.kind == "store" and e.ptr is not None and ptr_parts(e.ptr)[0][0] == "ld"
             and ptr_parts(e.ptr)[0][1] == bufp_ptr and e.val[0] == "c" and e.val[2] == 0]
        if not z:
            term_before_tok = False
    for start, p in segs:
        if hasattr(p, "k2_dec"):
            e, zeroed = p.k2_dec
            ok = zeroed or (term_before_tok and bool(tokenise_segments))
            chk.ob("K2.nul-suffix", "console_run[%s] backspace" % cfg, ok,
                   "the cursor is moved back%s; the tokeniser measures the line with strlen(buf), not with bufp, so the "
                   "erased character would still be part of the dispatched line (\"ab\\b\\n\" runs \"ab\")" %
                   (" and the vacated byte is zeroed" if zeroed else " but the vacated byte keeps its character and no NUL is "
                    "stored through bufp before tokenising") if not ok else
                   "the cursor is moved back and the line stays NUL-terminated at the cursor", e.inst.loc, fn.name)
    # do_prompt clears the whole scratch area and resets the cursor
    fp = m.fn("do_prompt")
    chk.note_fn(fp)
    cp = carg(fp)
    for p in paths.enumerate_paths(fp, m):
        ms = [e for e in p.events if e.kind == "memset" and ptr_parts(e.ptr)[0] == ("arg", cp)]
        ok = any(ptr_parts(e.ptr)[1] <= buf_off and e.size is not None and ptr_parts(e.ptr)[1] + e.size >= buf_off + buf_sz
                 and e.size + ptr_parts(e.ptr)[1] <= scr_hi and e.val == ("c", 8, 0) for e in ms)
        rs = [e for e in p.events if e.kind == "store" and e.ptr == paths.mkptr(("arg", cp), L["bufp"][0])
              and e.val == paths.mkptr(("arg", cp), buf_off)]
        chk.ob("K6.prompt-reset", "do_prompt[%s]" % cfg, ok and bool(rs),
               "do_prompt zero-fills the line buffer (within the scratch union) and sets bufp = buf", fp.loc, fp.name)


def check_k3(chk, m, cfg, L):
    fn = m.fn("do_tokenize")
    chk.note_fn(fn)
    ca = carg(fn)
    argc_ptr = paths.mkptr(("arg", ca), L["argc"][0])
    argv_off, argv_sz = L["argv"]
    N = argv_sz // m.ptr_size
    heads = sorted(fn.loops_headers())
    segs = paths.enumerate_segments(fn, m, call_effects={"strlen": [], "__ctype_b_loc": []})
    n = 0
    # is argv indexed by the argc field (then 1 <= argc <= N-1 is the loop invariant to re-establish) or by a local counter
    # (then each store is bounded by the conditions of its own segment and the counter's monotone lower bound)?
    uses_argc_field = False
    for start, p in segs:
        for e in p.events:
            if e.kind == "store" and e.ptr is not None:
                root, off, var = ptr_parts(e.ptr)
                if root == ("arg", ca) and argv_off <= off < argv_off + argv_sz and var and \
                        paths.contains(var[0][0], lambda x: x[0] == "ld" and x[1] == argc_ptr):
                    uses_argc_field = True

    def sym_lower_bound(name):
        """Lower bound of a loop-carried counter: its constant initial values, if every other incoming value is the counter
        itself plus a non-negative constant."""
        phi = fn.defs.get(name)
        if phi is None or phi.op != "phi":
            return None
        lo = None
        for v, b in phi.incoming:
            if v.is_const_int():
                sv = v.sval
                lo = sv if lo is None else min(lo, sv)
            elif v.k == "inst":
                d = v.inst
                if d is phi:
                    continue
                if d is not None and d.op == "add" and d.ops[0].k == "inst" and d.ops[0].name == name and d.ops[1].is_const_int() \
                        and d.ops[1].sval >= 0:
                    continue
                return None
            else:
                return None
        return lo
    # a loop-carried LOCAL that indexes argv (the count is kept in a local and written to c->argc once at the end): the same
    # invariant 1 <= count <= N-1 at its loop head, assumed at the head and re-established on every arrival there
    local_counters = {}
    for start, p in segs:
        for e in p.events:
            if e.kind == "store" and e.ptr is not None:
                root, off, var = ptr_parts(e.ptr)
                if root == ("arg", ca) and argv_off <= off < argv_off + argv_sz and len(var) == 1:
                    for x in paths.subexprs(var[0][0]):
                        if x[0] == "sym":
                            d_ = fn.defs.get(x[1])
                            # (of the tokenising loop - the first one; the padding loop's own index is bounded by its loop condition)
                            if d_ is not None and d_.op == "phi" and heads and d_.block.name == heads[0]:
                                local_counters[x[1]] = d_.block.name
    class _Dry:
        def __init__(self):
            self.inv_failed = False

        def ob(self, rule, inst, ok, *a, **k):
            pass

        def unknown(self, rule, inst, *a, **k):
            if rule == "K3.argc-invariant" and "local argument counter" in (a[0] if a else ""):
                self.inv_failed = True

    def run_pass(chk_):
        n = 0
        for start, p in segs:
            sid = "do_tokenize[%s] %s -> %s" % (cfg, start.lstrip("%"), p.end)
            pr = Prover()
            A = Lin.atom("argc")
            first_head = start != fn.entry.name
            for cn, hd in local_counters.items():
                if start == hd:
                    pr.assume_le(Lin.const(1), Lin.atom("sym:" + cn))
                    pr.assume_le(Lin.atom("sym:" + cn), Lin.const(N - 1))

            def atom_of(x):
                if x[0] == "ld" and x[1] == argc_ptr:
                    return "argc"
                if x[0] == "sym":
                    return "sym:" + x[1]
                return None
            if first_head:
                pr.assume_le(Lin.const(1), A)
                pr.assume_le(A, Lin.const(N - 1))
            # a re-load of argc after the segment has stored to it sees the stored value (the engine forgets it when a store to
            # argv[variable] intervenes; that store stays inside argv by K3.argv-store, so it cannot have changed argc)
            fwd = {}
            cur = None
            for e in p.events:
                if e.kind == "store" and e.ptr == argc_ptr:
                    cur = e.val
                elif e.kind == "load" and e.ptr == argc_ptr and cur is not None and e.val[0] == "ld":
                    fwd[e.val] = cur

            def forward(x, depth=0):
                if not isinstance(x, tuple) or depth > 8:
                    return x
                if x in fwd:
                    return forward(fwd[x], depth + 1)
                return tuple(forward(y, depth) if isinstance(y, tuple) else y for y in x)
            for c, taken, inst in p.conds:
                cc = strip_casts(forward(c))
                if cc[0] != "icmp":
                    continue
                a, b = expr_to_lin(cc[2], atom_of), expr_to_lin(cc[3], atom_of)
                if not all(isinstance(k, str) for k in a.atoms() | b.atoms()):
                    continue
                pred = cc[1]
                if not taken:
                    pred = {"ult": "uge", "uge": "ult", "ule": "ugt", "ugt": "ule", "eq": "ne", "ne": "eq",
                            "slt": "sge", "sge": "slt", "sle": "sgt", "sgt": "sle"}[pred]
                p2 = pred[1:] if pred[0] in "us" and len(pred) == 3 else pred
                {"lt": lambda: pr.assume_lt(a, b), "le": lambda: pr.assume_le(a, b), "gt": lambda: pr.assume_lt(b, a),
                 "ge": lambda: pr.assume_le(b, a), "eq": lambda: pr.assume_eq(a, b), "ne": lambda: pr.assume_ne(a, b)}[p2]()
                for k in a.atoms() | b.atoms():
                    if k.startswith("sym:"):
                        pr.assume_ge0(Lin.atom(k))
                        lb = sym_lower_bound(k[4:])
                        if lb is not None and lb > 0:
                            pr.assume_le(Lin.const(lb), Lin.atom(k))
            for e in p.events:
                if e.kind == "store" and e.ptr is not None:
                    root, off, var = ptr_parts(e.ptr)
                    if root == ("arg", ca) and argv_off <= off < argv_off + argv_sz + m.ptr_size and (var or off >= argv_off):
                        if root == ("arg", ca) and (off - argv_off) % m.ptr_size == 0 and (not var or (len(var) == 1 and var[0][1] == m.ptr_size)):
                            idx = Lin.const((off - argv_off) // m.ptr_size)
                            if var:
                                idx = idx + expr_to_lin(forward(var[0][0]), atom_of)
                            if off == L["cmd"][0] if "cmd" in L else False:
                                continue
                            n += 1
                            named = all(isinstance(k, str) for k in idx.atoms())
                            ok = named and pr.prove_ge0(idx) and pr.prove_le(idx, Lin.const(N - 1))
                            if ok:
                                chk_.ob("K3.argv-store", sid + " argv[%s]" % idx, True, "index proved within [0, %d]" % (N - 1), e.inst.loc, fn.name)
                            else:
                                env = pr.refute_ge0(Lin.const(N - 1) - idx, {a: range(0, N + 3) for a in
                                                                              (idx.atoms() | set().union(*[h.atoms() for h in pr.hyps]) if pr.hyps else idx.atoms())}) if named else None
                                if env is not None:
                                    chk_.ob("K3.argv-store", sid + " argv[%s]" % idx, False,
                                           "argv[%s] can be written out of bounds (argv has %d entries), e.g. %s" % (idx, N, {k: int(v) for k, v in env.items()}),
                                           e.inst.loc, fn.name)
                                else:
                                    chk_.unknown("K3.argv-store", sid, "index %s of argv not decided" % idx, e.inst.loc)
            for cn, hd in local_counters.items():
                if p.end == "cut:" + hd and cn in (getattr(p, "carried", None) or {}):
                    v = expr_to_lin(p.carried[cn], atom_of)
                    if all(isinstance(k, str) for k in v.atoms()) and pr.prove_le(Lin.const(1), v) and pr.prove_le(v, Lin.const(N - 1)):
                        chk_.ob("K3.argc-invariant", sid + " " + cn, True, "1 <= count <= %d re-established at the loop head for the local "
                               "argument counter (count = %s)" % (N - 1, v), p.ret_inst.loc, fn.name)
                    else:
                        chk_.unknown("K3.argc-invariant", sid + " " + cn, "the local argument counter arrives at its loop head as %s: not shown "
                                    "to stay within [1, %d]" % (v, N - 1), p.ret_inst.loc)
            # invariant re-established on arrival at the first loop head (only when argv is indexed by the argc field itself)
            if uses_argc_field and (p.end.startswith("cut:") and heads and p.end == "cut:" + heads[0] or (p.end.startswith("cut:") and len(heads) == 1)):
                fin = None
                for e in p.events:
                    if e.kind == "store" and e.ptr == argc_ptr:
                        fin = e.val
                v = expr_to_lin(forward(fin), atom_of) if fin is not None else A
                if all(isinstance(k, str) for k in v.atoms()):
                    ok = pr.prove_le(Lin.const(1), v) and pr.prove_le(v, Lin.const(N - 1))
                    if ok:
                        chk_.ob("K3.argc-invariant", sid, True, "1 <= argc <= %d re-established at the loop head (argc = %s)" % (N - 1, v), p.ret_inst.loc, fn.name)
                    else:
                        env = pr.refute_ge0(Lin.const(N - 1) - v, {a: range(0, N + 3) for a in (v.atoms() | set().union(*[h.atoms() for h in pr.hyps]))})
                        if env is not None:
                            chk_.ob("K3.argc-invariant", sid, False,
                                   "the loop continues with argc = %s, e.g. %s: the next argument is stored to argv[%d] of %d"
                                   % (v, {k: int(x) for k, x in env.items()}, int(v.eval(env)), N), p.ret_inst.loc, fn.name)
                        else:
                            chk_.unknown("K3.argc-invariant", sid, "argc = %s at the loop head not decided" % v, p.ret_inst.loc)
        return n
    if local_counters:
        # the invariant is used only if it is inductive; a counter that may reach N at the loop head (tested there before each
        # store) is bounded by the segment's own conditions instead
        dry = _Dry()
        run_pass(dry)
        if dry.inv_failed:
            local_counters.clear()
    n = run_pass(chk)
    chk.expect("K3", "argv stores in do_tokenize segments [%s]" % cfg, n, 3)


def check_k4(chk, mods, cfg):
    n = 0
    for m in mods:
        for fn in m.defined_functions():
            for i in fn.real_insts():
                if i.op == "getelementptr" and i.get("arr_idx"):
                    for N, idx in i["arr_idx"]:
                        if idx is None:
                            continue
                        n += 1
                        users = fn.users(i.value)
                        deref = any(u.op in ("load", "store") for u in users)
                        ok = 0 <= idx < N or (idx == N and not deref)
                        if not ok:
                            chk.ob("K4.constant-subscript", "%s[%s] %s" % (fn.name, cfg, i.loc), False,
                                   "element %d of an array of %d (%s): outside the declared array%s" %
                                   (idx, N, i["src_ty"], "; the pointer is kept and written through" if True else ""),
                                   i.loc, fn.name)
    chk.ob("K4.constant-subscript", "all constant array subscripts [%s]" % cfg, True,
           "%d constant subscripts of fixed-size arrays inspected" % n, "", "")
    chk.expect("K4", "constant array subscripts [%s]" % cfg, n, 5)


def check_register_effect(chk, m, cfg):
    """K5.insert-effect: console_register evaluated on an abstract table for every fill level k (0..N-1 entries, sorted, the rest
    NULL) and every place t (0..k) at which the new command sorts: the comparison of a table entry's name with the new name is
    positive exactly for entries at or after t; entries are opaque labels.  The segments of the function (cut at loop heads) are
    stepped with their conditions evaluated on that table; result required: entries 0..t-1 unchanged, the new command at t,
    entries t..k-1 moved up by one, 0 returned.  (Finite evaluation over the index structure; no library code is run.)"""
    fn = m.fn("console_register")
    g = m.globals.get("cmd_table")
    N = g["size"] // m.ptr_size
    PS = m.ptr_size
    try:
        segs = [(s0, p) for s0, p in paths.enumerate_segments(fn, m) if p.end != "unreachable"]
    except AnalysisError as e:
        chk.unknown("K5.insert-effect", "console_register[%s]" % cfg, str(e)[:150], fn.loc)
        return
    NEW, SENT = 999, 998
    name_off = 0

    class Bail(Exception):
        pass

    class Violation(Exception):
        pass

    def run_scenario(k, t):
        table = [1000 + j for j in range(k)] + [SENT] + [0] * (N - k - 1)
        order = lambda lab: 2 * t if lab == NEW else 2 * (lab - 1000) + 1

        def slot_index(ptr, env):
            root, off, var = ptr_parts(ptr)
            if root != ("g", "cmd_table"):
                return None
            b = off + sum(ev(v, env) * sc for v, sc in var)
            if b % PS or not (0 <= b // PS < N):
                raise Bail("table access at byte offset %d is outside / misaligned" % b)
            return b // PS

        def name_of(x, env):
            """label whose name string x designates"""
            v = ev(x, env)
            if v == 0:
                raise Violation("a NULL name (the sentinel's) is passed to the comparison function")
            if v < 5000:
                raise Bail("name operand %s" % fmt(x)[:40])
            return v - 5000

        def ev(x, env):
            k_ = x[0]
            if k_ == "c":
                return x[2]
            if k_ == "null":
                return 0
            if k_ == "arg" and x[1] == 0:
                return NEW
            if k_ == "sym":
                if x not in env:
                    raise Bail("value %s" % fmt(x))
                return env[x]
            if k_ == "cast":
                v = ev(x[4], env)
                if x[1] == "zext":
                    return v & paths.mask(x[2]) if x[2] else v
                if x[1] == "trunc":
                    return v & paths.mask(x[3]) if x[3] else v
                if x[1] == "sext":
                    v &= paths.mask(x[2])
                    return (v - (1 << x[2])) & paths.mask(x[3]) if v >> (x[2] - 1) else v
                return v
            if k_ == "b":
                r = paths.fold_bin(x[1], x[2], ("c", x[2], ev(x[3], env) & paths.mask(x[2])), ("c", x[2], ev(x[4], env) & paths.mask(x[2])))
                if r is None:
                    raise Bail("operation %s" % x[1])
                return r[2]
            if k_ == "icmp":
                bits = paths.expr_bits(x[2]) or paths.expr_bits(x[3]) or 64
                return paths.fold_icmp(x[1], ("c", bits, ev(x[2], env) & paths.mask(bits)), ("c", bits, ev(x[3], env) & paths.mask(bits)))[2]
            if k_ == "ld":
                si = slot_index(x[1], env)
                if si is not None:
                    return table[si]
                root, off, var = ptr_parts(x[1])
                if not var and off == 0:
                    # ->name (the first member) of the new command or of a table entry; the sentinel's name is NULL
                    r = strip_casts(root)
                    if r == ("arg", 0):
                        return 5000 + NEW
                    if r[0] == "ld" and slot_index(r[1], env) is not None:
                        lab = table[slot_index(r[1], env)]
                        if lab == 0:
                            raise Violation("an empty (NULL) slot of the table is dereferenced: the scan ran past the sentinel")
                        return 0 if lab == SENT else 5000 + lab
                raise Bail("load %s" % fmt(x)[:40])
            if k_ == "call" and isinstance(x[1], str) and x[1] in ("strcmp", "strcasecmp", "strncmp", "strncasecmp", "strcoll") and len(x[2]) >= 2:
                a, b = order(name_of(x[2][0], env)), order(name_of(x[2][1], env))
                return (1 if a > b else -1 if a < b else 0) & 0xffffffff
            raise Bail("expression %s" % fmt(x)[:40])
        cur, env = fn.entry.name, {}
        for step in range(4 * N + 8):
            cands = []
            for s0, p in segs:
                if s0 != cur:
                    continue
                try:
                    if all(bool(ev(c, env)) == bool(tk) for c, tk, i_ in p.conds):
                        cands.append(p)
                except Bail:
                    raise
            if len(cands) != 1:
                raise Bail("%d segments from %s are enabled" % (len(cands), cur))
            p = cands[0]
            for e in p.events:
                if e.kind == "store":
                    si = slot_index(e.ptr, env) if ptr_parts(e.ptr)[0] == ("g", "cmd_table") else None
                    if si is not None:
                        table[si] = ev(e.val, env)
                elif e.kind in ("memcpy", "memset") and ptr_parts(e.ptr)[0] == ("g", "cmd_table"):
                    if e.kind == "memset":
                        raise Bail("memset on the table")
                    d0, s0_ = slot_index(e.ptr, env) if ev(e.extra, env) else 0, None
                    ln = ev(e.extra, env)
                    if ln % PS:
                        raise Bail("block move of %d bytes" % ln)
                    cnt = ln // PS
                    if cnt:
                        d0 = slot_index(e.ptr, env)
                        s0_ = slot_index(e.val, env)
                        if d0 + cnt > N or s0_ + cnt > N:
                            return ("move", "a block move of %d entries from slot %d to slot %d runs past the table" % (cnt, s0_, d0))
                        is_move = "memmove" in (e.inst.callee or "")
                        if not is_move and abs(d0 - s0_) < cnt:
                            return ("move", "memcpy on overlapping ranges (slots %d.. and %d.., %d entries)" % (s0_, d0, cnt))
                        chunk = table[s0_:s0_ + cnt]
                        table[d0:d0 + cnt] = chunk
            if p.end == "ret":
                want = [1000 + j for j in range(t)] + [NEW] + [1000 + j for j in range(t, k)] + [SENT] + [0] * (N - k - 2)
                rv = ev(p.ret, env) if p.ret is not None else None
                if table != want:
                    lost = [j for j in range(k) if 1000 + j not in table]
                    return ("table", "with %d registered commands and the new one sorting at position %d the table ends up %s" % (
                        k, t, ("without entry %d (it can no longer be found)" % lost[0]) if lost else
                        ("without the new command" if NEW not in table else
                         "without its NULL-named sentinel (every scan runs off the end)" if SENT not in table else "in a different order")))
                if rv not in (0, None):
                    return ("ret", "returns %s after a successful insertion" % rv)
                return None
            if not p.end.startswith("cut:"):
                raise Bail("segment ends at %s" % p.end)
            env2 = dict(env)
            for name, expr in (p.carried or {}).items():
                env2[("sym", name)] = ev(expr, env)
            env = env2
            cur = p.end[4:]
        raise Bail("no return within %d steps" % (4 * N + 8))
    bad = None
    n = 0
    try:
        for k in range(N - 1):
            for t in range(k + 1):
                n += 1
                try:
                    r = run_scenario(k, t)
                except Violation as v:
                    r = ("deref", "with %d registered commands and the new one sorting at position %d: %s" % (k, t, v))
                if r is not None:
                    bad = r
                    break
            if bad:
                break
    except Bail as b:
        chk.unknown("K5.insert-effect", "console_register[%s]" % cfg, "console_register is outside the evaluated fragment: %s" % b, fn.loc)
        return
    chk.ob("K5.insert-effect", "console_register[%s]" % cfg, bad is None,
           "for every fill level 0..%d and every sorting position the table afterwards is the old entries with the new command inserted "
           "in place and the sentinel still last (%d scenarios)" % (N - 2, n) if bad is None else bad[1], fn.loc, fn.name)


def check_k5(chk, m, cfg):
    fn = m.fn("console_register")
    chk.note_fn(fn)
    g = m.globals.get("cmd_table")
    if not g:
        raise AnalysisError("anchor vanished: cmd_table")
    N = g["size"] // m.ptr_size
    last = ("g", "cmd_table"), (N - 1) * m.ptr_size
    # (a) full test dominates every store to the table, failing path stores nothing
    test = None
    for i in fn.real_insts():
        if i.op == "icmp" and i.pred in ("ne", "eq"):
            # (either operand order: `cmd_table[last] != NULL` and `NULL != cmd_table[last]`)
            for a_, b_ in ((i.ops[0], i.ops[1]), (i.ops[1], i.ops[0])):
                ld = a_.inst if a_.k == "inst" else None
                if ld is not None and ld.op == "load" and b_.is_null():
                    try:
                        pp = flow.resolve_ptr(ld.ops[0], m)
                    except AnalysisError:
                        continue
                    if pp.root.k == "global" and pp.root.name == "cmd_table" and pp.off == last[1] and not pp.var:
                        test = i
    stores = [a for a in flow.accesses(fn, m) if a.writes and a.ptr.root.k == "global" and a.ptr.root.name == "cmd_table"]
    if test is None:
        chk.ob("K5.full-test", "console_register[%s]" % cfg, False, "no test of the last table slot before inserting", fn.loc, fn.name)
    else:
        br = [u for u in fn.users(test.value) if u.op == "br"]
        ok = bool(br)
        if ok:
            b = br[0]
            full_succ = b.succs[0] if test.pred == "ne" else b.succs[1]
            free_succ = b.succs[1] if test.pred == "ne" else b.succs[0]
            reach_full = fn.reachable_blocks(fn.blocks[full_succ])
            for s in stores:
                if s.inst.block.name in reach_full and not fn.block_dominates(fn.blocks[free_succ], s.inst.block):
                    ok = False
                if not fn.block_dominates(fn.blocks[free_succ], s.inst.block):
                    ok = False
        chk.ob("K5.full-test", "console_register[%s]" % cfg, ok and bool(stores),
               "every store to cmd_table (%d) happens only after the last slot was found empty; a full table returns without changing anything"
               % len(stores), test.loc, fn.name)
    # (b) NULL test before strcmp in every table scan; (c) exact match
    for name in ("console_register", "find_command"):
        f = m.fn(name)
        chk.note_fn(f)
        segs = paths.enumerate_segments(f, m)
        n = 0
        for start, p in segs:
            for k, e in enumerate(p.events):
                if e.kind == "call" and e.callee in ("strcmp", "strncmp", "strcasecmp", "strncasecmp"):
                    n += 1
                    sid = "%s[%s] %s" % (name, cfg, e.inst.loc)
                    names = [a for a in e.args if a[0] == "ld" and ptr_parts(a[1])[0][0] == "ld"]
                    guarded = False
                    for (c, taken, inst), pos in zip(p.conds, p.cond_pos):
                        if pos > k:
                            continue
                        cc = strip_casts(c)
                        if cc[0] == "icmp" and ("null",) in (cc[2], cc[3]):
                            other = cc[2] if cc[3] == ("null",) else cc[3]
                            nonnull = (cc[1] == "ne") == bool(taken)
                            if nonnull and any(strip_casts(other)[:2] == a[:2] for a in names):
                                guarded = True
                    chk.ob("K5.null-before-compare", sid, guarded,
                           "the entry's name is tested for NULL before it is passed to %s (the scan must stop at the NULL-named sentinel)" % e.callee,
                           e.inst.loc, name)
                    if name == "find_command":
                        exact = e.callee == "strcmp"
                        eq0 = False
                        for c, taken, inst in p.conds:
                            cc = strip_casts(c)
                            if cc[0] == "icmp" and cc[1] in ("eq", "ne") and e.res in (cc[2], cc[3]) and ("c", 32, 0) in (cc[2], cc[3]):
                                eq0 = True
                        chk.ob("K5.exact-match", sid, exact and eq0,
                               "commands are found by %s(...) == 0 (exact name, not a prefix or case-insensitive match)" % e.callee,
                               e.inst.loc, name)
        chk.expect("K5", "string comparisons in %s [%s]" % (name, cfg), n, 1)


def effect_sets(m, L):
    """Per defined function: subset of {T tokenise (writes argc/argv), F find (writes cmd), D dispatch (indirect call through
    cmd->fn), P prompt reset (clears scratch and resets bufp), G getch} - transitively through module-internal callees."""
    prog = flow.Program([m])
    direct = {}
    for f in m.defined_functions():
        eff = set()
        for a in flow.accesses(f, m):
            if a.struct in ("console", "console_t") and a.writes and a.field:
                if a.field.startswith("argv") or a.field == "argc":
                    eff.add("T")
                if a.field == "cmd":
                    eff.add("F")
                if a.kind == "memset" and a.field.startswith("scratch"):
                    eff.add("P")
        for c in f.calls():
            if c.callee is None:
                ld = c.callee_val.inst
                if ld is not None and ld.op == "load":
                    try:
                        pp = flow.resolve_ptr(ld.ops[0], m)
                    except AnalysisError:
                        continue
                    r = pp.root.inst
                    if r is not None and r.op == "load":
                        try:
                            p2 = flow.resolve_ptr(r.ops[0], m)
                            if p2.off == L["cmd"][0]:
                                eff.add("D")
                        except AnalysisError:
                            pass
            elif c.callee in ("console_getch", "ringbuf_get"):
                eff.add("G")
        direct[f.name] = eff
    out = {}
    for f in m.defined_functions():
        e = set()
        for g in prog.closure(f):
            e |= direct.get(g.name, set())
        out[f.name] = e
    return out, direct


def check_k5_order(chk, m, cfg):
    """K5.order-agreement: a lookup that stops early because the table is sorted relies on the order registration keeps.  If
    find_command leaves its scan on a sign test of a comparison (rather than only on equality / the end marker), then
    console_register must choose its insertion point with that same comparison function: sorted by strcasecmp and searched
    by strcmp, a name whose two positions differ ('LED' among lower-case names) is registered but never found."""
    CMP = ("strcmp", "strcasecmp", "strncmp", "strncasecmp", "strcoll")
    ff, fr = m.fn("find_command"), m.fn("console_register")
    early = set()
    for s_, p in paths.enumerate_segments(ff, m):
        for c, taken, inst in p.conds:
            cc = strip_casts(c)
            if cc[0] == "icmp" and cc[1] in ("slt", "sle", "sgt", "sge") and cc[3][0] == "c":
                x = strip_casts(cc[2])
                if x[0] == "call" and x[1] in CMP:
                    early.add(x[1])
    used = set()
    for s_, p in paths.enumerate_segments(fr, m):
        for e in p.events:
            if e.kind == "call" and e.callee in CMP:
                used.add(e.callee)
    if not early:
        chk.ob("K5.order-agreement", "find_command[%s]" % cfg, True,
               "find_command leaves its scan only on equality or at the end marker: it does not depend on the table's order", ff.loc, ff.name)
        return
    ok = used == early and len(early) == 1
    chk.ob("K5.order-agreement", "find_command[%s]" % cfg, ok,
           "find_command stops early on the sign of %s and console_register orders the table with the same function" % ", ".join(sorted(early)) if ok else
           "find_command stops early on the sign of %s but console_register orders the table with %s: a name whose positions under the two "
           "orders differ is registered and never found" % (", ".join(sorted(early)), ", ".join(sorted(used)) or "no comparison"), ff.loc, ff.name)

# glibc's character-class table for the C locale (the bits of <ctype.h> on a little-endian target), so that a branch condition that
# classifies the fetched character (isprint, isspace, ... - macro-expanded to a table load, or called) can be evaluated per character
_CT = {"isupper": 256, "islower": 512, "isalpha": 1024, "isdigit": 2048, "isxdigit": 4096, "isspace": 8192, "isprint": 16384,
       "isgraph": 32768, "isblank": 1, "iscntrl": 2, "ispunct": 4, "isalnum": 8}


def ctype_c_locale(v):
    v &= 0xffffffff
    if v >= 128:
        return 0
    ch = chr(v)
    up, lo, dg = "A" <= ch <= "Z", "a" <= ch <= "z", "0" <= ch <= "9"
    r = 0
    r |= 256 if up else 0
    r |= 512 if lo else 0
    r |= 1024 if up or lo else 0
    r |= 2048 if dg else 0
    r |= 4096 if dg or ch in "abcdefABCDEF" else 0
    r |= 8192 if ch in " \t\n\v\f\r" else 0
    r |= 16384 if 32 <= v <= 126 else 0
    r |= 32768 if 33 <= v <= 126 else 0
    r |= 1 if ch in " \t" else 0
    r |= 2 if v < 32 or v == 127 else 0
    r |= 4 if 33 <= v <= 126 and not (up or lo or dg) else 0
    r |= 8 if up or lo or dg else 0
    return r


def char_cond_value(c, res, v):
    """Truth of a branch condition over the fetched character `res` when the character is v (C locale); NoValue if it is not a
    function of the character alone."""
    def rw(e):
        if not isinstance(e, tuple) or not e:
            return e
        if e == res:
            return ("c", 32, v)
        if e[0] == "ld":
            root, off, var = ptr_parts(e[1])
            r = strip_casts(root)
            if r[0] == "ld" and strip_casts(r[1])[0] == "call" and strip_casts(r[1])[1] == "__ctype_b_loc" and off == 0 \
                    and len(var) == 1 and var[0][1] == 2:
                i = paths.eval_concrete(rw(var[0][0]), {})
                return ("c", 16, ctype_c_locale(i))
        if e[0] == "call" and isinstance(e[1], str) and e[1] in _CT and e[2]:
            i = paths.eval_concrete(rw(e[2][0]), {})
            return ("c", 32, 1 if ctype_c_locale(i) & _CT[e[1]] else 0)
        return tuple(rw(x) if isinstance(x, tuple) else ([rw(y) for y in x] if isinstance(x, list) else x) for x in e)
    return bool(paths.eval_concrete(rw(c), {}))


ORDINARY = [9] + list(range(32, 127))      # tab, space, printable characters (quotes included): everything that is not an editing key


def check_k6_k7(chk, m, cfg):
    fn = m.fn("console_run")
    L, _, _, _ = layout(m)
    eff, direct = effect_sets(m, L)
    segs = paths.enumerate_segments(fn, m)
    n = 0
    for start, p in segs:
        seq = []        # (effects, description)
        for e in p.events:
            if e.kind != "call":
                continue
            if isinstance(e.callee, str):
                es = eff.get(e.callee, set()) if m.has_fn(e.callee) else ({"G"} if e.callee in ("console_getch", "ringbuf_get") else set())
                if es & {"T", "F", "D", "P", "G"}:
                    seq.append((es & {"T", "F", "D", "P", "G"}, e.callee))
            else:
                seq.append(({"D"}, "<cmd->fn>"))
        disp = [k for k, (es, nm) in enumerate(seq) if "D" in es]
        if not disp:
            continue
        n += 1
        k0 = disp[0]
        sid = "console_run[%s] %s..%s" % (cfg, start.lstrip("%"), p.end)
        before = set().union(*[es for es, nm in seq[:k0]]) if k0 else set()
        fresh = "G" in before                     # a character was fetched in this segment: a line has just been completed
        at = seq[k0][0]
        shown = [nm for es, nm in seq]
        if fresh:
            # tokenise -> find -> dispatch, each once, in this order
            flat = []
            for es, nm in seq[:k0 + 1]:
                for x in ("T", "F", "D"):
                    if x in es:
                        flat.append(x)
            ok = flat == ["T", "F", "D"]
            chk.ob("K6.dispatch-order", sid, ok, "a completed line is tokenised, looked up and dispatched in that order, once each; observed %s"
                   % shown, p.ret_inst.loc, fn.name)
        else:
            ok = not (before & {"T", "F"}) and not (at & {"T", "F"})
            chk.ob("K6.once-per-line", sid, ok,
                   "resuming a command that yielded goes straight to cmd->fn%s; observed %s" %
                   ("" if ok else ": here the line is tokenised / looked up AGAIN on every resumption - the buffer was already split "
                    "by NULs, so argc collapses to 1, and a command that uses the scratch area is re-dispatched as a different command",
                    shown), p.ret_inst.loc, fn.name)
        if p.end.startswith("cut"):
            after = [es for es, nm in seq[k0 + 1:]]
            okp = sum(1 for es in after if "P" in es) == 1
            chk.ob("K6.prompt-after-command", sid, okp, "after the command finishes the prompt is reset exactly once", p.ret_inst.loc, fn.name)
    chk.expect("K6", "dispatch segments [%s]" % cfg, n, 2)
    # every character taken out of the ring reaches the line editor: on a segment where a fetch is known to have produced a character
    # (its result tested against -1), that character is compared with an editing character or stored into the line.  A fetch whose
    # result is only tested against -1 and then dropped (a drain loop) loses input the user has typed
    n_taken = 0
    n_quiet = 0
    for start, p in segs:
        for k, e in enumerate(p.events):
            if e.kind != "call" or e.callee not in ("console_getch", "ringbuf_get") or e.res is None:
                continue
            res = e.res
            got = None
            used = False
            for c, taken, inst in p.conds:
                cc = strip_casts(c)
                if not paths.contains(cc, lambda x: x == res):
                    continue
                if inst is not None and inst.op == "switch":
                    used = True
                    if got is None and taken != "default" and taken != 0xffffffff:
                        got = True
                    continue
                if cc[0] == "icmp" and cc[1] in ("eq", "ne") and strip_casts(cc[2]) == res and cc[3][0] == "c" and cc[3][2] == (1 << cc[3][1]) - 1:
                    got = (cc[1] == "ne") == bool(taken)
                elif cc[0] == "icmp" and cc[1] in ("sge", "sgt") and strip_casts(cc[2]) == res and cc[3][0] == "c" and cc[3][2] in (0, (1 << cc[3][1]) - 1):
                    got = bool(taken)
                elif cc[0] == "icmp" and cc[1] in ("slt", "sle") and strip_casts(cc[2]) == res and cc[3][0] == "c" and cc[3][2] in (0, (1 << cc[3][1]) - 1):
                    got = not taken
                else:
                    used = True
            if got is None and any(paths.contains(c, lambda x: x[0] == "call" and x[1] in ("ringbuf_empty",)) for c, t_, i_ in p.conds):
                got = True      # fetched only after the ring was asked whether it holds anything
            if not got:
                continue
            for e2 in p.events[k + 1:]:
                if e2.kind == "store" and e2.val is not None and paths.contains(e2.val, lambda x: x == res):
                    used = True
                if e2.kind == "call" and any(isinstance(a, tuple) and paths.contains(a, lambda x: x == res) for a in (e2.args or ())):
                    used = True
            carried = getattr(p, "carried", None) or {}
            if any(paths.contains(v, lambda x: x == res) for v in carried.values()):
                used = True        # kept in a variable for the next stretch of the loop
            n_taken += 1
            # ... and an ordinary character (tab, space, printable) is never taken and silently dropped: on a segment that, after
            # the fetch, stores the character nowhere, does not move the cursor and calls nothing but character-class tests, the
            # conditions on the character must exclude every ordinary character of the property's alphabet
            ca_ = carg(fn)
            quiet = used and not any(paths.contains(v, lambda x: x == res) for v in carried.values())
            for e2 in p.events[k + 1:]:
                if e2.kind == "store":
                    if e2.val is not None and paths.contains(e2.val, lambda x: x == res):
                        quiet = False
                    if e2.ptr is not None:
                        r_, o_, v_ = ptr_parts(e2.ptr)
                        if r_ == ("arg", ca_) and not v_ and o_ == L["bufp"][0]:
                            quiet = False
                elif e2.kind == "call":
                    if not (isinstance(e2.callee, str) and (e2.callee in _CT or e2.callee == "__ctype_b_loc")):
                        quiet = False
            if quiet:
                n_quiet += 1
                cs = [(c, t) for c, t, i_ in p.conds if (i_ is None or i_.op != "switch") and paths.contains(c, lambda x: x == res)]
                sw = [1 for c, t, i_ in p.conds if i_ is not None and i_.op == "switch" and paths.contains(c, lambda x: x == res)]
                sid_ = "console_run[%s] %s..%s %s" % (cfg, start.lstrip("%"), p.end, e.inst.loc)
                dropped, bad_c = [], None
                if sw:
                    bad_c = "a switch over the character"
                else:
                    for v in ORDINARY:
                        try:
                            if all(char_cond_value(c, res, v) == bool(t) for c, t in cs):
                                dropped.append(v)
                        except paths.NoValue as ex:
                            bad_c = "a condition on the character that is not a function of the character alone"
                            break
                if bad_c:
                    chk.unknown("K6.char-stored", sid_, "segment that drops the character is guarded by " + bad_c, e.inst.loc)
                else:
                    chk.ob("K6.char-stored", sid_, not dropped,
                           "the only way to take a character and neither store it, edit the line nor dispatch is closed to every ordinary "
                           "character (tab, space, printable): the segment's conditions on the character admit none of them" if not dropped else
                           "the character fetched at %s is dropped without any effect on the line when it is %s: the line the command "
                           "is computed from is then not the line that was typed (white space lost between tokens or inside quotes)"
                           % (e.inst.loc, ", ".join(repr(chr(v)) for v in dropped[:6]) + (" ..." if len(dropped) > 6 else "")),
                           e.inst.loc, fn.name)
            chk.ob("K6.char-consumed", "console_run[%s] %s..%s %s" % (cfg, start.lstrip("%"), p.end, e.inst.loc), used,
                   "the character fetched here is handed to the line editor (compared with an editing character, stored, passed on)" if used else
                   "the character fetched at %s is known to be a character (not -1) and is then dropped: whatever the user had typed "
                   "ahead is thrown away and never reaches a command line" % e.inst.loc, e.inst.loc, fn.name)
    chk.expect("K6", "segments of console_run that take a character out of the ring [%s]" % cfg, n_taken, 1)
    # (K6.char-stored: none is feasible on the unchanged tree, so the count is recorded, not required; selftest/mutants/C15.json
    # keeps positive examples that must fire on every self-test run)
    chk.expect("K6.char-stored", "feasible segments that take a character and leave the line alone, each decided per ordinary "
               "character [%s]" % cfg, n_quiet, 0)
    # K7
    for name, first, then in (("console_putchar", "ringbuf_put", "fibre_run_atomic"), ("console_process", "ringbuf_put", "console_run")):
        f = m.fn(name)
        chk.note_fn(f)
        for p in paths.enumerate_paths(f, m, loop_bound=1):
            names = [e.callee for e in p.events if e.kind == "call" and isinstance(e.callee, str)]
            if then not in names:
                if cfg == "nofibre" and then == "fibre_run_atomic":
                    chk.ob("K7.delivery", "%s[%s]" % (name, cfg), first in names, "%s feeds the ring" % name, f.loc, name)
                continue
            ok = first in names and names.index(first) < names.index(then)
            chk.ob("K7.delivery", "%s[%s]" % (name, cfg), ok, "%s: %s precedes %s" % (name, first, then), f.loc, name)
    # console_process runs the console until it WAITS for more input: a command that yields is resumed until it has finished
    # (nothing else will resume it on this route).  Every way out of the run loop is decided by console_run's own result and
    # cannot be taken while that result is PT_YIELDED.
    fp = m.fn("console_process")
    try:
        wy = build.compile_text("c15_yield.c", "#include <librfn/protothreads.h>\nint w_y(void) { return PT_YIELDED; }\n")
        YIELDED = paths.enumerate_paths(wy.fn("w_y"), wy)[0].ret[2]
    except Exception:
        YIELDED = None
    if YIELDED is not None:
        psegs = [(s0, q) for s0, q in paths.enumerate_segments(fp, m) if q.end != "unreachable"]
        for s0, q in psegs:
            if q.end != "ret":
                continue
            runs = [e for e in q.events if e.kind == "call" and e.callee == "console_run"]
            if not runs:
                # a return that no console_run precedes on this segment: fine only if none can precede it at all
                if s0 == fp.entry.name:
                    continue
            decided = None
            for c_, t_, i_ in q.conds:
                for r_ in runs:
                    if paths.contains(c_, lambda x: x == r_.res):
                        try:
                            bits = 32
                            env = {r_.res: YIELDED}
                            decided = paths.cond_holds((c_, t_, i_), env)      # can this exit be taken while the result is YIELDED?
                        except paths.NoValue:
                            decided = None
            chk.ob("K7.process-runs-to-wait", "console_process[%s] %s..ret" % (cfg, s0.lstrip("%")), decided is False,
                   "console_process leaves its run loop only on a result of console_run other than PT_YIELDED" if decided is False else
                   "console_process can return while console_run's last result is PT_YIELDED (the exit is decided by %s): a command "
                   "that yields is left half-run until another character arrives - or for ever, at the end of the input" %
                   ("something other than that result" if decided is None else "a test that PT_YIELDED passes"), q.ret_inst.loc, fp.name)
    fe = m.fn("console_eval")
    chk.note_fn(fe)
    allowed = {"ringbuf_put", "fibre_run", "__assert_fail"}
    bad = set(c.callee for c in fe.calls() if c.callee and not c.callee.startswith("llvm.") and c.callee not in allowed)
    chk.ob("K7.delivery", "console_eval[%s]" % cfg, not bad,
           "console_eval only feeds the ring and wakes the console fibre (other calls: %s)" % sorted(bad), fe.loc, fe.name)
    # the injection index moves past a character only on a segment where the ring accepted exactly that character
    from . import fib as _fib
    L, _, _, _ = layout(m)
    if "eval_index" not in L:
        chk.unknown("K7.eval-advance", "console_eval[%s]" % cfg, "no eval_index field: the injection index is not modelled")
        return
    ca = carg(fe)
    idx_ptr = paths.mkptr(("arg", ca), L["eval_index"][0])
    # "the injection completes": the index walks the whole injected string, not one line of it, so it has to be able to count past
    # any script a caller may inject.  The documented member is 16 bits (scripts below 64 KiB); an 8-bit index wraps at the 256th
    # character, the walk starts again at the beginning and never reaches the terminating NUL - the first 256 characters are
    # executed for ever
    width = L["eval_index"][1] * 8
    chk.ob("K7.eval-index-width", "console_eval[%s]" % cfg, width >= 16,
           "the injection index is %d bits wide: scripts of up to %d characters complete" % (width, (1 << width) - 1) if width >= 16 else
           "the injection index is only %d bits wide but indexes the whole injected string (several lines): at the %dth character it "
           "wraps to 0, console_eval never sees the terminating NUL and re-executes the beginning of the script for ever"
           % (width, 1 << width), fe.loc, fe.name)
    n_adv = 0
    for s0, p in paths.enumerate_segments(fe, m):
        for k, e in enumerate(p.events):
            if e.kind != "store" or e.ptr != idx_ptr:
                continue
            v = strip_casts(e.val)
            if v[0] == "c" and v[2] == 0:
                continue                                    # *i = 0 at the start
            sid = "console_eval[%s] %s..%s" % (cfg, s0.lstrip("%"), p.end)
            if not (v[0] == "b" and v[1] == "add" and v[4][0] == "c" and v[4][2] == 1 and strip_casts(v[3])[0] == "ld"
                    and strip_casts(v[3])[1] == idx_ptr):
                chk.unknown("K7.eval-advance", sid, "the injection index is assigned %s" % fmt(e.val)[:60], e.inst.loc)
                continue
            n_adv += 1
            old = strip_casts(v[3])
            prev = max([j for j, x in enumerate(p.events[:k]) if x.kind == "store" and x.ptr == idx_ptr], default=-1)
            accepted = []
            for j, c, truth in _fib.cond_truth_of_call(p, "ringbuf_put"):
                if prev < j < k and truth is True and len(c.args) > 1:
                    # the character offered is cmd[old index]
                    ch = strip_casts(c.args[1])
                    if ch[0] == "ld" and any(strip_casts(ve)[0] == "ld" and strip_casts(ve)[1] == idx_ptr for ve, sc in ptr_parts(ch[1])[2]):
                        accepted.append(j)
            chk.ob("K7.eval-advance", sid, len(accepted) == 1,
                   "the index moves to the next character only after ringbuf_put accepted the current one on this segment" if len(accepted) == 1
                   else "the index is advanced although no ringbuf_put of the current character is known to have succeeded on this "
                        "segment (%d accepted): a character the ring refused is dropped and a different line is executed" % len(accepted),
                   e.inst.loc, fe.name)
    chk.expect("K7", "index advances in console_eval [%s]" % cfg, n_adv, 1)


SPACES = (32, 9, 10, 11, 12, 13)
QUOTES = (39, 34)
ISSPACE_BIT = 8192      # glibc _ISspace in the __ctype_b_loc() table


class _Dont(Exception):
    pass


def spec_step(st, c, nargv):
    """Reference tokeniser, one character.  st = (mode, q, argc); returns (output, new state) or None where the property
    does not determine the behaviour (that branch is not explored).
    modes: W in an unquoted word, G in a gap, O just after an opening quote, Q inside a quoted argument, C just after a
    closing quote."""
    mode, q, argc = st
    sp, qu = c in SPACES, c in QUOTES

    def tok(next_mode):
        return ("TOK", (next_mode, q, argc + 1))
    if mode == "W":
        if sp:
            return ("NUL", ("G", 0, argc))
        if qu:
            return None                     # quote character inside an unquoted word
        return ("NONE", st)
    if mode == "G":
        if sp:
            return ("NUL", st)
        if qu:
            return ("NUL", ("O", c, argc))
        return tok("W")
    if mode == "O":
        if qu:
            return None                     # empty quoted argument / other quote directly after the opening quote
        return tok("Q")
    if mode == "Q":
        if c == q:
            return ("NUL", ("C", 0, argc))
        return ("NONE", st)                 # white space and the other quote character are literal inside quotes
    if mode == "C":
        if sp:
            return ("NUL", ("G", 0, argc))
        if qu:
            return None                     # a quote glued to a closing quote
        # unquoted text glued to a closing quote: the quote has been replaced by the terminator of the quoted argument, so this
        # character can belong to no earlier argument - it is unquoted, non-blank text of the line and must start one (dropping it
        # would make the arguments something other than "computed from the line")
        return tok("W")
    raise AssertionError(mode)


def check_argv_complete(chk, m, cfg, L):
    """K3.argv-complete: "at most four arguments that are NUL-terminated strings inside the line buffer" - a command may read
    any argv[k]: the tokeniser leaves EVERY element pointing into the line buffer, the ones beyond argc included.  Accepted: a
    padding loop (index carried from argc, +1 per round, leaves at lengthof(argv), each round stores an address inside the
    scratch buffer into argv[index]), or stores to every constant index 1..N-1 before the tokenising loop is entered."""
    fn = m.fn("do_tokenize")
    ca = carg(fn)
    buf_off, buf_sz = L["scratch.buf"]
    argv_off, argv_sz = L["argv"]
    argc_off = L["argc"][0]
    N = argv_sz // m.ptr_size
    segs = [(s0, p) for s0, p in paths.enumerate_segments(fn, m, call_effects={"strlen": [], "__ctype_b_loc": [], "isspace": []})
            if p.end != "unreachable"]

    def in_buf(v):
        if isinstance(v, tuple) and v and v[0] == "sym":
            # a value computed before the loop (buf + strlen(buf)): resolve it in the IR
            d = fn.defs.get(v[1])
            try:
                pp = flow.resolve_ptr(d.value, m) if d is not None else None
            except Exception:
                pp = None
            return pp is not None and pp.root.k == "arg" and pp.root.name == fn.args[ca].name and buf_off <= pp.off <= buf_off + buf_sz
        r, o, var = ptr_parts(v) if isinstance(v, tuple) and v and v[0] in ("p", "arg") else ((None,), 0, ())
        return r == ("arg", ca) and buf_off <= o <= buf_off + buf_sz
    # (a) constant-index stores made before the first loop head
    pre = set()
    for s0, p in segs:
        if s0 != fn.entry.name:
            continue
        here = set()
        for e in p.events:
            if e.kind == "store":
                r, o, var = ptr_parts(e.ptr)
                if r == ("arg", ca) and not var and argv_off <= o < argv_off + argv_sz and in_buf(e.val):
                    here.add((o - argv_off) // m.ptr_size)
        pre = here if not pre else (pre & here)
    # (b) a padding loop
    pad = False
    for s0, p in segs:
        if p.end != "cut:" + s0:
            continue
        for e in p.events:
            if e.kind != "store":
                continue
            r, o, var = ptr_parts(e.ptr)
            if r == ("arg", ca) and o == argv_off and len(var) == 1 and var[0][1] == m.ptr_size and strip_casts(var[0][0])[0] == "sym" and in_buf(e.val):
                iv = strip_casts(var[0][0])
                step = strip_casts((getattr(p, "carried", None) or {}).get(iv[1], ("?",)))
                stepped = step[0] == "b" and step[1] == "add" and strip_casts(step[3]) == iv and step[4][0] == "c" and step[4][2] == 1
                bound = any(strip_casts(c)[0] == "icmp" and strip_casts(c)[1] in ("ult", "slt") and strip_casts(strip_casts(c)[2]) == iv and
                            strip_casts(c)[3][0] == "c" and strip_casts(c)[3][2] == N and t for c, t, i in p.conds)
                arrivals = [q for s1, q in segs if q.end == "cut:" + s0 and s1 != s0]
                def is_argc(q):
                    v = (getattr(q, "carried", None) or {}).get(iv[1], ("?",))
                    if paths.contains(v, lambda x: x[0] == "ld" and ptr_parts(x[1]) == (("arg", ca), argc_off, ())):
                        return True
                    # a local count that this arrival has just stored into argc
                    return any(e2.kind == "store" and ptr_parts(e2.ptr) == (("arg", ca), argc_off, ()) and
                               strip_casts(e2.val) == strip_casts(v) for e2 in q.events)
                from_argc = bool(arrivals) and all(is_argc(q) for q in arrivals)
                exits = [q for s1, q in segs if s1 == s0 and q.end == "ret"]
                if stepped and bound and from_argc and exits:
                    pad = True
                # ... or every element from 1 on is pre-set by a counted loop that runs before anything is tokenised (it is the
                # first loop the function enters)
                first = bool(arrivals) and all(s1 == fn.entry.name for s1, q in segs if q.end == "cut:" + s0 and s1 != s0)
                from_one = bool(arrivals) and all(strip_casts((getattr(q, "carried", None) or {}).get(iv[1], ("?",)))[0] == "c" and
                                                  strip_casts(q.carried[iv[1]])[2] <= 1 for q in arrivals)
                if stepped and bound and first and from_one:
                    pad = True
    ok = pad or set(range(1, N)) <= pre
    chk.ob("K3.argv-complete", "do_tokenize[%s]" % cfg, ok,
           "every element of argv is left pointing into the line buffer (%s)" % ("padding loop from argc to lengthof(argv)" if pad else
                                                                                  "all of argv[1..%d] set before tokenising" % (N - 1)) if ok else
           "the tokeniser does not set the elements of argv beyond argc (no padding loop from argc to %d, and only %s set beforehand): a "
           "command that reads an argument the line did not supply gets a stale or NULL pointer instead of an empty string" % (N, sorted(pre)),
           fn.loc, fn.name)


def check_k8(chk, m, cfg, L):
    """Tokeniser as a finite transducer: the loop body of do_tokenize is evaluated over character classes (one
    representative per class; the classes are closed under every test the code applies to a character) and walked in
    lock-step with the reference transducer from every reachable pair of states."""
    fn = m.fn("do_tokenize")
    ca = carg(fn)
    buf_off = L["scratch.buf"][0]
    argc_ptr = paths.mkptr(("arg", ca), L["argc"][0])
    argv_off, argv_sz = L["argv"]
    N = argv_sz // m.ptr_size
    segs = [(s0, p) for s0, p in paths.enumerate_segments(fn, m, call_effects={"strlen": [], "__ctype_b_loc": [], "isspace": []})
            if p.end != "unreachable"]
    entry = [p for s0, p in segs if s0 == fn.entry.name]
    if len(entry) != 1 or not entry[0].end.startswith("cut:"):
        chk.unknown("K8.tokeniser", "do_tokenize[%s]" % cfg, "the tokeniser does not start with one straight-line prologue and a loop", fn.loc)
        return
    H = entry[0].end[4:]
    body = [p for s0, p in segs if s0 == H]
    loc = fn.loc

    def unknown(why, l=None):
        chk.unknown("K8.tokeniser", "do_tokenize[%s]" % cfg, why, l or loc)

    # --- classify the atoms used by the loop body --------------------------------------------------------------
    def pos_kind(ptr):
        """('cur'|'prev', loop variable) if ptr addresses the character at the walk position / the one before it, for an index
        walk (buf[i], buf[i-1]) or a pointer walk (*p, p[-1]); None for other addresses; _Dont for other line subscripts"""
        root, off, var = ptr_parts(ptr)
        if root == ("arg", ca) and off == buf_off and len(var) == 1 and var[0][1] == 1:
            x = strip_casts(var[0][0])
            if x[0] == "sym":
                return ("cur", x[1])
            if x[0] == "b" and x[1] == "sub" and strip_casts(x[3])[0] == "sym" and x[4][0] == "c" and x[4][2] == 1:
                return ("prev", strip_casts(x[3])[1])
            raise _Dont("the tokeniser reads the line at subscript %s (only [i] and [i-1] are modelled)" % fmt(x))
        if root[0] == "sym" and not var and root[1] in ptr_walkers:
            if off == 0:
                return ("cur", root[1])
            if off == -1:
                return ("prev", root[1])
            raise _Dont("the tokeniser reads the line at p%+d (only *p and p[-1] are modelled)" % off)
        return None

    def char_atom(e):
        if e[0] != "ld" or e[2] != 1:
            return None
        return pos_kind(e[1])

    def is_ctype_entry(e):
        if e[0] != "ld":
            return None
        root, off, var = ptr_parts(e[1])
        r = strip_casts(root)
        if r[0] == "ld" and strip_casts(r[1])[0] == "call" and strip_casts(r[1])[1] == "__ctype_b_loc" and off == 0 and len(var) == 1 \
                and var[0][1] == 2:
            return var[0][0]
        return None
    ptr_walkers = set()
    for k, v0 in entry[0].carried.items():
        r0, o0, v_ = ptr_parts(v0) if isinstance(v0, tuple) and v0 and v0[0] in ("p", "arg") else ((None,), 0, ())
        if r0 == ("arg", ca) and buf_off <= o0 < buf_off + L["scratch.buf"][1] and not v_:
            ptr_walkers.add(k)
    ivars = set()
    consts = set()
    try:
        for p in body:
            for c, taken, inst in p.conds:
                for x in paths.subexprs(c):
                    a = char_atom(x)
                    if a:
                        ivars.add(a[1])
                    if getattr(inst, "op", None) == "switch":
                        consts.update(cv & 0xff for cv, b in inst["cases"])
                    if x[0] == "icmp":
                        for u, v in ((x[2], x[3]), (x[3], x[2])):
                            if v[0] == "c" and any(char_atom(y) for y in paths.subexprs(u) if y[0] == "ld"):
                                consts.add(v[2] & 0xff)
                    if is_ctype_entry(x) is not None:
                        pass
                # the table entry may only be tested for the space bit
                for x in paths.subexprs(c):
                    if x[0] == "b" and x[1] != "and" and any(is_ctype_entry(strip_casts(y)) is not None for y in (x[3], x[4])):
                        raise _Dont("character-class table entry used with operator %s" % x[1])
                    if x[0] == "b" and x[1] == "and":
                        for u, v in ((x[3], x[4]), (x[4], x[3])):
                            if is_ctype_entry(strip_casts(u)) is not None and not (v[0] == "c" and v[2] == ISSPACE_BIT):
                                raise _Dont("character-class test other than isspace (mask %s)" % fmt(v))
    except _Dont as d:
        unknown(str(d))
        return
    for p in body:
        for c, taken, inst in p.conds:
            for x in paths.subexprs(c):
                if x[0] == "call" and isinstance(x[1], str) and m.has_fn(x[1]):
                    for i in m.functions[x[1]].real_insts():
                        if i.op in ("icmp", "switch"):
                            for o in i.ops:
                                if o.k == "int" and 0 < o.uval < 256:
                                    consts.add(o.uval)
    if len(ivars) != 1:
        unknown("no single index variable walks the line (found %s)" % sorted(ivars))
        return
    ivar = list(ivars)[0]
    statevars = sorted(k for k in entry[0].carried if k != ivar)
    # character classes: every constant a character is compared with, one more white-space character, one other character
    reps = sorted(c for c in consts if c != 0)
    for extra in [x for x in SPACES if x not in consts][:1] + [x for x in QUOTES if x not in consts] + [x for x in (97, 98, 120) if x not in consts][:1]:
        reps.append(extra)
    generic_reps = set(r for r in reps if r not in consts)
    cmp_state_vars = set()
    for p in body:
        for c, taken, inst in p.conds:
            for x in paths.subexprs(c):
                if x[0] == "icmp":
                    for u, v in ((x[2], x[3]), (x[3], x[2])):
                        su, sv = strip_casts(u), strip_casts(v)
                        if su[0] == "sym" and su[1] in statevars and sv[0] == "ld":
                            cmp_state_vars.add(su[1])
    lensym = None
    for c, taken, inst in body[0].conds[:1]:
        cc = strip_casts(c)
        if cc[0] == "icmp" and cc[1] in ("ult", "slt") and strip_casts(cc[2]) == ("sym", ivar):
            lensym = strip_casts(cc[3])
    if lensym is None:
        unknown("loop condition is not 'i < strlen(line)'")
        return

    # the argument counter: the argc field itself, or a loop-carried local that indexes argv
    counter_var = None
    for p in body:
        for e in p.events:
            if e.kind == "store" and e.ptr is not None:
                root, off, var = ptr_parts(e.ptr)
                if root == ("arg", ca) and argv_off <= off < argv_off + argv_sz and len(var) == 1:
                    syms = [x[1] for x in paths.subexprs(var[0][0]) if x[0] == "sym" and x[1] in statevars]
                    if syms and not paths.contains(var[0][0], lambda x: x[0] == "ld" and x[1] == argc_ptr):
                        counter_var = syms[0]
    pure = paths.pure_functions(m)
    pure_paths = {}

    def eval_pure(name, vals):
        """value of a call to a module-local function without memory effects, on concrete arguments"""
        if name not in pure_paths:
            pure_paths[name] = paths.enumerate_paths(m.functions[name], m)
        f = m.functions[name]
        env = {("arg", k): v for k, v in enumerate(vals)}
        hits = []
        for q in pure_paths[name]:
            if all(paths.cond_holds(cd, env) for cd in q.conds):
                hits.append(q)
        if len(hits) != 1 or hits[0].ret is None:
            raise _Dont("helper %s not evaluable on %s" % (name, vals))
        return paths.eval_concrete(hits[0].ret, env)

    def make_env(p, state, c, prev, argc):
        base = {("sym", ivar): 7, lensym: 1000}
        for k, v in zip(statevars, state):
            base[("sym", k)] = v

        class Env(dict):
            def __contains__(self, x):
                if dict.__contains__(self, x):
                    return True
                v = None
                a = char_atom(x)
                if a:
                    v = c if a[0] == "cur" else prev
                elif x[0] == "ld" and x[1] == argc_ptr:
                    v = argc
                elif is_ctype_entry(x) is not None:
                    idx = paths.eval_concrete(is_ctype_entry(x), self) & 0xff
                    v = ISSPACE_BIT if idx in SPACES else 0
                elif x[0] == "call" and x[1] == "isspace":
                    v = 1 if (paths.eval_concrete(x[2][0], self) & 0xff) in SPACES else 0
                elif x[0] == "call" and isinstance(x[1], str) and m.has_fn(x[1]) and x[1] in pure:
                    v = eval_pure(x[1], [paths.eval_concrete(a, self) for a in x[2]])
                if v is None:
                    return False
                self[x] = v
                return True
        return Env(base)

    def impl_step(state, c, prev, argc):
        """-> (output, new state, new prev, new argc, continues)"""
        hits = []
        for p in body:
            if not p.conds or strip_casts(p.conds[0][0])[0] != "icmp":
                raise _Dont("segment without loop condition")
            lc = strip_casts(p.conds[0][0])
            if not (lc[0] == "icmp" and lc[1] in ("ult", "slt") and strip_casts(lc[2]) == ("sym", ivar) and strip_casts(lc[3]) == lensym):
                raise _Dont("loop-body segment does not begin with the loop condition i < len")
            if not p.conds[0][1]:
                continue                    # i >= len: the line is finished
            try:
                env = make_env(p, state, c, prev, argc)
                ok = all(paths.cond_holds(cd, env) for cd in p.conds[1:])
            except paths.NoValue as nv:
                raise _Dont("condition not evaluable over character classes: %s" % fmt(nv.args[0])[:80])
            if ok:
                hits.append((p, env))
        if len(hits) != 1:
            raise _Dont("%d loop-body segments match state %s, character %r" % (len(hits), state, chr(c)))
        p, env = hits[0]
        out, nprev, nargc = "NONE", c, argc
        for e in p.events:
            if e.kind != "store":
                continue
            root, off, var = ptr_parts(e.ptr)
            if e.ptr == argc_ptr:
                nargc = paths.eval_concrete(e.val, env) & 0xffffffff
                continue
            if pos_kind(e.ptr) == ("cur", ivar):
                v = paths.eval_concrete(e.val, env) & 0xff
                if v != 0:
                    raise _Dont("the tokeniser rewrites a character with %d" % v)
                out, nprev = "NUL", 0
                continue
            if root == ("arg", ca) and argv_off <= off < argv_off + argv_sz and len(var) <= 1:
                slot = (off - argv_off) // m.ptr_size + (paths.eval_concrete(var[0][0], env) if var else 0)
                try:
                    tok_here = pos_kind(e.val) == ("cur", ivar)
                except _Dont:
                    tok_here = False
                if not tok_here:
                    return ("TOK?", "argv[%d] = %s" % (slot, fmt(e.val))), None, None, None, False
                if slot != argc:
                    return ("TOK?", "argv[%d] written while argc == %d" % (slot, argc)), None, None, None, False
                out = "TOK"
                continue
            raise _Dont("store to %s in the tokeniser loop is not modelled" % fmt(e.ptr))
        if counter_var is None and out == "TOK" and nargc != argc + 1:
            return ("TOK?", "argc goes from %d to %d at a token start" % (argc, nargc)), None, None, None, False
        if counter_var is None and out != "TOK" and nargc != argc:
            return ("TOK?", "argc changes without a token start"), None, None, None, False
        cont = p.end == "cut:" + H
        nstate = tuple(paths.eval_concrete(p.carried[k], env) & 0xff for k in statevars) if cont else state
        if counter_var is not None and cont:
            nargc = nstate[statevars.index(counter_var)]
            if out == "TOK" and nargc != argc + 1:
                return ("TOK?", "the argument counter goes from %d to %d at a token start" % (argc, nargc)), None, None, None, False
            if out != "TOK" and nargc != argc:
                return ("TOK?", "the argument counter changes without a token start"), None, None, None, False
        return out, nstate, nprev, nargc, cont

    # --- prologue ---------------------------------------------------------------------------------------------
    e0 = entry[0]
    try:
        init_state = tuple(paths.eval_concrete(e0.carried[k], {}) & 0xff for k in statevars)
        if counter_var is not None:
            argc0 = init_state[statevars.index(counter_var)]
        else:
            argc0 = [paths.eval_concrete(e.val, {}) for e in e0.events if e.kind == "store" and e.ptr == argc_ptr][-1]
    except (paths.NoValue, IndexError):
        unknown("prologue does not set argc and the loop state to constants")
        return
    argv0 = [e for e in e0.events if e.kind == "store" and e.ptr == paths.mkptr(("arg", ca), argv_off)]
    chk.ob("K8.argv0", "do_tokenize[%s]" % cfg, bool(argv0) and argv0[-1].val == paths.mkptr(("arg", ca), buf_off) and argc0 == 1,
           "argv[0] is the start of the line and argc starts at 1", e0.events[0].inst.loc if e0.events else loc, fn.name)
    # --- product walk -----------------------------------------------------------------------------------------
    start = ((init_state, 97, argc0), ("W", 0, 1))
    seen = {start: ""}
    work = [start]
    steps = 0
    bad = None
    try:
        while work and bad is None:
            cur = work.pop(0)
            (ist, prev, argc), sst = cur
            for c in reps:
                sp = spec_step(sst, c, N)
                if sp is None:
                    continue
                steps += 1
                out, nstate, nprev, nargc, cont = impl_step(ist, c, prev, argc)
                line = "a" + seen[cur] + chr(c)
                if isinstance(out, tuple):
                    bad = (line, out[1], sp[0])
                    break
                if out != sp[0]:
                    bad = (line, {"NUL": "ends a token here (stores NUL)", "TOK": "starts an argument here", "NONE": "keeps the character as part of the current token"}[out],
                           {"NUL": "the reference ends a token / drops the character", "TOK": "the reference starts an argument", "NONE": "the reference keeps the character as literal text"}[sp[0]])
                    break
                smode, sq, sargc = sp[1]
                if sp[0] == "TOK" and sargc >= N:
                    continue                # argv is full: what happens to the rest of the line is not determined (K3 bounds it)
                if not cont:
                    bad = (line, "stops after this character with argc == %d" % nargc,
                           "the reference goes on: argv has %d entries and the rest of the line still holds arguments" % N)
                    break
                generic = [k for k, v in zip(statevars, nstate) if v in generic_reps and k in cmp_state_vars]
                if generic:
                    raise _Dont("state variable %s holds an arbitrary character and is compared with characters: the class "
                                "abstraction is not exact" % generic[0])
                nxt = ((nstate, nprev, nargc), sp[1])
                if nxt not in seen:
                    seen[nxt] = seen[cur] + chr(c)
                    work.append(nxt)
                    if len(seen) > 5000:
                        raise _Dont("state space of the tokeniser exceeds 5000 product states")
    except _Dont as d:
        unknown(str(d))
        return
    chk.expect("K8", "product states of tokeniser and reference [%s]" % cfg, len(seen), 8)
    if bad:
        chk.ob("K8.tokeniser", "do_tokenize[%s]" % cfg, False,
               "on the line %r the tokeniser %s at its last character; %s" % bad, loc, fn.name)
    else:
        chk.ob("K8.tokeniser", "do_tokenize[%s]" % cfg, True,
               "%d product states, %d steps over character classes %s: every step agrees with the reference transducer"
               % (len(seen), steps, [chr(c) for c in reps]), loc, fn.name)
    # --- padding loop -----------------------------------------------------------------------------------------
    others = sorted(h for h in fn.loops_headers() if h != H)
    for h in others:
        for s0, p in segs:
            if s0 == h and p.end == "cut:" + h:
                for e in p.events:
                    if e.kind == "store" and ptr_parts(e.ptr)[0] == ("arg", ca) and argv_off <= ptr_parts(e.ptr)[1] < argv_off + argv_sz:
                        tgt = ptr_parts(e.val)
                        ok = (tgt[0] == ("arg", ca) and tgt[1] == buf_off and len(tgt[2]) == 1 and strip_casts(tgt[2][0][0]) == lensym) \
                            or strip_casts(e.val) == lensym
                        chk.ob("K8.padding", "do_tokenize[%s]" % cfg, ok, "unused argv entries point at the line's terminating NUL"
                               if ok else "unused argv entries are set to %s, not to the empty string at the end of the line" % fmt(e.val),
                               e.inst.loc, fn.name)


def check_getch_sentinel(chk, m):
    """K9: console_getch / ringbuf_get return an int in which -1 means 'nothing there' and 0..255 is a character.  The test
    for -1 has to be made on that int: once the value has been narrowed to a char, 'nothing' and the character 0xFF are the
    same value (signed char) or 'nothing' can no longer be recognised at all (unsigned char, as on ARM: the wait never
    waits and the console consumes invented 0xFF characters)."""
    n = 0
    for fn in m.defined_functions():
        srcs = {}
        for blk in fn.order:
            for i in blk.insts:
                if i.op == "call" and i.callee in ("console_getch", "ringbuf_get") and i.name:
                    srcs[i.name] = ("full", i)
        if not srcs:
            continue
        changed = True
        while changed:
            changed = False
            for blk in fn.order:
                for i in blk.insts:
                    if i.is_dbg() or not i.name or i.name in srcs:
                        continue
                    ops = [v for v, b in i.incoming] if i.op == "phi" else list(i.ops)
                    st = [srcs[o.name] for o in ops if o.k == "inst" and o.name in srcs]
                    if not st:
                        continue
                    if i.op == "trunc" and int(i.ty[1:]) < 32:
                        srcs[i.name] = ("narrowed", st[0][1])
                        changed = True
                    elif i.op in ("sext", "zext", "phi", "select", "freeze"):
                        srcs[i.name] = ("narrowed" if any(x[0] == "narrowed" for x in st) else "full", st[0][1])
                        changed = True
        for blk in fn.order:
            for i in blk.insts:
                if i.op != "icmp":
                    continue
                a, b = i.ops
                if a.is_const_int():
                    a, b = b, a
                if not (b.is_const_int() and a.k == "inst" and a.name in srcs):
                    continue
                bits = int(b.ty[1:])
                if b.uval & ((1 << bits) - 1) != (1 << bits) - 1:
                    continue
                n += 1
                kind, call = srcs[a.name]
                chk.ob("K9.getch-sentinel", "%s: %s result tested against -1" % (fn.name, call.callee), kind == "full",
                       "the 'nothing there' test is made on the int result" if kind == "full" else
                       "the result is narrowed to a char before it is compared with -1: the character 0xFF is taken for 'nothing there' where "
                       "char is signed, and where char is unsigned (ARM) the comparison is never true - the wait never waits and the console "
                       "consumes 0xFF characters that nobody typed", i.loc, fn.name)
    if n == 0:
        chk.ob("K9.getch-sentinel", "console.c", True, "no getch result is compared with -1 in this tree (emptiness is decided some other way; "
               "K7 and the ring rules cover the delivery)", "librfn/console.c", "console_run")


def run(chk):
    chk.explanation = (
        "Static memory-safety and protocol analysis of console.c over its IR in both CONFIG_NO_FIBRE settings: loop-free "
        "segments of console_run / do_tokenize / console_register (cut at loop heads, protothread resume points included) "
        "are checked for guarded cursor stores, cursor updates, the NUL-suffix invariant the tokeniser's strlen relies on, "
        "an inductive argc invariant with in-bounds argv stores (linear entailment), constant subscripts inside their "
        "declared arrays, command-table discipline, dispatch order and delivery routes. The tokeniser's loop body is "
        "abstracted to a finite transducer over character classes and compared, over all reachable product states, with "
        "the reference transducer (K8); lines the property leaves open (quote inside a word, empty quotes, text glued to a "
        "closing quote, leading white space) are not compared.")
    chk.rule("K1", "every store through bufp is guarded by bufp < buf+K with K+offset <= SCRATCH_SIZE-1; bufp changes only by +1 after such a store, -1 under bufp > buf, or reset to buf")
    chk.rule("K2", "when bufp moves back the vacated byte is zeroed, or a NUL is stored through bufp before every call of the tokeniser")
    chk.rule("K3", "invariant 1 <= argc <= lengthof(argv)-1 at the tokeniser's loop head; every store to argv[] has an index in [0, lengthof(argv)-1]")
    chk.rule("K4", "every constant array subscript (GEP step) in console.c is inside the declared array")
    chk.rule("K5", "console_register: full test guards all table stores; NULL test precedes every strcmp on a table name; find_command matches with strcmp == 0")
    chk.rule("K6", "execute path: do_tokenize -> find_command -> cmd->fn -> do_prompt; do_prompt clears the scratch line and resets bufp; "
             "a character taken from the ring reaches the line editor, and no segment that leaves the line alone admits tab, space or a "
             "printable character (K6.char-stored)")
    chk.rule("K8", "do_tokenize, evaluated per character class, agrees step by step with the reference transducer (split at unquoted white space; "
             "a quoted argument opens after a gap and closes at the SAME quote character; at most lengthof(argv) entries) on every "
             "line whose tokenisation the property determines; argv[0] is the line start; unused entries are empty strings")
    chk.rule("K9", "the 'nothing there' result (-1) of console_getch / ringbuf_get is tested on the int, before any narrowing to char")
    chk.rule("K7", "console_putchar / console_process put into the ring before waking / running the console; console_eval only feeds the ring and wakes the fibre")
    chk.assumptions += [
        "LP64 data model only (no 32-bit sysroot in this image): on ILP32 the scratch union is 80 bytes, not 160",
        "the command table keeps its NULL-named sentinel (data invariant; the shift loop's indices are not decided)",
        "K8 models isspace() as the C-locale set {space,\\t,\\n,\\v,\\f,\\r} (glibc table bit _ISspace or a call of isspace)",
        "K8 leaves undetermined lines uncompared: a quote character inside an unquoted word, an empty quoted argument, text "
        "glued to a closing quote, a line starting with white space or a quote, and everything after argv is full",
    ]
    chk.not_decided += ["which line results from every character stream (editing is decided only as K1/K2 clauses)",
                        "tokenisation of the lines the property leaves open (see assumptions)"]
    for cfg in ("default", "nofibre"):     # (unsigned char etc.: build variants of core.run_check)
        m = build.load_unit(UNIT, cfg)
        chk.note_unit(m)
        L, scr_lo, scr_hi, total = layout(m)
        check_k1_k2(chk, m, cfg, L, scr_lo, scr_hi)
        check_k3(chk, m, cfg, L)
        check_k4(chk, [m], cfg)
        check_k5(chk, m, cfg)
        check_register_effect(chk, m, cfg)
        check_k5_order(chk, m, cfg)
        check_k6_k7(chk, m, cfg)
        check_k8(chk, m, cfg, L)
        check_argv_complete(chk, m, cfg, L)
        if cfg == "default":
            check_getch_sentinel(chk, m)
    # every delivery route goes through the console's ring buffer: its producer/consumer discipline is C05's
    from . import C05
    chk.rule_prefix = "ring."
    chk.rule_filter = lambda r: r.startswith(("R1", "R2", "R3", "R4", "R5"))
    C05.run_config(chk, "default")
    chk.rule_prefix = ""
    chk.rule_filter = None
    # the code under this property is written with the protothread macros: their expansion is validated as in C08
    from . import C08
    chk.rule_prefix = "pt."
    chk.rule_filter = lambda r: r.startswith(("V1", "V2"))
    C08.run_rules(chk, limit=260)
    chk.rule_prefix = ""
    chk.rule_filter = None
