"""Shared recognisers for messageq_t users (C04, C06, C07, C10)."""
from ..ir import AnalysisError
import os

from .. import build, flow, paths
from ..paths import ptr_parts, strip_casts

STRUCT = "messageq_t"
STRUCTS = ("messageq_t", "messageq")      # the typedef name, or the tag if the struct is given one
INIT_FUNCS = {"messageq_init": "initialiser: runs before the queue is shared (memset + field stores)"}
ATOMIC_FIELDS = ("num_free", "sendp", "full_flags")


def field(ptr, fn, m):
    """messageq_t field addressed by a pointer expression (through enclosing structs too)."""
    s, f = paths.field_of(ptr, fn, m)
    if f is None:
        return None
    if s in STRUCTS:
        return f
    # embedded queues: kernel.atomic_runq.full_flags, fibre_eventq_t.eventq.num_free ...
    for pre in ("atomic_runq.", "eventq."):
        if f.startswith(pre):
            return f[len(pre):]
    return None


def acc_field(a):
    """messageq field of a flow.Access (struct-qualified), or None."""
    if a.field is None:
        return None
    if a.struct in STRUCTS:
        return a.field
    for pre in ("atomic_runq.", "eventq."):
        if a.field.startswith(pre):
            return a.field[len(pre):]
    return None


EXPECTED_FIELDS = ("basep", "msg_len", "queue_len", "num_free", "sendp", "full_flags", "receivep")


def check_representation(mods):
    """The rules of C04 / C10 / C07 are stated over messageq_t as the property's anchors describe it (a free counter, a send
    cursor, a word of 'full' flags, a receive cursor).  If the structure no longer has those members the rules have no
    subject: that is 'cannot decide' (exit 2), never a verdict."""
    for m in mods:
        tid = m.di_by_name.get(STRUCT) or m.di_by_name.get("messageq")
        if tid:
            have = set(p for p, o, s_, t in m.di_leaves(tid))
            missing = [f for f in EXPECTED_FIELDS if f not in have]
            if missing:
                raise AnalysisError("anchor vanished: messageq_t.%s (the queue's representation changed: members now %s); the rules "
                                    "stated over the documented representation cannot decide this tree" % (", ".join(missing), ", ".join(sorted(have))))
            # additional members: harmless when nothing depends on them (a statistic); otherwise the protocol keeps state the
            # rules know nothing about (a batch of harvested flags, a cached cursor) and they cannot tell right from wrong
            from .purity import member_influences_protocol
            extra = sorted(have - set(EXPECTED_FIELDS))
            for f in extra:
                if any(member_influences_protocol(mm, STRUCTS, f, EXPECTED_FIELDS) for mm in mods):
                    raise AnalysisError("anchor vanished: messageq_t carries additional state (%s) that its operations' results or writes depend on: the queue's "
                                        "representation changed and the rules stated over the documented members cannot decide this tree" % f)
            return
    raise AnalysisError("anchor vanished: messageq_t has no debug info in the analysed units")


def mq_functions(mods, check=True):
    if check:
        check_representation(mods)
    out = []
    for m in mods:
        comp = composites(m)
        for fn in m.defined_functions():
            if fn.name in comp:
                continue
            acc = [a for a in flow.accesses(fn, m) if acc_field(a) is not None
                   and (a.struct in STRUCTS)]
            if acc:
                out.append((m, fn, acc))
    return out


_COMPOSITES = {}


def composites(m):
    """Functions of the queue's own unit that, as written, touch the descriptor only by calling the queue's other API functions
    (a `pop` = receive + copy + release).  The analysis view has those callees inlined into them, which would make one function
    play two roles; the role rules are applied to the callees themselves, and the composition is examined like any other user of
    the API (C07 R3: slot read before release)."""
    key = (m.unit, m.config, os.environ.get("VERIF_REPO", ""))
    if key in _COMPOSITES:
        return _COMPOSITES[key]
    out = set()
    if m.unit in build.INLINE_PUBLIC_CALLEES and m.unit.endswith("messageq.c"):
        try:
            raw = build.load_unit(m.unit, m.config, inline_except=None)
        except AnalysisError:
            raw = None
        if raw is not None:
            for fn in raw.defined_functions():
                if fn.internal or fn.name in INIT_FUNCS:
                    continue
                acc = [a for a in flow.accesses(fn, raw) if acc_field(a) is not None and a.struct in STRUCTS]
                api_calls = [c for c in fn.calls() if isinstance(c.callee, str) and c.callee.startswith("messageq_") and raw.has_fn(c.callee)]
                # (reading the geometry the initialiser set - msg_len, queue_len, basep - is not a protocol access)
                proto = [a for a in acc if a.writes or acc_field(a) in ATOMIC_FIELDS + ("receivep",)]
                if not proto and api_calls:
                    out.add(fn.name)
    _COMPOSITES[key] = out
    return out


def roles(fn, acc):
    """Set of roles a function plays, by effect on the queue's fields."""
    if fn.name in INIT_FUNCS:
        return {"init"}
    r = set()
    for a in acc:
        f = acc_field(a)
        rm = a.inst.get("rmwop") if a.kind == "rmw" else None
        if f == "num_free" and (rm == "sub" or a.kind == "cmpxchg"):
            r.add("claim")
        if f == "sendp" and a.writes:
            r.add("claim")
        if f == "full_flags" and rm == "or":
            r.add("send")
        if f == "full_flags" and (rm == "and" or (a.writes and rm not in ("or",))):
            r.add("receive")
        if f == "receivep" and a.writes:
            r.add("receive")
    if "claim" not in r:
        for a in acc:
            if acc_field(a) == "num_free" and a.kind == "rmw" and a.inst.get("rmwop") == "add":
                r.add("release")
    # a function that returns the buffer to the pool and (redundantly) clears a flag on the way, without touching the receive
    # cursor, is the release operation - not a second receive
    if "release" in r and "receive" in r and not any(acc_field(a) == "receivep" for a in acc):
        r.discard("receive")
        r.add("release-clears")
    if not r:
        r.add("observer")
    return r
