"""Shared recognisers for messageq_t users (C04, C06, C07, C10)."""
from .. import build, flow, paths
from ..paths import ptr_parts, strip_casts

STRUCT = "messageq_t"
INIT_FUNCS = {"messageq_init": "initialiser: runs before the queue is shared (memset + field stores)"}
ATOMIC_FIELDS = ("num_free", "sendp", "full_flags")


def field(ptr, fn, m):
    """messageq_t field addressed by a pointer expression (through enclosing structs too)."""
    s, f = paths.field_of(ptr, fn, m)
    if f is None:
        return None
    if s == STRUCT:
        return f
    # embedded queues: kernel.atomic_runq.full_flags, fibre_eventq_t.eventq.num_free ...
    for pre in ("atomic_runq.", "eventq."):
        if f.startswith(pre):
            return f[len(pre):]
    return None


def acc_field(a):
    """messageq field of a flow.Access (struct-qualified), or None."""
    if a.field is None:
        return None
    if a.struct == STRUCT:
        return a.field
    for pre in ("atomic_runq.", "eventq."):
        if a.field.startswith(pre):
            return a.field[len(pre):]
    return None


def mq_functions(mods):
    out = []
    for m in mods:
        for fn in m.defined_functions():
            acc = [a for a in flow.accesses(fn, m) if acc_field(a) is not None
                   and (a.struct == STRUCT)]
            if acc:
                out.append((m, fn, acc))
    return out


def roles(fn, acc):
    """Set of roles a function plays, by effect on the queue's fields."""
    if fn.name in INIT_FUNCS:
        return {"init"}
    r = set()
    for a in acc:
        f = acc_field(a)
        rm = a.inst.get("rmwop") if a.kind == "rmw" else None
        if f == "num_free" and (rm == "sub" or a.kind == "cmpxchg"):
            r.add("claim")
        if f == "sendp" and a.writes:
            r.add("claim")
        if f == "full_flags" and rm == "or":
            r.add("send")
        if f == "full_flags" and (rm == "and" or (a.writes and rm not in ("or",))):
            r.add("receive")
        if f == "receivep" and a.writes:
            r.add("receive")
    if "claim" not in r:
        for a in acc:
            if acc_field(a) == "num_free" and a.kind == "rmw" and a.inst.get("rmwop") == "add":
                r.add("release")
    if not r:
        r.add("observer")
    return r
