"""C03 - fibre_scheduler_next returns a wake-up time that never oversleeps: code-shape clauses.

 U1 value set: the returned value is kernel.now, the due time of the timer queue's head, or now + FIBRE_UNBOUNDED_SLEEP
    with the constant from fibre.h below 2^31
 U2 guard set: anything other than `now` is returned only with the atomic queue empty AND the run queue empty;
    now + K additionally only with the timer queue empty
 U3 freshness: those queue tests are made after the dispatch on every path that dispatches
 U4 the POSIX main loop derives its sleep from a cyclic difference (C02 T1 on fibre_posix.c)
"""
from .. import build, flow, paths
from ..ir import AnalysisError
from ..paths import fmt, ptr_parts, strip_casts
from . import fib, C02


NOW_BY_ARG = []        # (argument index, path id, loc): get_next_wakeup returns now because its caller said so


def wakeup_paths(chk, m, K, Kconst):
    del NOW_BY_ARG[:]
    # a kernel member the wake-up decision tests against 0: is it the run queue's length (S12)?
    known = {"current", "state", "now", "runq", "atomic_runq", "timerq", "taint_flags"}
    # only members that the wake-up / fast-path decisions actually test are candidates (a statistics block is not)
    tested = set()
    for fname in ("get_next_wakeup", "fibre_scheduler_next"):
        if m.has_fn(fname):
            for p_ in fib.fn_paths(m, fname)[1]:
                for c_, t_, i_ in p_.conds:
                    for x in paths.subexprs(c_):
                        if x[0] == "ld" and x[1] is not None and K.member_of(x[1]) and K.member_of(x[1])[1] == 0:
                            tested.add(K.member_of(x[1])[0])
    for extra in [k for k in K.members if k not in known and k in tested]:
        if fib.check_counter_tracks_runq(chk, m, K, extra) is True:
            fib.COUNTER_OK[extra] = True
        else:
            fib.COUNTER_OK.pop(extra, None)
    fn, ps = fib.fn_paths(m, "get_next_wakeup")
    chk.note_fn(fn)
    now = ("ld", K.kptr("now"), 4)
    n = 0
    # a parameter of get_next_wakeup stands for what fibre_scheduler_next passes (other callers - a peek API - are not the property's
    # subject): when every call from the scheduler passes kernel.now, the parameter IS kernel.now
    arg_is_now = {}
    if fn.args:
        try:
            _, sps = fib.fn_paths(m, "fibre_scheduler_next")
        except AnalysisError:
            sps = []
        seen = {}
        for sp in sps:
            stored_now = None
            for e in sp.events:
                if e.kind == "store" and e.ptr == K.kptr("now"):
                    stored_now = strip_casts(e.val)
                if e.kind == "call" and e.callee == "get_next_wakeup":
                    for k_, a_ in enumerate(e.args or ()):
                        a_ = strip_casts(a_)
                        if stored_now is not None and a_ == stored_now:
                            a_ = ("ld", K.kptr("now"))      # the value this path has just stored to kernel.now
                        seen.setdefault(k_, set()).add(a_[:2])
        for k_, vs in seen.items():
            if vs == {("ld", K.kptr("now"))}:
                arg_is_now[("arg", k_)] = True

    def _sub(e):
        if isinstance(e, tuple):
            if e in arg_is_now:
                return now + ((0, 0),)
            return tuple(_sub(x) if isinstance(x, tuple) else x for x in e)
        return e
    for p in ps:
        n += 1
        pid = "get_next_wakeup " + "->".join(b.lstrip("%") for b in p.blocks)
        if arg_is_now:
            p.ret = _sub(p.ret)
            p.conds = [(_sub(c), t, i) for c, t, i in p.conds]
        r = strip_casts(p.ret)
        facts = {"atomic": None, "runq": None, "timerq": None}
        for q, (truth, k) in fib.queue_empty_facts(p, K).items():
            facts[q] = truth
        if facts.get("_infeasible"):
            continue            # the same queue found empty and non-empty with nothing in between: no execution takes this path
        is_now = r[0] == "ld" and r[1] == K.kptr("now")
        is_unbounded = r[0] == "b" and r[1] == "add" and strip_casts(r[3])[0] == "ld" and strip_casts(r[3])[1] == K.kptr("now") and r[4][0] == "c"
        is_head = r[0] == "ld" and ptr_parts(r[1])[1] in (K.fibre["duetime"][0] - K.link_off, K.fibre["duetime"][0])
        # a kernel member kept equal to the head's due time (validated by C02 T3.head-cache on every segment that changes the queue)
        head_cache = None
        if not is_now and not is_head and r[0] == "ld" and K.member_of(r[1]) and K.member_of(r[1])[1] == 0 and \
                K.member_of(r[1])[0] not in ("current", "state", "now", "runq", "atomic_runq", "timerq", "taint_flags"):
            _pf, _ff = chk.rule_prefix, chk.rule_filter
            chk.rule_prefix, chk.rule_filter = "C02.", None
            try:
                if fib.check_head_cache(chk, m, K, K.member_of(r[1])[0]) is True:
                    head_cache = K.member_of(r[1])[0]
            finally:
                chk.rule_prefix, chk.rule_filter = _pf, _ff
        if is_now:
            chk.ob("U1.value-set", pid, True, "returns now", p.ret_inst.loc, fn.name)
            # 'now' means "do not sleep": it needs a reason - a queued request, a queued fibre, or a fibre that yielded IN THIS PASS.
            # kernel.state alone is not one: it keeps its value over idle passes and the zero-initialised state reads YIELDED
            yielded = K.enums.get("FIBRE_STATE_YIELDED")
            why = None
            if facts["atomic"] is False:
                why = "the atomic run queue holds a request"
            elif facts["runq"] is False:
                why = "the run queue is not empty"
            else:
                st = cur = None
                argev = None
                for c, taken, inst in p.conds:
                    cc = strip_casts(c)
                    if cc[0] == "icmp" and cc[1] in ("eq", "ne") and cc[3][0] == "c" and cc[3][2] == yielded and \
                            strip_casts(cc[2])[0] == "ld" and strip_casts(cc[2])[1] == K.kptr("state"):
                        st = (cc[1] == "eq") == bool(taken)
                    if cc[0] == "icmp" and cc[1] in ("eq", "ne") and ("null",) in (cc[2], cc[3]):
                        o = strip_casts(cc[2] if cc[3] == ("null",) else cc[3])
                        if o[0] == "ld" and o[1] == K.kptr("current"):
                            cur = (cc[1] == "ne") == bool(taken)
                    args = [x for x in paths.subexprs(c) if x[0] == "arg"]
                    if len(args) == 1 and not [x for x in paths.subexprs(c) if x[0] in ("ld", "call")]:
                        try:
                            t1 = paths.cond_holds((c, taken, inst), {args[0]: 1})
                            t0 = paths.cond_holds((c, taken, inst), {args[0]: 0})
                            if t1 and not t0:
                                argev = args[0][1]
                        except paths.NoValue:
                            pass
                if st and cur:
                    why = "a fibre was dispatched in this pass (kernel.current != NULL) and yielded"
                elif _head_already_due(p, K):
                    why = "the head of the timer queue is already due (its due time is not after now): the next pass expires it"
                elif argev is not None:
                    NOW_BY_ARG.append((argev, pid, p.ret_inst.loc))
                    continue
            if why is None:
                known = {"current", "state", "now", "runq", "atomic_runq", "timerq", "taint_flags"}
                opaque = [x for c, t, i in p.conds for x in paths.subexprs(c)
                          if x[0] == "ld" and x[1] is not None and K.member_of(x[1]) and K.member_of(x[1])[0] not in known]
                if opaque:
                    chk.unknown("U2.now-needs-runnable", pid, "`now` is returned after a test of kernel.%s, state this rule does not interpret"
                                % K.member_of(opaque[0][1])[0], p.ret_inst.loc)
                    continue
            chk.ob("U2.now-needs-runnable", pid, why is not None,
                   "`now` is returned because %s" % why if why else
                   "`now` is returned with no evidence on the path that anything is runnable (no queued request, no queued fibre, no fibre "
                   "that yielded in this pass; kernel.state by itself is stale on an idle pass and reads YIELDED in the zero-initialised "
                   "kernel): the main loop spins instead of sleeping until the earliest due time", p.ret_inst.loc, fn.name)
            continue
        if is_unbounded:
            kval = r[4][2]
            ok = kval == Kconst and kval < (1 << 31)
            chk.ob("U1.value-set", pid, ok, "returns now + %d (FIBRE_UNBOUNDED_SLEEP = %d must be used and stay below 2^31 so that the "
                   "result is cyclically after now)" % (kval, Kconst), p.ret_inst.loc, fn.name)
            need = ("atomic", "runq", "timerq")
        elif head_cache:
            chk.ob("U1.value-set", pid, True, "returns kernel.%s, which is kept equal to the due time of the timer queue's head "
                   "(C02 T3.head-cache)" % head_cache, p.ret_inst.loc, fn.name)
            need = ("atomic", "runq")
            chk.ob("U2.head-exists", pid, facts["timerq"] is False,
                   "the cached due time is used only when the timer queue is known to be non-empty (timerq empty? %s)" % facts["timerq"],
                   p.ret_inst.loc, fn.name)
        elif is_head:
            # the head of the timer queue
            root = ptr_parts(r[1])[0]
            ok = (root[0] == "call" and root[1] == "list_peek" and K.queue_arg(root[2][0]) == "timerq") or \
                 (root[0] == "ld" and root[1] == K.kptr("timerq"))
            chk.ob("U1.value-set", pid, ok, "returns the due time of the timer queue's head (got %s)" % fmt(p.ret)[:70], p.ret_inst.loc, fn.name)
            need = ("atomic", "runq")
            chk.ob("U2.head-exists", pid, facts["timerq"] is False,
                   "the head's due time is read only when the timer queue is known to be non-empty (timerq empty? %s)" % facts["timerq"],
                   p.ret_inst.loc, fn.name)
        else:
            chk.ob("U1.value-set", pid, False, "returned value %s is none of now, head.duetime, now + FIBRE_UNBOUNDED_SLEEP" % fmt(p.ret)[:70],
                   p.ret_inst.loc, fn.name)
            continue
        missing = [q for q in need if facts[q] is not True]
        if missing == ["timerq"] and is_unbounded and _not_after_head(p, r, K):
            # a sleeper exists, but the path has compared the returned time with its due time (both as distances from now) and
            # the returned time is not the later one
            missing = []
        if missing:
            # emptiness decided from kernel state this rule does not interpret (a counter of runnable fibres, a flag)?
            known = {"current", "state", "now", "runq", "atomic_runq", "timerq", "taint_flags"}
            opaque = [x for c, t, i in p.conds for x in paths.subexprs(c)
                      if x[0] == "ld" and x[1] is not None and K.member_of(x[1]) and K.member_of(x[1])[0] not in known]
            if opaque:
                chk.unknown("U2.guard-set", pid, "%s %s not tested through the list / queue API on this path, but the path tests kernel.%s, "
                            "state this rule does not interpret" % (", ".join(missing), "is" if len(missing) == 1 else "are",
                                                                     K.member_of(opaque[0][1])[0]), p.ret_inst.loc)
                continue
        chk.ob("U2.guard-set", pid, not missing,
               "a wake-up time later than now is returned only if %s %s empty%s" %
               (", ".join(need), "are" if len(need) > 1 else "is",
                "" if not missing else "; on this path %s is not known to be empty: a fibre made runnable there (for instance by an "
                "interrupt after the drain) would wait for the timer / for ever" % missing), p.ret_inst.loc, fn.name)
    chk.expect("U1", "paths of get_next_wakeup", n, 3)


def _not_after_head(p, r, K):
    """The path's conditions entail (r - now) <= (head.duetime - now) as signed differences, head being the timer queue's first fibre."""
    def is_now(x):
        x = strip_casts(x)
        return x[0] == "ld" and x[1] == K.kptr("now")

    def dist_of(x):
        x = strip_casts(x)
        if x[0] == "call" and x[1] == "cyclecmp32" and is_now(x[2][1]):
            return strip_casts(x[2][0])
        if x[0] == "b" and x[1] == "sub" and is_now(x[4]):
            return strip_casts(x[3])
        return None

    def is_head(t):
        if t[0] != "ld" or ptr_parts(t[1])[1] not in (K.fibre["duetime"][0] - K.link_off, K.fibre["duetime"][0]):
            return False
        root = ptr_parts(t[1])[0]
        return (root[0] == "call" and root[1] == "list_peek" and K.queue_arg(root[2][0]) == "timerq") or \
               (root[0] == "ld" and root[1] == K.kptr("timerq"))
    for c, taken, inst in p.conds:
        cc = strip_casts(c)
        if cc[0] != "icmp" or cc[1] not in ("slt", "sle", "sgt", "sge"):
            continue
        a, b = dist_of(cc[2]), dist_of(cc[3])
        if a is None or b is None:
            continue
        if a == r and is_head(b):
            swap = False
        elif b == r and is_head(a):
            swap = True
        else:
            continue
        holds = {"slt": lambda x, y: x < y, "sle": lambda x, y: x <= y, "sgt": lambda x, y: x > y, "sge": lambda x, y: x >= y}[cc[1]]
        # the condition must exclude every case in which the returned time (distance x) is later than the head's (distance y)
        if not any((holds(y, x) if swap else holds(x, y)) == bool(taken)
                   for x, y in ((1, 0), (5, -3), (0x7fffffff, -0x80000000), (0, -1), (-1, -2), (0x7fffffff, 0x7ffffffe))):
            return True
    return False


def check_main_loop_clock(chk, mp):
    """U4.fresh-clock: the time the main loop subtracts from the returned wake-up time is sampled AFTER the pass returned;
    with a clock sampled before the pass the loop oversleeps by the time the dispatched fibre ran."""
    if not mp.has_fn("fibre_scheduler_main_loop"):
        chk.unknown("U4.fresh-clock", "fibre_scheduler_main_loop", "anchor vanished")
        return
    fn = mp.functions["fibre_scheduler_main_loop"]
    chk.note_fn(fn)
    n = 0
    for s0, p in paths.enumerate_segments(fn, mp):
        for k, e in enumerate(p.events):
            if e.kind != "call" or e.callee not in ("usleep", "nanosleep", "sleep"):
                continue
            sid = "fibre_scheduler_main_loop %s..%s" % (s0.lstrip("%"), p.end)
            diffs = []
            srcs = [e.args[0]] + [c for c, t, i in p.conds]      # a capped interval is a constant chosen by a test of the difference
            for x in (y for src in srcs for y in paths.subexprs(src)):
                if x[0] == "call" and x[1] == "cyclecmp32" and len(x[2]) == 2:
                    diffs.append((x[2][0], x[2][1]))
                elif x[0] == "b" and x[1] == "sub":
                    diffs.append((x[3], x[4]))
            diffs = list(dict.fromkeys((a, b) for a, b in diffs if paths.contains(a, lambda y: y[0] == "call" and y[1] == "fibre_scheduler_next")))
            if not diffs:
                chk.unknown("U4.fresh-clock", sid, "the sleep interval %s is not derived from a difference with the value returned by "
                            "fibre_scheduler_next" % fmt(e.args[0])[:80], e.inst.loc)
                continue
            n += 1
            for a, b in diffs:
                nxt = [y for y in paths.subexprs(a) if y[0] == "call" and y[1] == "fibre_scheduler_next"][0]
                b0 = strip_casts(b)
                if b0[0] == "call" and b0[1] == "time_now":
                    ok = b0[3] > nxt[3]
                    chk.ob("U4.fresh-clock", sid, ok,
                           "the sleep is (returned wake-up time) - time_now() with the clock read after the pass" if ok else
                           "the sleep is computed against a clock value read BEFORE the pass (the same value that was handed to "
                           "fibre_scheduler_next): the loop oversleeps by however long the dispatched fibre ran", e.inst.loc, fn.name)
                else:
                    chk.unknown("U4.fresh-clock", sid, "subtrahend %s is not a call of time_now()" % fmt(b)[:60], e.inst.loc)
    chk.expect("U4", "sleep computations in fibre_scheduler_main_loop", n, 1)


def _head_already_due(p, K):
    """A condition of the path says cyclecmp32(<a fibre's duetime>, now) <= 0."""
    due_off = K.fibre["duetime"][0]
    for c, taken, inst in p.conds:
        cc = strip_casts(c)
        if cc[0] != "icmp" or cc[3][0] != "c" or cc[3][2] != 0:
            continue
        x = strip_casts(cc[2])
        if not (x[0] == "call" and x[1] == "cyclecmp32" and len(x[2]) == 2):
            continue
        a, b = strip_casts(x[2][0]), strip_casts(x[2][1])
        if not (a[0] == "ld" and ptr_parts(a[1])[1] in (due_off, due_off - K.link_off) and b[0] == "ld" and b[1] == K.kptr("now")):
            continue
        if (cc[1] == "sle" and taken) or (cc[1] == "sgt" and not taken):
            return True
    return False


def run(chk):
    chk.explanation = (
        "Static analysis of the value returned by fibre_scheduler_next over all its paths (with get_next_wakeup's paths): the "
        "value set, the emptiness guards dominating each non-`now` value, their position after the dispatch, and the constant "
        "FIBRE_UNBOUNDED_SLEEP taken from fibre.h through a witness. Interrupt timing inside the function beyond 'the tests are "
        "the last thing done' is NOT decided (C06).")
    chk.rule("U1", "returned value is now | duetime of the head of kernel.timerq | now + FIBRE_UNBOUNDED_SLEEP (< 2^31)")
    chk.rule("U2", "non-now values are guarded by atomic queue empty AND run queue empty; now + K additionally by timer queue empty")
    chk.rule("U3", "on every path of fibre_scheduler_next: returns now when the dispatched fibre yielded, otherwise the value of get_next_wakeup() called after the dispatch")
    chk.rule("U4", "fibre_scheduler_main_loop computes its sleep as a signed cyclic difference against a clock value read after the pass returned")
    chk.assumptions += ["pending due times within 2^31 ticks (so that the timer head is the earliest due time: C02 T4)"]
    m, K = fib.load()
    chk.note_unit(m)
    w = build.compile_text("c03_witness.c", "#include <librfn/fibre.h>\nuint32_t w_k(void) { return FIBRE_UNBOUNDED_SLEEP; }\n")
    r = paths.enumerate_paths(w.fn("w_k"), w)[0].ret
    if r is None or r[0] != "c":
        raise AnalysisError("FIBRE_UNBOUNDED_SLEEP is not a constant")
    wakeup_paths(chk, m, K, r[2])
    fn, ps = fib.fn_paths(m, "fibre_scheduler_next")
    chk.note_fn(fn)
    yielded = K.enums.get("FIBRE_STATE_YIELDED")
    for p in ps:
        pid = "fibre_scheduler_next " + "->".join(b.lstrip("%") for b in p.blocks)
        cs = fib.calls_on(p)
        disp = [k for k, e in cs if not isinstance(e.callee, str)]
        wk = [k for k, e in cs if e.callee == "get_next_wakeup"]
        rr = strip_casts(p.ret)
        if rr[0] == "call" and rr[1] == "get_next_wakeup":
            for ai, wpid, wloc in NOW_BY_ARG:
                # the caller's word is good when it is "the fibre dispatched on this path returned YIELDED" (or false)
                a = strip_casts(rr[2][ai]) if ai < len(rr[2]) else None
                good = a is not None and ((a[0] == "c" and a[2] == 0) or
                                          (a[0] == "icmp" and a[1] == "eq" and a[3][0] == "c" and a[3][2] == yielded and disp and
                                           strip_casts(a[2])[0] == "call" and not isinstance(strip_casts(a[2])[1], str)))
                chk.ob("U2.now-needs-runnable", pid + " / " + wpid, good,
                       "get_next_wakeup is told to return `now` only when the fibre dispatched on this path yielded (argument %d = %s)"
                       % (ai, fmt(a)[:50] if a is not None else "?"), p.ret_inst.loc, fn.name)
            ok = bool(wk) and (not disp or wk[0] > disp[-1]) and wk[0] == max(k for k, e in cs)
            chk.ob("U3.fresh-after-dispatch", pid, ok,
                   "the wake-up time is computed after the dispatch and is the last thing the pass does", p.ret_inst.loc, fn.name)
        elif rr[0] == "ld" and rr[1] == K.kptr("now") or rr == ("arg", 0):
            # must be the 'fibre yielded' early return
            yl = False
            for c, taken, inst in p.conds:
                cc = strip_casts(c)
                if cc[0] == "icmp" and cc[3][0] == "c" and cc[3][2] == yielded and disp:
                    x = strip_casts(cc[2])
                    if (x[0] == "call" and not isinstance(x[1], str)) or (x[0] == "ld" and x[1] == K.kptr("state")):
                        yl = (cc[1] == "eq") == bool(taken)
            chk.ob("U3.fresh-after-dispatch", pid, yl, "`now` is returned directly only because the dispatched fibre yielded (it is runnable)",
                   p.ret_inst.loc, fn.name)
        else:
            chk.ob("U3.fresh-after-dispatch", pid, False, "returns %s: neither now nor get_next_wakeup()" % fmt(p.ret)[:60], p.ret_inst.loc, fn.name)
    # a request accepted by fibre_run_atomic makes its fibre runnable (so the pass returns `now`) only if the drain reads the
    # slot before handing it back (C07 R3)
    from . import C07
    lib = build.load_units(build.library_units(), "default")
    chk.rule_prefix = "C07."
    chk.rule_filter = lambda r: r.startswith("R3")
    C07.check_r3_slots(chk, "default", lib)
    chk.rule_prefix = ""
    chk.rule_filter = None
    # an event accepted by fibre_eventq_send makes its handler runnable only if every send also wakes it (C06 I2); a request that
    # completed before the final check is seen by that check only if the drain is complete (C06 I4)
    from . import C06
    chk.rule_prefix = "C06."
    chk.rule_filter = lambda r: r.startswith(("I2", "I4"))
    C06.check_i2(chk, m, K)
    C06.check_i4(chk, m, K)
    chk.rule_prefix = ""
    chk.rule_filter = None
    # "any interrupt-context run request that completed": two nested requests both complete only if the queue hands each its
    # own slot and keeps both flags (C04's hand-out and flag protocol on the queue the scheduler drains)
    from . import C04
    chk.rule("C04", "the atomic run queue's hand-out and flag protocol (C04 R1-R6) on the default build")
    chk.rule_prefix = "C04."
    chk.rule_filter = lambda r: r.startswith(("R1", "R2", "R3", "R4", "R5", "R6"))
    C04.run_config(chk, "default")
    chk.rule_prefix = ""
    chk.rule_filter = None
    # a pending timeout is served by the first pass at or after its due time only if expiry is a signed cyclic test
    # (C02 T1 on the timer functions of fibre.c, T3 on fibre_timeout / handle_timerq)
    chk.rule_prefix = "C02."
    chk.rule_filter = lambda r: r.startswith(("T1", "T3"))
    C02.check_t1(chk, [(m, ["handle_timerq", "fibre_timeout", "get_next_wakeup", "fibre_scheduler_next"])], K, 1)
    C02.check_t3(chk, m, K)
    chk.rule_prefix = ""
    chk.rule_filter = None
    mp = build.load_unit("librfn/posix/fibre_posix.c")
    chk.note_unit(mp)
    check_main_loop_clock(chk, mp)
    # a request fibre_run_atomic accepted is received only if its slot has a flag bit: the queue's depth must fit the 32-bit
    # flag word (C01 S10 on the static initialiser)
    _pf, _ff = chk.rule_prefix, chk.rule_filter
    chk.rule_prefix, chk.rule_filter = "C01.", None
    fib.check_atomic_queue_geometry(chk, m, K, min_depth=1)
    # the run queue is a chain through the fibres' link members: a write to one from scheduler code cuts the chain (C01 S11)
    fib.check_link_ownership(chk, m, K)
    chk.rule_prefix, chk.rule_filter = _pf, _ff
    chk.rule_prefix = "C02."
    chk.rule_filter = lambda r: r.startswith("T1")
    C02.check_t1(chk, [(mp, [f.name for f in mp.defined_functions()])], K, 1)
    # "the earliest pending due time" is the timer queue's head only if the queue is sorted by cyclic difference (C02 T2, T4)
    chk.rule_filter = lambda r: r.startswith(("T1", "T2", "T4"))
    mu = build.load_unit("librfn/util.c")
    ml = build.load_unit("librfn/list.c")
    C02.check_t1(chk, [(m, ["duetime_cmp"]), (mu, ["cyclecmp32"])], K, 0)
    C02.check_t2(chk, m, mu, K)
    C02.check_t4(chk, ml)
    chk.rule_prefix = ""
    chk.rule_filter = None
    # the run queue and the timer queue are list_t: FIFO / sorted order rest on list.c keeping head, tail and links right (C09)
    from . import C09
    chk.rule_prefix = "list."
    chk.rule_filter = lambda r: r.startswith(("N1", "N2", "N3", "N5", "N6"))
    C09.run_rules(chk)
    chk.rule_prefix = ""
    chk.rule_filter = None
    # "no request pending" is read through messageq_empty: the flag protocol behind it is C04's (R5)
    from . import C04
    chk.rule_prefix = "C04."
    chk.rule_filter = lambda r: r.startswith(("R5", "R3", "R2"))
    C04.run_config(chk, "default")
    chk.rule_prefix = ""
    chk.rule_filter = None
