"""C10 - message queue is a bounded FIFO of fixed buffers for every geometry.

Decided symbolically in (basep, base_len, msg_len), i.e. for every geometry at once:
 G1 initialiser agreement: MESSAGEQ_VAR_INIT (witness TU) and messageq_init give every field the same
    expression over (basep, base_len, msg_len); depth = floor(base_len / msg_len) = initial num_free
 G2 cyclic advance: send side (CAS in claim) and receive side (store of receivep) are both the wrapped
    successor modulo queue_len, in range
 G3 addressing and its inverse: claim/receive return basep + index*msg_len computed without narrowing;
    send recovers (msg - basep) / msg_len without narrowing below the largest possible offset
 G4 one flag bit per slot in a 32-bit word; empty() tests the bit receive() would test
 G5 the library never dereferences a pointer derived from basep (payload and slack untouched)
Not decided: FIFO order over sequential histories.
"""
from .. import build, flow, paths
from ..domains.cyc import IndexModel
from ..ir import AnalysisError
from ..paths import fmt, ptr_parts, strip_casts, subexprs
from . import C04, mq

WITNESS = '''
#include <librfn/messageq.h>
void sink(messageq_t *q);
void w_init(void *B, size_t BL, size_t ML) { messageq_t q = MESSAGEQ_VAR_INIT(B, BL, ML); sink(&q); }
'''

MAX_OFFSET_BITS = 21     # 31 slots * 65535 bytes < 2^21


def rename_args(e, mapping):
    if isinstance(e, tuple):
        if len(e) == 2 and e[0] == "arg":
            return ("arg", mapping.get(e[1], "?%d" % e[1]))
        return tuple(rename_args(x, mapping) for x in e)
    return e


def field_values(p, base_pred, m, tid, zero_from_memset=True):
    """offset -> value expr for stores into the object selected by base_pred along path p."""
    vals = {}
    cleared = None
    for e in p.events:
        if e.kind == "memset" and base_pred(ptr_parts(e.ptr)[0]):
            if e.val[0] == "c" and e.val[2] == 0 and ptr_parts(e.ptr)[1] == 0:
                cleared = e.size
        if e.kind == "store" and base_pred(ptr_parts(e.ptr)[0]):
            vals[ptr_parts(e.ptr)[1]] = (e.val, e.size)
    return vals, cleared


def check_g1(chk, cfg):
    tag = "[%s]" % cfg
    mw = build.compile_text("c10_witness.c", WITNESS, cfg)
    mi = build.load_unit("librfn/messageq.c", cfg)
    chk.note_unit(mw)
    chk.note_unit(mi)
    fw, fi = mw.fn("w_init"), mi.fn("messageq_init")
    chk.note_fn(fi)
    pw = [p for p in paths.enumerate_paths(fw, mw)]
    pi = [p for p in paths.enumerate_paths(fi, mi) if not paths.is_assert_fail_path(p)]
    if len(pw) != 1 or not pi:
        chk.unknown("G1.init-agreement", "paths" + tag, "the static initialiser is expected to be straight-line (%d/%d paths)" % (len(pw), len(pi)))
        return
    vw, _ = field_values(pw[0], lambda r: r[0] == "alloca", mw, None)
    tid = mi.di_by_name.get("messageq_t")
    if not tid:
        raise AnalysisError("anchor vanished: messageq_t")
    leaves = mi.di_leaves(tid)
    # the depth base_len / msg_len is the only quantity the two initialisers may branch on or compute with: evaluate both
    # for every depth of the property's scope (1..32) - a finite, exhaustive domain - and compare field by field
    from ..paths import eval_concrete, NoValue, cond_holds, subexprs

    def depth_env(exprs, D, names):
        env = {}
        for top in exprs:
            for x in subexprs(top):
                if x[0] == "b" and x[1] == "udiv" and strip_casts(x[3]) == ("arg", names[0]) and strip_casts(x[4]) == ("arg", names[1]):
                    env[x] = D
        return env
    n = 0
    bad_depth = {}
    undecided = None
    for D in range(1, 33):
        sel = []
        for p in pi:
            env = depth_env([c for c, t, i in p.conds], D, (2, 3))
            try:
                if all(cond_holds(cd, env) for cd in p.conds):
                    sel.append(p)
            except NoValue as nv:
                undecided = "messageq_init branches on %s, which is not a function of the depth" % fmt(nv.args[0])[:60]
        if undecided:
            break
        if len(sel) != 1:
            undecided = "%d paths of messageq_init for depth %d" % (len(sel), D)
            break
        vi, cleared = field_values(sel[0], lambda r: r == ("arg", 0), mi, None)
        for path, off, size, mt in leaves:
            a = vw.get(off)
            b = vi.get(off)
            ea = rename_args(a[0], {0: "basep", 1: "base_len", 2: "msg_len"}) if a else None
            if b:
                eb = rename_args(b[0], {1: "basep", 2: "base_len", 3: "msg_len"})
            elif cleared is not None and cleared >= off + size:
                eb = ("c", size * 8, 0)
            else:
                eb = None
            key = "messageq_t.%s%s" % (path, tag)
            if path in ("queue_len", "num_free"):
                try:
                    va = eval_concrete(a[0], depth_env([a[0]], D, (1, 2))) & ((1 << (8 * size)) - 1) if a else None
                    vb = eval_concrete(b[0], depth_env([b[0]], D, (2, 3))) & ((1 << (8 * size)) - 1) if b else (0 if eb else None)
                except NoValue as nv:
                    undecided = "%s is not a function of the depth (%s)" % (path, fmt(nv.args[0])[:60])
                    break
                if va != vb or vb != D:
                    bad_depth.setdefault(key, (D, va, vb))
            else:
                if not (ea is not None and eb is not None and ea == eb):
                    bad_depth.setdefault(key, (D, fmt(ea) if ea else "<not initialised>", fmt(eb) if eb else "<not initialised>"))
        if undecided:
            break
    if undecided:
        # not a function of the depth alone: look for a concrete geometry on which messageq_init disagrees with the depth
        # (a counterexample is a verdict; the absence of one on this grid is not)
        for ml in (1, 2, 3, 6, 8, 70):
            for D in (1, 2, 3, 31, 32):
                for r in (0, ml - 1):
                    bl = D * ml + r
                    envi = {("arg", 2): bl, ("arg", 3): ml}
                    envw = {("arg", 1): bl, ("arg", 2): ml}
                    try:
                        for path, off, size, mt in leaves:
                            if path in ("queue_len", "num_free") and off in vw:
                                got = eval_concrete(vw[off][0], envw) & ((1 << (8 * size)) - 1)
                                if got != D:
                                    chk.ob("G1.depth", "messageq_t.%s%s" % (path, tag), False,
                                           "with base_len=%d msg_len=%d (%d whole messages%s) MESSAGEQ_VAR_INIT sets %s = %d: a slot that "
                                           "extends beyond the pool is handed out" %
                                           (bl, ml, D, " and %d spare bytes" % r if r else "", path, got), "include/librfn/messageq.h", "MESSAGEQ_VAR_INIT")
                                    return
                    except NoValue:
                        pass
                    try:
                        sel = [p for p in pi if all(cond_holds(cd, envi) for cd in p.conds)]
                        if len(sel) != 1:
                            continue
                        vi, cleared = field_values(sel[0], lambda r_: r_ == ("arg", 0), mi, None)
                        for path, off, size, mt in leaves:
                            if path in ("queue_len", "num_free") and off in vi:
                                got = eval_concrete(vi[off][0], envi) & ((1 << (8 * size)) - 1)
                                if got != D:
                                    chk.ob("G1.depth", "messageq_t.%s%s" % (path, tag), False,
                                           "with base_len=%d msg_len=%d (%d whole messages%s) messageq_init sets %s = %d" %
                                           (bl, ml, D, " and %d spare bytes" % r if r else "", path, got), fi.loc, "messageq_init")
                                    return
                    except NoValue:
                        continue
        chk.unknown("G1.init-agreement", "messageq_init" + tag, undecided, fi.loc)
        return
    for path, off, size, mt in leaves:
        n += 1
        key = "messageq_t.%s%s" % (path, tag)
        bd = bad_depth.get(key)
        chk.ob("G1.init-agreement", key, bd is None,
               "MESSAGEQ_VAR_INIT and messageq_init give the same value for every depth 1..32" if bd is None else
               "for depth %d MESSAGEQ_VAR_INIT gives %s, messageq_init gives %s" % bd, fi.loc, "messageq_init")
        if path in ("queue_len", "num_free"):
            chk.ob("G1.depth", key, bd is None,
                   "%s == floor(base_len / msg_len) for every depth 1..32: trailing bytes that do not make up a whole message are "
                   "never part of a slot, and all slots start free" % path if bd is None else
                   "for depth %d %s is %s (static initialiser: %s): it must be the depth itself" % (bd[0], path, bd[2], bd[1]),
                   fi.loc, "messageq_init")
    chk.expect("G1", "messageq_t fields compared" + tag, n, 7)


def _mqf(ptr, fn, m):
    return mq.field(ptr, fn, m)


def check_receive_advance(chk, cfg, m, fn):
    tag = "%s[%s]" % (fn.name, cfg)
    n = 0
    for p in paths.enumerate_paths(fn, m):
        if paths.is_assert_fail_path(p):
            continue
        st = [e for e in p.events if e.kind == "store" and _mqf(e.ptr, fn, m) == "receivep"]
        if not st:
            continue
        pathid = "%s path %s" % (tag, "->".join(b.lstrip("%") for b in p.blocks))
        for e in st:
            n += 1

            def classify(x):
                if x[0] == "ld" and _mqf(x[1], fn, m) == "receivep":
                    return "own"
                if x[0] == "ld" and _mqf(x[1], fn, m) == "queue_len":
                    return "L"
                return None
            model = IndexModel(classify, min_len=1, max_len=255)
            for c, taken, inst in p.conds:
                model.add_cond(c, taken)
            if model.infeasible():
                continue
            N = model.lin(e.val)
            res = model.decide_is_successor(N)
            detail = "stored receivep = %s is the wrapped successor (mod queue_len) of the loaded receivep" % N
            if res == "proved":
                chk.ob("G2.receive-advance", pathid, True, detail, e.inst.loc, fn.name)
            elif isinstance(res, tuple):
                chk.ob("G2.receive-advance", pathid, False, detail + "; counterexample (own=receivep, L=queue_len): %s"
                       % {k: int(v) for k, v in res[1].items()}, e.inst.loc, fn.name)
            else:
                chk.unknown("G2.receive-advance", pathid, "cannot prove or refute: " + detail, e.inst.loc)
    return n


def _narrowing(e, limit_bits):
    """trunc nodes inside e that narrow below limit_bits."""
    return [x for x in paths.arith_subexprs(e) if x[0] == "cast" and x[1] == "trunc" and x[3] < limit_bits]


def _index_by_evaluation(p, bit, fn, m):
    """(True/False/'infeasible', text) or None if the expression has no recognisable (msg - basep) / msg_len atoms."""
    from ..paths import eval_concrete, NoValue
    exprs = [bit] + [c for c, t, i in p.conds]
    lens = set(x for e_ in exprs for x in paths.subexprs(e_) if x[0] == "ld" and _mqf(x[1], fn, m) == "msg_len")
    offs = set(x for e_ in exprs for x in paths.subexprs(e_) if x[0] == "b" and x[1] == "sub" and
               paths.contains(x[3], lambda y: y == ("arg", 1)) and paths.contains(x[4], lambda y: y[0] == "ld" and _mqf(y[1], fn, m) == "basep"))
    if not lens or not offs:
        return None
    feasible = 0
    for ml in list(range(1, 65)) + [96, 100, 128, 255, 256, 1000, 4096]:
        for k in range(32):
            env = {x: ml for x in lens}
            for x in offs:
                env[x] = k * ml
            try:
                if not all(paths.cond_holds(cd, env) for cd in p.conds):
                    continue
                feasible += 1
                got = eval_concrete(bit, env)
            except NoValue as nv:
                return False, "not evaluable (undefined?) for msg_len %d, slot %d: %s" % (ml, k, fmt(nv.args[0])[:50])
            if got != k:
                return False, "with msg_len %d the message at slot %d sets the flag of slot %d" % (ml, k, got)
    if not feasible:
        return "infeasible", ""
    return True, "equal to the slot for every evaluated message size (1..64, 96, 100, 128, 255, 256, 1000, 4096) and slot 0..31 (%d cases on this path)" % feasible


def check_addressing(chk, cfg, m, fn, role):
    tag = "%s[%s]" % (fn.name, cfg)
    n = 0
    # claim contains the CAS retry loop (at most one retry examined; the address is computed from the index the
    # successful CAS returned, whichever iteration that was)
    for p in paths.enumerate_paths(fn, m, loop_bound=1 if role == "claim" else None):
        if paths.is_assert_fail_path(p):
            continue
        pathid = "%s path %s" % (tag, "->".join(b.lstrip("%") for b in p.blocks))
        if role in ("claim", "receive"):
            r = p.ret
            if r is None or r[0] == "null":
                continue
            n += 1
            root, off, var = ptr_parts(r)
            ok = root[0] == "ld" and _mqf(root[1], fn, m) == "basep" and off == 0 and len(var) == 1 and var[0][1] == 1
            why = "returned address %s" % fmt(r)[:140]
            if ok:
                prod = var[0][0]
                core = strip_casts(prod)
                ok = core[0] == "b" and core[1] == "mul" and core[2] >= 32
                if ok:
                    ops = [core[3], core[4]]
                    has_len = any(strip_casts(o)[0] == "ld" and _mqf(strip_casts(o)[1], fn, m) == "msg_len" for o in ops)
                    narrow = _narrowing(prod, 32)
                    sx = [x for x in paths.arith_subexprs(prod) if x[0] == "cast" and x[1] == "sext" and x[2] < 32]
                    ok = has_len and not narrow and not sx
                    if narrow:
                        why = "the product index*msg_len is narrowed to %d bits" % narrow[0][3]
                    elif sx:
                        why = "a factor of index*msg_len is sign-extended from %d bits" % sx[0][2]
                    elif not has_len:
                        why = "the stride is not messageq_t.msg_len"
                else:
                    why = "offset is not index*msg_len computed in >= 32 bits: %s" % fmt(prod)[:100]
            chk.ob("G3.address", pathid, ok,
                   "returns basep + index*msg_len, multiples of the message size inside the caller's memory (%s)" % why,
                   p.ret_inst.loc, fn.name)
        if role == "send":
            for e in p.events:
                if e.kind == "rmw" and _mqf(e.ptr, fn, m) == "full_flags" and e.extra == "or":
                    n += 1
                    bit = C04._one_bit_mask(e.val)
                    if bit is None:
                        # 1 << index combined with something else (C04.R5.send decides whether the operand is still that bit)
                        sh = set(x[4] for x in paths.subexprs(e.val) if x[0] == "b" and x[1] == "shl" and x[3][0] == "c" and x[3][2] == 1)
                        bit = sh.pop() if len(sh) == 1 else None
                    if bit is None:
                        chk.unknown("G3.inverse", pathid, "mask is not 1 << index", e.inst.loc)
                        continue
                    core = strip_casts(bit)
                    ok = core[0] == "b" and core[1] == "udiv"
                    why = fmt(bit)[:160]
                    if not ok:
                        # not written as a division: evaluated for message sizes 1..64 and some larger ones, every slot 0..31, under
                        # the path's conditions, the index recovered from basep + slot*msg_len must be the slot
                        sem = _index_by_evaluation(p, bit, fn, m)
                        if sem is not None:
                            if sem[0] == "infeasible":
                                continue
                            chk.ob("G3.inverse", pathid, sem[0], "send recovers the slot from (msg - basep) and msg_len: %s" % sem[1], e.inst.loc, fn.name)
                            bits = strip_casts(e.val)[2] if strip_casts(e.val)[0] == "b" else 0
                            chk.ob("G4.flag-width", pathid, bits == 32, "flag mask built in %d bits (one bit per slot, 32 slots)" % bits,
                                   e.inst.loc, fn.name)
                            continue
                    if ok:
                        num, den = core[3], core[4]
                        dcore = strip_casts(den)
                        den_ok = dcore[0] == "ld" and _mqf(dcore[1], fn, m) == "msg_len" and not _narrowing(den, 16)
                        ncore = strip_casts(num)
                        num_ok = ncore[0] == "b" and ncore[1] == "sub" and \
                            paths.contains(ncore[3], lambda x: x == ("arg", 1)) and \
                            paths.contains(ncore[4], lambda x: x[0] == "ld" and _mqf(x[1], fn, m) == "basep")
                        narrow = _narrowing(num, MAX_OFFSET_BITS)
                        qn = [x for x in paths.arith_subexprs(bit) if x[0] == "cast" and x[1] == "trunc" and x[3] < 5
                              and paths.contains(x, lambda y: y == core)]
                        ok = den_ok and num_ok and not narrow and not qn
                        if narrow:
                            why = ("the byte offset (msg - basep) is narrowed to %d bits before the division; a queue of "
                                   "32 x 4096-byte messages has offsets up to 126976, so e.g. slot 16 (offset 65536) "
                                   "sets the flag of slot 0" % narrow[0][3])
                        elif not den_ok:
                            why = "divisor is not messageq_t.msg_len: %s" % fmt(den)[:80]
                        elif not num_ok:
                            why = "dividend is not (msg - basep): %s" % fmt(num)[:80]
                    chk.ob("G3.inverse", pathid, ok,
                           "send recovers the slot as (msg - basep) / msg_len, the inverse of claim's addressing (%s)" % why,
                           e.inst.loc, fn.name)
                    bits = strip_casts(e.val)[2] if strip_casts(e.val)[0] == "b" else 0
                    chk.ob("G4.flag-width", pathid, bits == 32, "flag mask built in %d bits (one bit per slot, 32 slots)" % bits,
                           e.inst.loc, fn.name)
    return n


def check_payload_untouched(chk, cfg, m, fn):
    tag = "%s[%s]" % (fn.name, cfg)
    bad = []
    for a in flow.accesses(fn, m):
        r = a.ptr.root
        i = r.inst
        if i is not None and i.op == "load":
            try:
                src = flow.resolve_ptr(i.ops[0], m)
            except AnalysisError:
                continue
            s, f = flow.name_field(src, m)
            if s in mq.STRUCTS and f == "basep":
                bad.append(a)
    chk.ob("G5.payload-untouched", tag, not bad,
           "no load/store through a pointer derived from basep%s" %
           ("" if not bad else ": %s at %s" % (bad[0].kind, bad[0].inst.loc)), fn.loc, fn.name)


def check_init_leaves_pool(chk, cfg, m):
    """G5.init-leaves-pool: messageq_init describes the queue, it does not touch the caller's memory: a write through its pool
    argument (a clearing memset, say) reaches the trailing bytes that make up no whole message unless its length is exactly
    queue_len * msg_len - and the static initialiser, which cannot write the pool at all, would describe a different queue."""
    if not m.has_fn("messageq_init"):
        return
    fn = m.fn("messageq_init")
    for p in paths.enumerate_paths(fn, m):
        if paths.is_assert_fail_path(p):
            continue
        wr = [e for e in p.events if e.kind in ("store", "memset", "memcpy") and e.ptr is not None and ptr_parts(e.ptr)[0] == ("arg", 1)]

        def whole_messages(ln):
            ln = strip_casts(ln) if ln is not None else None
            if ln is None or ln[0] != "b" or ln[1] != "mul":
                return False
            for a, b in ((ln[3], ln[4]), (ln[4], ln[3])):
                a, b = strip_casts(a), strip_casts(b)
                if a[0] == "b" and a[1] == "udiv" and strip_casts(a[3]) == ("arg", 2) and strip_casts(a[4]) == ("arg", 3) and b == ("arg", 3):
                    return True
            return False
        ok_len = [e for e in wr if e.kind == "memset" and ptr_parts(e.ptr)[1:] == (0, ()) and whole_messages(e.extra)]
        other = [e for e in wr if e not in ok_len and not (e.kind == "memset" and strip_casts(e.extra) == ("arg", 2))]
        if other:
            chk.unknown("G5.init-leaves-pool", "messageq_init[%s]" % cfg, "messageq_init writes the pool in a way this rule has no model of "
                        "(%s at %s)" % (other[0].kind, other[0].inst.loc), other[0].inst.loc)
            continue
        wr = [e for e in wr if e not in ok_len]
        chk.ob("G5.init-leaves-pool", "messageq_init[%s]" % cfg, not wr,
               "messageq_init writes the descriptor and at most the whole messages of the pool" if not wr else
               "messageq_init writes the caller's pool (%s of %s bytes at %s): bytes that are part of no whole message are touched, and the "
               "queue is not the one MESSAGEQ_VAR_INIT describes" % (wr[0].kind, fmt(wr[0].extra)[:30] if wr[0].extra is not None else wr[0].size,
                                                                     wr[0].inst.loc), (wr[0].inst.loc if wr else fn.loc), fn.name)


def check_macro_arguments(chk, cfg):
    from . import macrohyg
    B = macrohyg.W_BASE

    def want(a):
        bl, ml = (64 if a[0] else 32), (8 if a[1] else 4)
        return {"basep": B + 8, "msg_len": ml, "queue_len": bl // ml, "num_free": bl // ml, "sendp": 0, "full_flags": 0, "receivep": 0}
    macrohyg.check(chk, "G1.macro-arguments", "MESSAGEQ_VAR_INIT", "librfn/messageq.h", "messageq_t",
                   "MESSAGEQ_VAR_INIT(W + 2, a0 ? 64 : 32, a1 ? 8 : 4)", 2, want, cfg)


def run_config(chk, cfg):
    check_g1(chk, cfg)
    check_macro_arguments(chk, cfg)
    mods = build.load_units(build.library_units(), cfg)
    for m in mods:
        chk.note_unit(m)
    n_adv = n_addr = 0
    for m, fn, acc in mq.mq_functions(mods):
        rs = mq.roles(fn, acc)
        chk.note_fn(fn)
        if "init" in rs:
            continue
        if "receive" in rs:
            n_adv += check_receive_advance(chk, cfg, m, fn)
            n_addr += check_addressing(chk, cfg, m, fn, "receive")
        if "claim" in rs:
            n_addr += check_addressing(chk, cfg, m, fn, "claim")
        if "send" in rs:
            n_addr += check_addressing(chk, cfg, m, fn, "send")
        if m.unit == "librfn/messageq.c" or fn.name.startswith("messageq_"):
            check_payload_untouched(chk, cfg, m, fn)
    for m in mods:
        if m.unit == "librfn/messageq.c":
            check_init_leaves_pool(chk, cfg, m)
    chk.expect("G2", "receive-side advances [%s]" % cfg, n_adv, 1)
    chk.expect("G3", "addressing sites [%s]" % cfg, n_addr, 3)
    # send-side advance, CAS hand-out (C04.R4), flag protocol and empty() sibling (C04.R5)
    chk.rule_prefix = "C04."
    chk.rule_filter = lambda r: r.startswith(("R4", "R5", "R2", "R3", "R6"))
    C04.run_config(chk, cfg)
    chk.rule_prefix = ""
    chk.rule_filter = None


def run(chk):
    chk.explanation = (
        "Symbolic agreement and arithmetic checks over the IR of messageq.c / messageq.h (both atomics builds), "
        "for every geometry at once: the macro initialiser (witness TU) and messageq_init are reduced to maps "
        "field -> expression over (basep, base_len, msg_len) and compared; the send-side and receive-side "
        "advances are proved to be the wrapped successor modulo queue_len (cyclic index model); addressing is "
        "basep + index*msg_len without narrowing and send applies the exact inverse; flag masks are one bit of "
        "a 32-bit word and empty() tests the bit receive() tests; no pointer derived from basep is dereferenced. "
        "FIFO order over operation histories is NOT decided.")
    chk.rule("G1", "MESSAGEQ_VAR_INIT and messageq_init assign every field the same expression; depth = floor(base_len/msg_len) = initial num_free")
    chk.rule("G2", "receive-side advance (store of receivep) and send-side advance (CAS desired value, C04.R4) are the wrapped successor modulo queue_len")
    chk.rule("G3", "claim/receive return basep + index*msg_len (>=32-bit product, zero-extended factors); send divides the un-narrowed byte offset (msg - basep) by msg_len")
    chk.rule("G4", "flag masks are 1<<index in 32 bits; send ORs it, receive AND-NOTs and tests it, empty() tests the same bit (C04.R5)")
    chk.rule("G5", "no access through a pointer derived from basep inside the library")
    chk.assumptions += [
        "queue_len in [1, 255] (header documents <= 32), msg_len <= 65535 (field width), indices in [0, queue_len-1] (inductive)",
        "FIFO order over all sequential histories is NOT decided (needs exploration of histories)",
    ]
    chk.not_decided += ["FIFO order over sequential histories"]
    for cfg in ("default", "noatomics"):
        run_config(chk, cfg)
