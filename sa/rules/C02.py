"""C02 - fibre timeouts never fire early, fire in due order, survive 32-bit time wrap: code-shape clauses.

 T1 time-unit typing: a time value (duetime, kernel.now, the time arguments, time_now()) is never an operand of an
    ordered comparison; it may only be subtracted from another time value, and the difference is compared signed
 T2 cyclecmp32(a, b) returns a - b; duetime_cmp returns f1.duetime - f2.duetime (signed difference)
 T3 expiry predicates: fibre_timeout returns true exactly on (duetime - now) <= 0 and otherwise records duetime before
    queueing; handle_timerq moves the head exactly while (head.duetime - now) <= 0
 T4 sorted, stable timer queue: list_insert_sorted advances past X iff cmp(node, X) >= 0 at both of its tests
 T5 cancel on run / kill: C01 S3 and S8 (re-used)
 T6 kernel.now is stored from the time argument before anything else in fibre_scheduler_next
Not decided: the history-level statement (first pass with t at or after d).
"""
from .. import build, flow, paths
from ..ir import AnalysisError
from ..paths import fmt, ptr_parts, strip_casts, NoValue
from . import fib, C01

ORDERED = ("ult", "ule", "ugt", "uge", "slt", "sle", "sgt", "sge")


HEAD_CACHE = set()      # kernel members validated (T3.head-cache) as a cache of the timer queue head's due time


def time_kind(e, K, fn):
    """'time' | 'diff' | None for an expression (looks through casts)."""
    e = strip_casts(e)
    if e[0] == "ld":
        root, off, var = ptr_parts(e[1])
        if e[1] == K.kptr("now"):
            return "time"
        if K.member_of(e[1]) and K.member_of(e[1])[0] in HEAD_CACHE and K.member_of(e[1])[1] == 0:
            return "time"
        if off in (K.fibre["duetime"][0], K.fibre["duetime"][0] - K.link_off) and not var and e[2] == 4 \
                and root[0] in ("ld", "sym", "arg", "call", "p"):
            return "time"
        return None
    if e[0] == "arg":
        n = fn.arg_names.get(e[1], "")
        if n in ("time", "duetime", "now", "t") and fn.args[e[1]].ty == "i32":
            return "time"
        return None
    if e[0] == "call" and e[1] in ("time_now",):
        return "time"
    if e[0] == "call" and e[1] in ("cyclecmp32", "duetime_cmp"):
        return "diff"
    if e[0] == "b" and e[1] == "sub":
        a, b = time_kind(e[3], K, fn), time_kind(e[4], K, fn)
        if a == "time" and b == "time":
            return "diff"
        if a == "time" and b is None and e[4][0] == "c":
            return "time"
        return None
    if e[0] == "b" and e[1] == "add":
        a, b = time_kind(e[3], K, fn), time_kind(e[4], K, fn)
        if (a == "time" and e[4][0] == "c") or (b == "time" and e[3][0] == "c"):
            return "time"
        return None
    return None


def check_t1(chk, mods, K, min_n=2):
    n = 0
    for m, names in mods:
        for name in names:
            if not m.has_fn(name):
                continue
            fn = m.functions[name]
            chk.note_fn(fn)
            if fn.loops_headers():
                runs = [p for s, p in paths.enumerate_segments(fn, m, call_effects=fib.EFFECTS)]
            else:
                runs = paths.enumerate_paths(fn, m, call_effects=fib.EFFECTS)
            seen = set()
            for p in runs:
                for c, taken, inst in p.conds:
                    cc = strip_casts(c)
                    if cc[0] != "icmp" or (inst.loc, fmt(cc)) in seen:
                        continue
                    seen.add((inst.loc, fmt(cc)))
                    a, b = time_kind(cc[2], K, fn), time_kind(cc[3], K, fn)
                    if a is None and b is None:
                        continue
                    n += 1
                    iid = "%s: %s" % (name, fmt(cc)[:70])
                    if "time" in (a, b):
                        if cc[1] in ORDERED:
                            chk.ob("T1.cyclic-only", iid, False,
                                   "time values are compared with the ordered predicate '%s': this is not a cyclic comparison and "
                                   "gives the wrong answer when the 32-bit tick counter wraps between the two values" % cc[1],
                                   inst.loc, name)
                        else:
                            chk.ob("T1.cyclic-only", iid, True, "equality test of time values", inst.loc, name)
                    else:
                        ok = cc[1] in ("slt", "sle", "sgt", "sge", "eq", "ne") and (cc[3][0] == "c" or cc[2][0] == "c")
                        if not ok and a == "diff" and b == "diff" and cc[1] in ("slt", "sle", "sgt", "sge", "eq", "ne"):
                            ok = True       # two signed distances (from a common origin) compared as signed numbers
                        if not ok and cc[3][0] == "c" and cc[3][1] == 32 and (cc[1], cc[3][2]) in (
                                ("ugt", 0x7fffffff), ("uge", 0x80000000), ("ult", 0x80000000), ("ule", 0x7fffffff)):
                            ok = True       # an unsigned comparison with 2^31 is a test of the sign bit of the difference
                        chk.ob("T1.cyclic-only", iid, ok,
                               "a time difference is compared %s" % ("signed, against a constant or another difference" if ok else
                                                                     "with '%s': a cyclic difference must be interpreted as signed" % cc[1]),
                               inst.loc, name)
    chk.expect("T1", "comparisons involving time values or differences", n, min_n)


def nsw_on_time(fn, argnames):
    """instructions of fn that subtract / add values derived from the named arguments with the no-signed-wrap flag"""
    derived = set(argnames)
    changed = True
    bad = []
    while changed:
        changed = False
        for blk in fn.order:
            for i in blk.insts:
                if i.is_dbg() or not i.name or i.name in derived:
                    continue
                ops = [v for v, b in i.incoming] if i.op == "phi" else list(i.ops)
                if any((o.k in ("arg", "inst")) and o.name in derived for o in ops) and i.op in ("phi", "zext", "sext", "trunc", "bitcast", "select", "freeze", "load"):
                    derived.add(i.name)
                    changed = True
    for blk in fn.order:
        for i in blk.insts:
            # (a signed operation in a type wider than the times cannot overflow on two extended 32-bit values)
            if i.op in ("sub", "add") and i.get("nsw") and i.ty in ("i32", "i16", "i8") and \
                    all((o.k in ("arg", "inst")) and o.name in derived for o in i.ops):
                bad.append(i)
    return bad


def check_t2(chk, m, mu, K):
    # cyclecmp32 as its callers see it: a function of util.c, a static inline of util.h or a macro - the witness is linked
    # with util.c and everything is inlined into it
    try:
        mw = build.api_view("c02_api.c", "#include <librfn/util.h>\nint32_t w_cyclecmp32(uint32_t a, uint32_t b) { return cyclecmp32(a, b); }\n",
                            ["librfn/util.c"], ["w_cyclecmp32"])
    except AnalysisError as e:
        chk.unknown("T2.difference", "cyclecmp32", "API view of cyclecmp32 does not build: %s" % str(e)[-200:])
        return
    chk.note_unit(mw)
    fn = mw.fn("w_cyclecmp32")
    chk.note_fn(fn)
    ps = [p for p in paths.enumerate_paths(fn, mw, loop_bound=1) if not paths.is_assert_fail_path(p)]
    bad = nsw_on_time(fn, {fn.args[0].name, fn.args[1].name})
    chk.ob("T2.modular-difference", "cyclecmp32", not bad,
           "the difference of the two times is formed in unsigned (modular) arithmetic" if not bad else
           "the times are subtracted as SIGNED integers (%s at %s): overflow is undefined behaviour exactly in the wrap cases the "
           "function exists for, and once the function is visible to its callers an optimising compiler folds cyclecmp32(a, b) <= 0 "
           "into (int) a <= (int) b, a magnitude comparison" % (bad[0].op, bad[0].loc), bad[0].loc if bad else fn.loc, "cyclecmp32")
    mu = mw
    # decided for all 2^64 argument pairs: on every path the value returned is (a - b) mod 2^32 (read as int32_t)
    from ..domains.bdd import BDD, BV
    from ..domains.bvexec import expr_bv, Top
    B = BDD()
    bv = BV(B)
    av = [B.var(2 * i) for i in range(32)]
    bw = [B.var(2 * i + 1) for i in range(32)]
    atom = lambda x: av if x == ("arg", 0) else bw if x == ("arg", 1) else None
    want = bv.sub(av, bw)
    for p in ps:
        pid = "cyclecmp32" + ("" if len(ps) == 1 else " path " + "->".join(b.lstrip("%") for b in p.blocks))
        try:
            pc = 1
            for c, taken, inst in p.conds:
                v = expr_bv(c, bv, atom)
                bit = 0
                for x in v:
                    bit = B.OR(bit, x)
                pc = B.AND(pc, bit if taken else B.NOT(bit))
            rv = bv.trunc(expr_bv(p.ret, bv, atom), 32)
        except (Top, KeyError, IndexError, TypeError) as t:
            chk.unknown("T2.difference", pid, "outside the bit-vector fragment: %s" % t, fn.loc)
            continue
        bad = B.AND(pc, B.NOT(bv.eq(rv, want)))
        wit = ""
        if bad != 0:
            a_ = B.sat_one(bad) or {}
            wit = "; e.g. a=%d b=%d" % (sum((1 << i) for i in range(32) if a_.get(2 * i)), sum((1 << i) for i in range(32) if a_.get(2 * i + 1)))
        chk.ob("T2.difference", pid, bad == 0, "cyclecmp32(a, b) returns (a - b) mod 2^32 as a signed value for all argument pairs "
               "(got %s)%s" % (fmt(p.ret)[:60], wit), fn.loc, fn.name)
    # the same for every place where the scheduler itself forms a difference of two times (a local helper, an open-coded
    # comparison): time values are kernel.now, a fibre's duetime and the public entry points' time arguments
    for g in m.defined_functions():
        seeds = set(a.name for a in g.args if a.ty == "i32" and g.arg_names.get(g.args.index(a), "") in ("time", "duetime", "now", "t"))
        for a in flow.accesses(g, m):
            if a.kind == "load" and a.inst.ty == "i32" and ((a.struct == "kernel" and a.field == "now") or
                                                            (a.field or "").split(".")[-1] == "duetime"):
                seeds.add(a.inst.name)
        if not seeds:
            continue
        bad = nsw_on_time(g, seeds)
        chk.ob("T2.modular-difference", g.name, not bad,
               "no signed (overflow-undefined) subtraction or addition of two time values in %s" % g.name if not bad else
               "two time values are subtracted as SIGNED integers (%s at %s): the overflow is undefined behaviour exactly when the "
               "counter has wrapped between them, and an optimising compiler turns `(int) a - (int) b <= 0` into the magnitude "
               "comparison `(int) a <= (int) b`" % (bad[0].op, bad[0].loc), bad[0].loc if bad else g.loc, g.name)
    fn, ps = fib.fn_paths(m, "duetime_cmp")
    chk.note_fn(fn)
    d = K.fibre["duetime"][0] - K.link_off
    for p in ps:
        r = strip_casts(p.ret)
        if r[0] == "call" and r[1] == "cyclecmp32":
            r = ("b", "sub", 32, strip_casts(r[2][0]), strip_casts(r[2][1]))
        ok = r[0] == "b" and r[1] == "sub" and r[3][0] == "ld" and r[4][0] == "ld" and \
            ptr_parts(r[3][1]) == (("arg", 0), d, ()) and ptr_parts(r[4][1]) == (("arg", 1), d, ())
        chk.ob("T2.difference", "duetime_cmp", ok,
               "duetime_cmp(n1, n2) returns fibre(n1).duetime - fibre(n2).duetime as a signed difference (got %s)" % fmt(p.ret)[:80],
               fn.loc, fn.name)


def le0(cc, taken):
    """Normalise a condition on X to ('<=0', X) truth on this edge: returns (X, holds) if cc is X <= 0 / X < 1 / X > 0 ..."""
    if cc[0] != "icmp":
        return None
    if cc[3][0] != "c" and cc[2][0] == "c":
        mir = {"sle": "sge", "sge": "sle", "slt": "sgt", "sgt": "slt"}
        if cc[1] not in mir:
            return None
        cc = ("icmp", mir[cc[1]], cc[3], cc[2])
    if cc[3][0] != "c":
        return None
    v = cc[3][2]
    sv = v - (1 << cc[3][1]) if v >> (cc[3][1] - 1) else v
    if cc[1] == "sle" and sv == 0 or cc[1] == "slt" and sv == 1:
        return cc[2], bool(taken)
    if cc[1] == "sgt" and sv == 0 or cc[1] == "sge" and sv == 1:
        return cc[2], not taken
    return None


def check_t3(chk, m, K):
    fn, ps = fib.fn_paths(m, "fibre_timeout")
    chk.note_fn(fn)
    from ..domains.bdd import BDD, BV
    from ..domains.bvexec import expr_bv, Top
    for p in ps:
        pid = "fibre_timeout " + "->".join(b.lstrip("%") for b in p.blocks)
        # the expiry decision as a Boolean function of r = duetime - now (32 bits): the path must imply r <=s 0 or r >s 0
        B = BDD()
        bv = BV(B)
        rv = bv.inputs(0, 32)

        def is_now(x):
            x = strip_casts(x)
            return x[0] == "ld" and x[1] == K.kptr("now")

        def atom(x):
            if x[0] == "call" and x[1] == "cyclecmp32" and strip_casts(x[2][0]) == ("arg", 0) and is_now(x[2][1]):
                return rv
            if x[0] == "b" and x[1] == "sub" and x[2] == 32 and strip_casts(x[3]) == ("arg", 0) and is_now(x[4]):
                return rv
            return None
        pc = 1
        expired = None
        other = None
        for c, taken, inst in p.conds:
            if not (paths.contains(c, lambda x: x == ("arg", 0)) or paths.contains(c, is_now)):
                continue
            try:
                v = expr_bv(c, bv, atom)
            except (Top, KeyError, IndexError, TypeError):
                other = fmt(strip_casts(c))[:60]
                continue
            bit = 0
            for x in v:
                bit = B.OR(bit, x)
            pc = B.AND(pc, bit if taken else B.NOT(bit))
        le0_ = B.OR(rv[31], bv.eq(rv, bv.const(0, 32)))
        if other is not None:
            expired = ("other", other)
        elif pc != 1 and B.AND(pc, B.NOT(le0_)) == 0:
            expired = True
        elif pc != 1 and B.AND(pc, le0_) == 0:
            expired = False
        elif pc != 1:
            asg = B.sat_one(B.AND(pc, le0_)) or {}
            expired = ("other", "the test does not separate (duetime - now) <= 0 from > 0 as a signed difference; e.g. both outcomes "
                       "contain differences such as %d" % sum((1 << i) for i in range(32) if asg.get(i)))
        ins = C01.insertion_sites(p, K)
        if expired is True:
            wr = [e for e in p.events if e.kind == "store" and ptr_parts(e.ptr)[1] == K.fibre["duetime"][0] and not ptr_parts(e.ptr)[2]
                  and ptr_parts(e.ptr)[0][0] == "ld" and ptr_parts(e.ptr)[0][1] == K.kptr("current")]
            ok = p.ret is not None and p.ret[0] == "c" and p.ret[2] != 0 and not ins and not wr
            chk.ob("T3.timeout-predicate", pid, ok,
                   "due time not after now: returns true and registers nothing" if not wr else
                   "due time not after now: true is returned, but current->duetime has been overwritten (%s): if the fibre armed a later "
                   "timeout earlier in this dispatch it sits on the timer queue under that key - the queue is no longer sorted and the "
                   "fibre is woken at the wrong time" % wr[0].inst.loc, p.ret_inst.loc, fn.name)
        elif expired is False:
            st = [k for k, e in enumerate(p.events) if e.kind == "store" and e.val == ("arg", 0) and ptr_parts(e.ptr)[1] == K.fibre["duetime"][0]
                  and ptr_parts(e.ptr)[0][0] == "ld" and ptr_parts(e.ptr)[0][1] == K.kptr("current")]
            first_ins = min([k for k, e, q, n in ins], default=None)
            ok = p.ret is not None and p.ret[0] == "c" and p.ret[2] == 0 and bool(st) and (first_ins is None or st[0] < first_ins)
            chk.ob("T3.timeout-predicate", pid, ok,
                   "due time after now: returns false, with current->duetime recorded before the fibre is queued", p.ret_inst.loc, fn.name)
        else:
            chk.ob("T3.timeout-predicate", pid, False,
                   "the expiry test is not (duetime - now) <= 0 as a signed difference (%s): a timeout due exactly now must not sleep, "
                   "and one due later must not return early" % (expired[1] if expired else "no test of the difference found"),
                   p.ret_inst.loc, fn.name)
    fn, segs = fib.fn_segments(m, "handle_timerq")
    chk.note_fn(fn)
    # a list primitive this rule has no model of, applied to a kernel queue: what it moves is not known here
    KNOWN = ("list_insert", "list_insert_sorted", "list_push", "list_extract", "list_remove", "list_contains", "list_iterate",
             "list_iterator_next", "list_iterator_remove", "list_iterator_insert", "list_empty", "list_peek")
    for s_, p_ in segs:
        for e_ in p_.events:
            if e_.kind == "call" and isinstance(e_.callee, str) and e_.callee not in KNOWN and e_.args and \
                    any(K.queue_arg(a_) in ("runq", "timerq") for a_ in e_.args):
                chk.unknown("T3.expiry-predicate", "handle_timerq", "%s is applied to a kernel queue: a list primitive this rule has no model of "
                            "(which fibres it moves is not decided)" % e_.callee, e_.inst.loc)
                return
    n = 0

    def takes_off_timerq(e):
        return e.kind == "call" and (e.callee == "list_iterator_remove" or
                                     (e.callee in ("list_extract", "list_remove") and e.args and K.queue_arg(e.args[0]) == "timerq"))
    helper_moves = {}

    def helper_takes_off_timerq(name):
        """A helper of this unit that takes its fibre off the timer queue on every path, except paths on which it finds the
        fibre on the run queue already (a fibre waiting on the timer queue is on no other queue: C01's invariant)."""
        if name not in helper_moves:
            helper_moves[name] = False
            g = m.functions.get(name)
            if g is not None and not g.decl:
                try:
                    gps = [q for q in paths.enumerate_paths(g, m, loop_bound=1) if not paths.is_assert_fail_path(q)]
                except Exception:
                    gps = []
                live = []
                for q in gps:
                    on_runq = False
                    for c, taken, inst in q.conds:
                        for x in paths.subexprs(c):
                            if x[0] == "call" and x[1] == "list_contains" and K.queue_arg(x[2][0]) == "runq":
                                try:
                                    on_runq = paths.cond_holds((c, taken, inst), {x: 1}) and not paths.cond_holds((c, taken, inst), {x: 0})
                                except NoValue:
                                    pass
                    if not on_runq:
                        live.append(q)
                helper_moves[name] = bool(live) and all(any(takes_off_timerq(e) for e in q.events) for q in live)
        return helper_moves[name]
    # decisions of handle_timerq read from kernel state the documented structure does not have (a cached due time, ...): whether
    # that state is kept right is not something this rule can see
    known = {"current", "state", "now", "runq", "atomic_runq", "timerq", "taint_flags"}
    for s, p in segs:
        opaque = [x for c, t, i in p.conds for x in paths.subexprs(c)
                  if x[0] == "ld" and x[1] is not None and K.member_of(x[1]) and K.member_of(x[1])[0] not in known]
        if opaque and len(set(K.member_of(x[1])[0] for x in opaque)) == 1:
            mem = K.member_of(opaque[0][1])[0]
            v = fib.check_head_cache(chk, m, K, mem)
            if v is True:
                HEAD_CACHE.add(mem)         # validated: reads of it stand for the head's due time
                opaque = []
            elif v is False:
                fib.check_iterator_validity(chk, m, K)
                return
        if opaque:
            chk.unknown("T3.expiry-predicate", "handle_timerq", "the expiry decision reads kernel.%s, state this rule does not interpret "
                        "(a cache of the head's due time?): whether it is kept up to date is not decided" % K.member_of(opaque[0][1])[0],
                        p.ret_inst.loc if p.ret_inst is not None else fn.loc)
            fib.check_iterator_validity(chk, m, K)
            return

    def decisions(p):
        """[(event position, True/False/'other:..')] of the expiry tests on a segment, [(position)] of the moves"""
        tests = []
        for (c, taken, inst), pos in zip(p.conds, p.cond_pos):
            cc = strip_casts(c)
            r = le0(cc, taken)
            if r is not None:
                x = strip_casts(r[0])
                if x[0] == "call" and x[1] == "cyclecmp32" and time_kind(x[2][0], K, fn) == "time" and x[2][1][0] == "ld" and x[2][1][1] == K.kptr("now"):
                    tests.append((pos, r[1]))
                # the same difference written out (cyclecmp32 inlined from a header, or open-coded)
                elif x[0] == "b" and x[1] == "sub" and time_kind(x[3], K, fn) == "time" and strip_casts(x[4])[0] == "ld" and strip_casts(x[4])[1] == K.kptr("now"):
                    tests.append((pos, r[1]))
            elif cc[0] == "icmp" and time_kind(cc[2], K, fn) == "diff":
                tests.append((pos, "other:" + fmt(cc)[:50]))
        moves = [k for k, e in enumerate(p.events)
                 if takes_off_timerq(e) or (e.kind == "call" and isinstance(e.callee, str) and helper_takes_off_timerq(e.callee))]
        return tests, moves

    def arrives_due(start, depth=0):
        """every way of reaching block `start` ends with the test having answered 'due' for the node now at the head and nothing
        moved since (the test for the next node is made at the bottom of the previous round, or before the loop)"""
        if start == fn.entry.name or depth > 3:
            return False
        arr = [(s_, q) for s_, q in segs if q.end == "cut:" + start]
        if not arr:
            return False
        for s_, q in arr:
            t_, m_ = decisions(q)
            if t_:
                pos, val = t_[-1]
                if val is not True or any(k >= pos for k in m_):
                    return False
            elif m_ or not arrives_due(s_, depth + 1):
                return False
        return True
    for s, p in segs:
        tests, moves = decisions(p)
        if not tests and not moves:
            continue
        n += 1
        sid = "handle_timerq %s..%s" % (s.lstrip("%"), p.end)
        bad_t = [v for pos, v in tests if isinstance(v, str)]
        if bad_t:
            chk.ob("T3.expiry-predicate", sid, False, "expiry test %s is not (head.duetime - now) <= 0" % bad_t[0], p.ret_inst.loc, fn.name)
            continue
        ok, why = True, []
        for k in moves:
            before = [v for pos, v in tests if pos <= k]
            if before:
                if before[-1] is not True:
                    ok = False
                    why.append("a fibre is moved after its due time tested 'not yet due'")
            elif not arrives_due(s):
                ok = False
                why.append("a fibre is moved although no test on this path (or on every path arriving here) found it due")
        # a 'not due' answer ends the walk: nothing is moved after it; a 'due' answer is followed by a move (here, or - when the
        # test is made ahead of the next round - on every continuation)
        for pos, v in tests:
            later = [k for k in moves if k >= pos]
            if v is False and later:
                ok = False
                why.append("a fibre is moved after the test answered 'not yet due'")
            if v is True and not later:
                if not p.end.startswith("cut:"):
                    ok = False
                    why.append("the test answered 'due' but the fibre is not moved before returning")
                else:
                    nxt = p.end[4:]
                    cont = [q for s_, q in segs if s_ == nxt]
                    if not cont or not all(decisions(q)[1] and not [t for t in decisions(q)[0] if t[0] <= decisions(q)[1][0]] for q in cont):
                        ok = False
                        why.append("the test answered 'due' but a continuation does not move the fibre (or tests again)")
        chk.ob("T3.expiry-predicate", sid, ok,
               "the head is moved to the run queue exactly when (head.duetime - now) <= 0 (tests %s, %d move(s)%s)"
               % ([v for pos, v in tests], len(moves), "" if ok else ": " + "; ".join(why)), p.ret_inst.loc, fn.name)
    chk.expect("T3", "expiry decisions in handle_timerq", n, 2)
    fib.check_iterator_validity(chk, m, K)
    fib.check_expiry_every_pass(chk, m, K)


def _icmp_holds(pred, a, b):
    ua, ub = a & 0xffffffff, b & 0xffffffff
    return {"eq": a == b, "ne": a != b, "slt": a < b, "sle": a <= b, "sgt": a > b, "sge": a >= b,
            "ult": ua < ub, "ule": ua <= ub, "ugt": ua > ub, "uge": ua >= ub}[pred]


def _is_cursor_of(X, it, start, segs, seen):
    """X is the result of list_iterate(.., it) / list_iterator_next(it), or a loop-carried value that is one on every arrival."""
    X = strip_casts(X)
    if X[0] == "call" and X[1] in ("list_iterate", "list_iterator_next"):
        a = X[2][-1 if X[1] == "list_iterate" else 0]
        # a local seen from the entry segment is ('alloca', n), from a later segment ('sym', n)
        return a == it or (a[0] in ("alloca", "sym") and it[0] in ("alloca", "sym") and a[1] == it[1])
    if X[0] == "sym":
        if X in seen:
            return True
        seen.add(X)
        arrivals = [p.carried.get(X[1]) for s, p in segs if p.end == "cut:" + start and getattr(p, "carried", None) is not None]
        return bool(arrivals) and all(a is not None and _is_cursor_of(a, it, start, segs, seen) for a in arrivals)
    return False


def check_t4(chk, ml):
    """list_insert_sorted from its correctness argument rather than its shape.  Every comparator result r = cmp(node, X) is
    followed, on each loop-free segment, to what the segment then does with the node:
      'before X'  (list_push when X is the head; list_iterator_insert when X is the cursor)  is allowed only for r < 0,
      'past X'    (list_insert = append when X is the tail; the cursor loop going round again)  only for r >= 0,
    and the cursor loop may only be entered if it cannot run off the end: every r for which the loop goes round again is
    one for which the tail fast path has already appended (or the loop tests the cursor against NULL itself).  The first
    two give sortedness and stability among equal keys (an equal node is never placed before X), the third termination.
    r ranges over sign classes and the neighbourhoods of every constant it is compared with, which is exact for tests of
    r against constants."""
    fn = ml.fn("list_insert_sorted")
    chk.note_fn(fn)
    L = {"head": (ml.struct_field_offset("list_t", "head"),), "tail": (ml.struct_field_offset("list_t", "tail"),)}
    allsegs = paths.enumerate_segments(fn, ml)
    # conditions whose other arm is an assertion failure are beliefs, not exits of the search
    asserted = {id(p.conds[-1][2]) for s, p in allsegs if p.end == "unreachable" and p.conds}
    segs = [(s, p) for s, p in allsegs if p.end != "unreachable"]
    next_o = ml.struct_field_offset("list_node", "next")
    n_tests = 0
    cont_sets, append_sets, null_guarded = [], [], False
    for s, p in segs:
        calls = [(k, e) for k, e in enumerate(p.events) if e.kind == "call"]
        for k, e in calls:
            if isinstance(e.callee, str) or not e.args or len(e.args) != 2:
                continue
            r = e.res
            tests = []
            tconds = []
            for n, (c, taken, inst) in enumerate(p.conds):
                cc = strip_casts(c)
                if cc[0] == "icmp" and strip_casts(cc[2]) == r and cc[3][0] == "c":
                    v = cc[3][2]
                    tests.append((cc[1], v - (1 << 32) if v >> 31 else v, bool(taken), p.cond_pos[n], inst))
                    tconds.append((c, taken, inst))
                elif cc[0] == "icmp" and strip_casts(cc[3]) == r and cc[2][0] == "c":
                    v = cc[2][2]
                    swap = {"slt": "sgt", "sgt": "slt", "sle": "sge", "sge": "sle", "ult": "ugt", "ugt": "ult", "ule": "uge", "uge": "ule"}
                    tests.append((swap.get(cc[1], cc[1]), v - (1 << 32) if v >> 31 else v, bool(taken), p.cond_pos[n], inst))
                    tconds.append((c, taken, inst))
            if not tests:
                continue
            n_tests += 1
            pts = {-(1 << 31), -1, 0, 1, (1 << 31) - 1}
            # (the result may reach the test through a conversion: values that a narrower type folds onto another sign class)
            pts |= {s_ * v_ for s_ in (1, -1) for v_ in (127, 128, 129, 200, 255, 256, 257, 32767, 32768, 40000, 65535, 65536, 65537)}
            for t in tests:
                pts |= {x for x in (t[1] - 1, t[1], t[1] + 1) if -(1 << 31) <= x < (1 << 31)}
            # each test is evaluated as written, conversions of the comparator's result included
            try:
                S = sorted(x for x in pts if all(paths.cond_holds(cd, {r: x & 0xffffffff}) for cd in tconds))
            except paths.NoValue:
                S = sorted(x for x in pts if all(_icmp_holds(t[0], x, t[1]) == t[2] for t in tests))
            loc = tests[-1][4].loc
            txt = " and ".join("%sr %s %d" % ("" if t[2] else "not ", t[0], t[1]) for t in tests)
            first_is_node = e.args[0] == ("arg", 1)
            X = strip_casts(e.args[1])
            kind = "cursor"
            if X[0] == "ld" and ptr_parts(X[1]) == (("arg", 0), L["head"][0], ()):
                kind = "head"
            elif X[0] == "ld" and ptr_parts(X[1]) == (("arg", 0), L["tail"][0], ()):
                kind = "tail"
            after = [c2 for k2, c2 in calls if k2 >= tests[-1][3] and isinstance(c2.callee, str)]
            names = [c2.callee for c2 in after]
            later = [x for x in p.events[tests[-1][3]:] if x.kind == "store" and strip_casts(x.val) == ("arg", 1)]
            # the open-coded forms of list_insert (tail->next = node) and list_push (head = node)
            if any(ptr_parts(x.ptr)[1:] == (next_o, ()) and ptr_parts(x.ptr)[0][0] == "ld"
                   and ptr_parts(ptr_parts(x.ptr)[0][1]) == (("arg", 0), L["tail"][0], ()) for x in later):
                names.append("list_insert")
            elif any(ptr_parts(x.ptr) == (("arg", 0), L["head"][0], ()) for x in later):
                names.append("list_push")
            sid = "%s..%s cmp(node, %s) with %s" % (s.lstrip("%"), p.end, kind, txt)
            chk.ob("T4.node-first", sid, first_is_node, "the new node is the comparator's first argument (the sign convention of every test below)",
                   loc, fn.name)
            open_coded = kind == "cursor" and "list_iterator_insert" not in names and p.end == "ret" and \
                [x for x in later if not (ptr_parts(x.ptr)[0] == ("arg", 1))]
            before = (kind == "head" and "list_push" in names) or (kind == "cursor" and ("list_iterator_insert" in names or open_coded))
            if kind == "cursor" and before:
                # 'before X' has to mean immediately before X: through the iterator whose current node X is, or into a slot
                # that this segment read and found to hold X
                if open_coded:
                    slots = [x.ptr for x in open_coded]
                    holds = [sl for sl in slots if any(y.kind == "load" and y.ptr == sl and strip_casts(y.val) == X for y in p.events)]
                    chk.ob("T4.insert-position", sid, bool(holds),
                           "the node is stored into the link that was read and found to hold X (so it lands immediately before X)" if holds else
                           "the node is stored into %s, which this segment never saw holding X: it is linked in somewhere other than "
                           "immediately before the node it compared smaller than, and the list is no longer sorted" % fmt(slots[0])[:60],
                           loc, fn.name)
                else:
                    ins = [c2 for c2 in after if c2.callee == "list_iterator_insert"][0]
                    chk.ob("T4.insert-position", sid, _is_cursor_of(X, ins.args[0], s, segs, set()),
                           "X is the current node of the iterator the node is inserted through (list_iterate / list_iterator_next results "
                           "on every way into the test)", loc, fn.name)
            goes_round = kind == "cursor" and p.end == "cut:" + s
            past = (kind == "tail" and "list_insert" in names and "list_push" not in names) or goes_round or \
                (kind == "cursor" and "list_iterator_next" in names and "list_iterator_insert" not in names)
            if before:
                bad = [x for x in S if x >= 0]
                chk.ob("T4.stable-polarity", sid, not bad,
                       "the node is placed BEFORE X only when cmp(node, X) < 0" + ("" if not bad else
                       "; here also for cmp == %d: a node is inserted in front of an existing equal (or smaller) one, so equal due times "
                       "fire in reverse registration order" % bad[0]), loc, fn.name)
            if past:
                bad = [x for x in S if x < 0]
                chk.ob("T4.stable-polarity", sid, not bad,
                       "the node moves PAST X only when cmp(node, X) >= 0" + ("" if not bad else
                       "; here also for cmp == %d: the node ends up behind a larger one and the list is no longer sorted" % bad[0]), loc, fn.name)
                if kind == "tail":
                    append_sets.append(set(S))
                elif goes_round or "list_iterator_next" in names:
                    cont_sets.append((set(S), sid, loc))
                    for c, taken, inst in p.conds:
                        cc = strip_casts(c)
                        if id(inst) not in asserted and cc[0] == "icmp" and cc[1] in ("eq", "ne") and ("null",) in (cc[2], cc[3]) and X in (strip_casts(cc[2]), strip_casts(cc[3])) \
                                and (cc[1] == "ne") == bool(taken):
                            null_guarded = True
    appended = set().union(*append_sets) if append_sets else set()
    for S, sid, loc in cont_sets:
        esc = sorted(S - appended)
        ok = null_guarded or not esc
        chk.ob("T4.search-terminates", sid, ok,
               "every comparator result that sends the cursor on has been taken by the tail fast path (or the loop tests the cursor for NULL), "
               "so the search stops at the tail at the latest" if ok else
               "the cursor moves on for cmp == %d but the tail fast path does not append for that value: with the tail as X the search walks "
               "off the end of the list (NULL passed to the comparator)" % esc[0], loc, fn.name)
    chk.expect("T4", "comparator tests in list_insert_sorted (per segment)", n_tests, 3)
    chk.expect("T4", "cursor-advance decisions in list_insert_sorted", len(cont_sets), 1)


def check_t6(chk, m, K):
    fn, ps = fib.fn_paths(m, "fibre_scheduler_next")
    for p in ps:
        # (reading the old kernel.now and recording something derived from it in a member the documented kernel does not have - a
        # 'ticks since the last pass' statistic - is not an effect of the pass on the scheduler's state)
        known = ("current", "state", "now", "runq", "atomic_runq", "timerq", "taint_flags")

        def bookkeeping(e):
            if e.kind == "load" and e.ptr == K.kptr("now"):
                return True
            if e.kind == "store" and e.ptr is not None and K.member_of(e.ptr) and K.member_of(e.ptr)[0] not in known:
                return True
            return False
        evs = [e for e in p.events if e.kind in ("store", "load", "call")]
        while len(evs) > 1 and bookkeeping(evs[0]):
            evs = evs[1:]
        first = evs[0]
        ok = first.kind == "store" and first.ptr == K.kptr("now") and first.val == ("arg", 0)
        chk.ob("T6.now-first", "fibre_scheduler_next", ok, "kernel.now := time is the first effect of the pass", first.inst.loc, fn.name)


def run(chk):
    chk.explanation = (
        "Static analysis of how time values flow and are compared in fibre.c, util.c, list.c and posix/fibre_posix.c: a "
        "type-like dataflow (time / difference) over path expressions rejects every non-cyclic comparison; the two "
        "difference functions, the two expiry predicates and the two comparator tests of list_insert_sorted are extracted "
        "and compared with the stated forms; cancellation re-uses the membership rules of C01. Since every comparison is a "
        "signed difference, behaviour is invariant under translation of the time base (the wrap cases). The history-level "
        "statement is NOT decided.")
    chk.rule("T1", "no ordered comparison has a time value as operand; differences of time values are compared signed against constants")
    chk.rule("T2", "cyclecmp32 returns a - b; duetime_cmp returns duetime(n1) - duetime(n2)")
    chk.rule("T3", "fibre_timeout: true exactly on (duetime - now) <= 0, otherwise records duetime before queueing; handle_timerq moves the head exactly while (head.duetime - now) <= 0")
    chk.rule("T4", "list_insert_sorted: both comparator tests are cmp(node, X) >= 0 (stable among equal keys)")
    chk.rule("T5", "a fibre made runnable or killed is taken off the timer queue (C01 S3, S8)")
    chk.rule("T6", "kernel.now is assigned from the time argument before anything else in the pass")
    chk.assumptions += ["all pending due times lie within 2^31 ticks after the current time (the property's scope; it makes the signed difference the cyclic order)",
                        "the history-level statement (becomes runnable in the first pass with t at or after d) is NOT decided"]
    chk.not_decided += ["history-level wake-up pass"]
    m, K = fib.load()
    chk.note_unit(m)
    mu = build.load_unit("librfn/util.c")
    ml = build.load_unit("librfn/list.c")
    mp = build.load_unit("librfn/posix/fibre_posix.c")
    for x in (mu, ml, mp):
        chk.note_unit(x)
    check_t1(chk, [(m, [f.name for f in m.defined_functions()]), (mu, ["cyclecmp32"]),
                   (mp, [f.name for f in mp.defined_functions()])], K)
    check_t2(chk, m, mu, K)
    check_t3(chk, m, K)
    check_t4(chk, ml)
    check_t6(chk, m, K)
    chk.rule_prefix = "C01."
    chk.rule_filter = lambda r: r.startswith(("S3", "S8", "S2.timer-comparator", "S2.queue-discipline", "S6"))
    lib = build.load_units(build.library_units(), "default")
    C01.check_s2(chk, m, K, lib)
    C01.check_s3(chk, m, K)
    C01.check_s8(chk, m, K)
    # the pass that re-queues a yielded fibre is what cancels that fibre's own pending timeout (T5): the fast path, which
    # skips it, may only be taken with an empty timer queue
    C01.check_s4_s6(chk, m, K)
    chk.rule_prefix = ""
    chk.rule_filter = None
    # the run queue and the timer queue are list_t: FIFO / sorted order rest on list.c keeping head, tail and links right (C09)
    from . import C09
    chk.rule_prefix = "list."
    chk.rule_filter = lambda r: r.startswith(("N1", "N2", "N3", "N5", "N6"))
    C09.run_rules(chk)
    chk.rule_prefix = ""
    chk.rule_filter = None
