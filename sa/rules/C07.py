"""C07 - data-race freedom of the lock-free structures under the C11 model.

Decides, in both atomics builds (default <stdatomic.h> and -D__STDC_NO_ATOMICS__ fallback):
 R1 atomicity table (derived from the _Atomic qualifiers of the default build): every access to such a
    field, in every library unit, is an atomic IR operation; listed initialiser exceptions
 R2 ordering strength at every hand-off site (role-based: only the sites through which plain data
    changes owner need release/acquire; owner-private loads may be relaxed)
 R3 hand-off order of the plain locations: ring bytes (C05.R1), message slots of the atomic run queue
    (written before send, read before release), receivep single-owner (C04.R6)
 R4 fallback macro mapping: each macro of atomic.h's fallback half lowers to the C11 operation of its
    name with seq_cst (or the passed order for _explicit)
 R5 both builds yield the same sequence of atomic operations per function
"""
from .. import build, flow, paths
from ..ir import AnalysisError
from ..paths import fmt, ptr_parts
from . import C04, C05, mq

ACQ = ("acquire", "acq_rel", "seq_cst")
REL = ("release", "acq_rel", "seq_cst")

INIT_EXCEPTIONS = {
    "messageq_init": "initialiser: memset + stores before the queue is shared",
    "ringbuf_init": "initialiser: memset before the descriptor is shared",
    "console_init": "initialiser: memset of the whole console_t (embeds the ring) before it is shared",
    "fibre_init": "initialiser: memset of the fibre_t (no atomic member today)",
}
UNITS_CONC = ["librfn/ringbuf.c", "librfn/messageq.c", "librfn/fibre.c", "librfn/console.c"]


def atomic_table(mods):
    """{(struct display name, field path)} for every _Atomic-qualified member, from DI of the default build."""
    table = set()
    for m in mods:
        names = {}
        for n, tid in m.di_by_name.items():
            names.setdefault(tid, set()).add(n)
        for tid, ns in names.items():
            for path, off, size, mt in m.di_leaves(tid):
                if m.di_is_atomic(mt):
                    p = path.replace("[0]", "[]")
                    for n in ns:
                        table.add((n, p))
        for g in m.globals.values():
            if g.get("di_ty"):
                for path, off, size, mt in m.di_leaves(g["di_ty"]):
                    if m.di_is_atomic(mt):
                        table.add((g["name"], path))
    return table


def fields_overlapped(a, m):
    """All leaf field paths of the accessed object overlapped by access a (for memset/memcpy ranges)."""
    tid, sname = flow.di_struct_of_ptr(a.ptr, m)
    if not tid or a.ptr.off < 0:
        return sname, []
    size = a.size if a.size is not None else 1 << 30
    out = []
    for path, off, sz, mt in m.di_leaves(tid):
        if off < a.ptr.off + size and a.ptr.off < off + max(sz, 1):
            out.append(path)
    return sname, out


def check_r1(chk, cfg, mods, table):
    n = 0
    for m in mods:
        for fn in m.defined_functions():
            for a in flow.accesses(fn, m):
                if a.kind in ("memset", "memcpy_dst", "memcpy_src"):
                    sname, fields = fields_overlapped(a, m)
                else:
                    sname, fields = a.struct, ([a.field] if a.field else [])
                hit = [f for f in fields if (sname, f) in table]
                if not hit:
                    continue
                n += 1
                inst = "%s[%s] %s %s.%s" % (fn.name, cfg, a.kind, sname, ",".join(hit))
                chk.note_fn(fn)
                if a.atomic:
                    chk.ob("R1.atomic", inst, True, "atomic %s %s" % (a.kind, a.ordering), a.inst.loc, fn.name)
                elif fn.name in INIT_EXCEPTIONS:
                    chk.ob("R1.init-exception", inst, True, INIT_EXCEPTIONS[fn.name], a.inst.loc, fn.name)
                else:
                    chk.ob("R1.atomic", inst, False,
                           "plain (non-atomic) %s of _Atomic field %s.%s: races with every concurrent atomic "
                           "access of the other context" % (a.kind, sname, ",".join(hit)), a.inst.loc, fn.name)
    chk.expect("R1", "accesses to _Atomic fields [%s]" % cfg, n, 20)


def acquire_load_saw_bit(m, fn, rmw_inst):
    from ..paths import strip_casts as sc
    try:
        ps = [p for p in paths.enumerate_paths(fn, m, loop_bound=1) if not paths.is_assert_fail_path(p)]
    except AnalysisError:
        return False
    hit = 0
    for p in ps:
        ks = [k for k, e in enumerate(p.events) if e.kind == "rmw" and e.inst is rmw_inst]
        if not ks:
            continue
        hit += 1
        e = p.events[ks[0]]
        operand = sc(e.val)
        mask = None
        if operand[0] == "b" and operand[1] == "xor" and operand[4][0] == "c" and operand[4][2] == (1 << operand[2]) - 1:
            mask = sc(operand[3])
        if mask is None:
            return False
        good = False
        for ld in p.events[:ks[0]]:
            if ld.kind == "load" and ld.ptr == e.ptr and ld.inst.is_atomic() and ld.inst.ordering in ACQ:
                for c, taken, inst in p.conds:
                    if paths.contains(c, lambda x: x == ld.val) and paths.contains(c, lambda x: sc(x) == mask):
                        # the path continues to the AND only with (value & mask) != 0
                        try:
                            one = paths.cond_holds((c, taken, inst), LazyOne({ld.val: (1 << 32) - 1}, mask))
                            zero = paths.cond_holds((c, taken, inst), LazyOne({ld.val: 0}, mask))
                        except paths.NoValue:
                            continue
                        if one and not zero:
                            good = True
        if not good:
            return False
    return hit > 0


class LazyOne(dict):
    """environment in which the (unknown) one-bit mask evaluates to bit 0: enough to tell 'bit set' from 'bit clear' when
    the flag word is all ones or all zeros"""

    def __init__(self, base, mask):
        dict.__init__(self, base)
        self[mask] = 1
        for x in paths.subexprs(mask):
            pass


def check_r2_mq(chk, cfg, mods):
    n = 0
    for m, fn, acc in mq.mq_functions(mods):
        rs = mq.roles(fn, acc)
        if "init" in rs:
            continue
        has_fence = any(i.op == "fence" and i.get("syncscope") != "singlethread" for i in fn.real_insts())
        for a in acc:
            f = mq.acc_field(a)
            if not a.atomic or f not in mq.ATOMIC_FIELDS:
                continue
            rm = a.inst.get("rmwop") if a.kind == "rmw" else None
            need = None
            if f == "num_free" and rm == "sub":
                need = ("acquire", ACQ, "a granted claim must observe the receiver's release of the buffer before writing into it")
            elif f == "num_free" and a.kind == "cmpxchg":
                need = ("acquire", ACQ, "a granted claim must observe the receiver's release of the buffer")
            elif f == "num_free" and rm == "add" and "claim" not in rs:
                need = ("release", REL, "release must publish the receiver's reads of the buffer before it can be claimed again")
            elif f == "full_flags" and rm == "or":
                need = ("release", REL, "send must publish the message bytes written before it")
            elif f == "full_flags" and rm == "and":
                need = ("acquire", ACQ, "receive must observe the message bytes written before the send")
            if need is None:
                continue
            n += 1
            inst = "%s[%s] %s %s" % (fn.name, cfg, rm or a.kind, f)
            ok = a.ordering in need[1]
            why_ok = ""
            if not ok and f == "full_flags" and rm == "and":
                # a weaker AND is enough when, on every path to it, the receiver has already observed this very bit set through
                # an atomic load of the flag word that is acquire or stronger: that load reads from the sender's release OR (or
                # from a later RMW of its release sequence) and so synchronises with it; only the receiver clears bits, so the
                # bit is still set when the AND runs
                ok = acquire_load_saw_bit(m, fn, a.inst)
                why_ok = " (the bit was already observed set by an earlier acquire load of the flag word on every path)"
            if not ok and has_fence:
                chk.unknown("R2.mq-order", inst, "ordering %s with a separate thread fence: fence idiom not modelled"
                            % a.ordering, a.inst.loc)
                continue
            chk.ob("R2.mq-order", inst, ok,
                   "ordering %s; needs >= %s: %s%s" % (a.ordering, need[0], need[2], why_ok if ok else ""), a.inst.loc, fn.name)
    chk.expect("R2", "message-queue hand-off sites [%s]" % cfg, n, 4)


def check_sender_plain_writes(chk, cfg, mods):
    # many senders run claim / send concurrently: a plain (non-atomic) store to the shared descriptor from either is a write-write
    # race between two senders, whatever the field is for (a statistic, a cache)
    for m, fn, acc in mq.mq_functions(mods, check=False):
        rs = mq.roles(fn, acc)
        if "init" in rs or not (rs & {"claim", "send"}):
            continue
        plain = [a for a in acc if a.kind in ("store", "memset", "memcpy_dst") and not a.atomic]
        for a in plain:
            if True:
                chk.ob("R2.sender-plain-write", "%s[%s] %s of %s" % (fn.name, cfg, a.kind, mq.acc_field(a) or "?"), False,
                       "%s runs concurrently in every sender (role %s) and writes the descriptor's %s with a plain store: two senders "
                       "race on it (and on a weakly ordered machine the compiler may tear or invent the write)"
                       % (fn.name, ",".join(sorted(rs)), mq.acc_field(a) or "field"), a.inst.loc, fn.name)
        if not plain:
            chk.ob("R2.sender-plain-write", "%s[%s]" % (fn.name, cfg), True,
                   "sender-side function: every store it makes to the descriptor is atomic", fn.loc, fn.name)


def check_mq_post_handoff(chk, cfg, mods):
    """R3.no-access-after-handoff: inside the queue's own functions the message buffer changes owner at one atomic operation - the
    receiver's release-add on num_free gives it to the next claimer, the sender's release-or on full_flags gives it to the receiver.
    After that operation the function no longer owns the buffer: any later plain access to it (a scrub, a trailing copy, a debug
    read) conflicts with the new owner's accesses and nothing orders the two."""
    n = 0
    for m, fn, acc in mq.mq_functions(mods, check=False):
        rs = mq.roles(fn, acc)
        if "init" in rs or not (rs & {"release", "send"}):
            continue
        for p in paths.enumerate_paths(fn, m, loop_bound=1):
            if paths.is_assert_fail_path(p):
                continue
            hand = None
            for k, e in enumerate(p.events):
                if e.kind == "rmw" and e.ptr is not None and ptr_parts(e.ptr)[0] == ("arg", 0):
                    f = flow_field(e.ptr, fn, m)
                    if ("release" in rs and f == "num_free" and e.extra == "add") or ("send" in rs and f == "full_flags" and e.extra == "or"):
                        hand = k
                        break
            if hand is None:
                continue
            n += 1
            late = []
            for e in p.events[hand + 1:]:
                if e.kind not in ("load", "store", "memset", "memcpy", "memmove") or e.ptr is None:
                    continue
                roots = [ptr_parts(e.ptr)[0]]
                if e.kind in ("memcpy", "memmove") and e.val is not None and isinstance(e.val, tuple):
                    try:
                        roots.append(ptr_parts(e.val)[0])
                    except Exception:
                        pass
                for r in roots:
                    if r == ("arg", 0) or r[0] in ("alloca", "g", "c"):
                        continue
                    late.append(e)
                    break
            pid = "%s[%s] path %s" % (fn.name, cfg, "->".join(b.lstrip("%") for b in p.blocks))[:200]
            chk.ob("R3.no-access-after-handoff", pid, not late,
                   "no access to the message buffer follows the atomic operation that hands it over" if not late else
                   "%s of the message buffer at %s follows the %s at %s that hands the buffer to its next owner: from there on the %s may "
                   "be using it, and nothing orders this access with theirs" %
                   (late[0].kind, late[0].inst.loc, "release-add on num_free" if "release" in rs else "release-or on full_flags",
                    p.events[hand].inst.loc, "next claimer" if "release" in rs else "receiver"), late[0].inst.loc if late else p.events[hand].inst.loc, fn.name)
    chk.expect("R3", "hand-over paths of messageq_release / messageq_send [%s]" % cfg, n, 2)


def flow_field(ptr, fn, m):
    try:
        return paths.field_of(ptr, fn, m)[1]
    except Exception:
        return None


def check_r3_slots(chk, cfg, mods):
    """Users of claim/send and receive/release inside the library: slot written before send, read before release."""
    n = 0
    # compositions inside the queue's own unit (a `pop` built from receive + copy + release) are users too: taken from the unit as
    # written, where the calls are still calls
    extra = []
    for m in mods:
        comp = mq.composites(m)
        if comp:
            try:
                raw = build.load_unit(m.unit, m.config, inline_except=None)
                extra += [(raw, raw.fn(nm)) for nm in sorted(comp)]
            except AnalysisError:
                pass
    for m, fn in [(m, fn) for m in mods for fn in m.defined_functions()] + extra:
        if True:
            callees = set(c.callee for c in fn.calls() if c.callee)
            if not ({"messageq_claim", "messageq_receive"} & callees):
                continue
            if fn.name.startswith("messageq_") and (m, fn) not in extra:
                continue
            ps = [p for p in paths.enumerate_paths(fn, m, loop_bound=1) if not paths.is_assert_fail_path(p)]
            for p in ps:
                pathid = "%s[%s] path %s" % (fn.name, cfg, "->".join(b.lstrip("%") for b in p.blocks))
                for k, e in enumerate(p.events):
                    if e.kind != "call":
                        continue
                    if e.callee == "messageq_claim":
                        slot = e.res
                        sends = [j for j, x in enumerate(p.events) if j > k and x.kind == "call"
                                 and x.callee == "messageq_send" and len(x.args) > 1 and x.args[1] == slot]
                        stores = [j for j, x in enumerate(p.events) if x.kind in ("store", "memcpy", "memset")
                                  and x.ptr is not None and ptr_parts(x.ptr)[0] == slot]
                        if not sends:
                            continue    # slot handed to the caller (fibre_eventq_claim): client writes it
                        n += 1
                        late = [j for j in stores if j > sends[0]]
                        chk.ob("R3.slot-write-before-send", pathid, bool(stores) and not late,
                               "the claimed slot is written (%d store(s)) before messageq_send publishes it%s" %
                               (len(stores), "" if not late else "; store at %s follows the send" % p.events[late[0]].inst.loc),
                               p.events[sends[0]].inst.loc, fn.name)
                    if e.callee == "messageq_receive":
                        slot = e.res
                        rels = [j for j, x in enumerate(p.events) if j > k and x.kind == "call"
                                and x.callee == "messageq_release" and len(x.args) > 1 and x.args[1] == slot]
                        loads = [j for j, x in enumerate(p.events) if (x.kind in ("load", "memcpy")
                                 and x.ptr is not None and ptr_parts(x.ptr)[0] == slot) or
                                 (x.kind == "memcpy" and isinstance(x.val, tuple) and x.val and x.val[0] in ("p", "call", "sym", "ld") and ptr_parts(x.val)[0] == slot)]
                        if not rels:
                            continue
                        n += 1
                        late = [j for j in loads if j > rels[0]]
                        chk.ob("R3.slot-read-before-release", pathid, not late,
                               "every read of the received slot precedes messageq_release of that slot "
                               "(after the release an interrupt-context claimer may overwrite it)%s" %
                               ("" if not late else "; load at %s follows the release" % p.events[late[0]].inst.loc),
                               p.events[rels[0]].inst.loc, fn.name)
    chk.expect("R3", "claim..send / receive..release users inside the library [%s]" % cfg, n, 2)


WITNESS = r'''
#include <stdbool.h>
#include <librfn/atomic.h>
atomic_uint w_obj; atomic_flag w_flag;
unsigned int w_load(void) { return atomic_load(&w_obj); }
void w_store(unsigned int v) { atomic_store(&w_obj, v); }
unsigned int w_exchange(unsigned int v) { return atomic_exchange(&w_obj, v); }
bool w_cas_strong(unsigned int *e, unsigned int d) { return atomic_compare_exchange_strong(&w_obj, e, d); }
bool w_cas_weak(unsigned int *e, unsigned int d) { return atomic_compare_exchange_weak(&w_obj, e, d); }
unsigned int w_fetch_add(unsigned int v) { return atomic_fetch_add(&w_obj, v); }
unsigned int w_fetch_sub(unsigned int v) { return atomic_fetch_sub(&w_obj, v); }
unsigned int w_fetch_or(unsigned int v) { return atomic_fetch_or(&w_obj, v); }
unsigned int w_fetch_xor(unsigned int v) { return atomic_fetch_xor(&w_obj, v); }
unsigned int w_fetch_and(unsigned int v) { return atomic_fetch_and(&w_obj, v); }
bool w_tas(void) { return atomic_flag_test_and_set(&w_flag); }
void w_clear(void) { atomic_flag_clear(&w_flag); }
void w_thread_fence(void) { atomic_thread_fence(memory_order_seq_cst); }
void w_signal_fence(void) { atomic_signal_fence(memory_order_seq_cst); }
unsigned int w_load_x_relaxed(void) { return atomic_load_explicit(&w_obj, memory_order_relaxed); }
unsigned int w_load_x_acquire(void) { return atomic_load_explicit(&w_obj, memory_order_acquire); }
void w_store_x_release(unsigned int v) { atomic_store_explicit(&w_obj, v, memory_order_release); }
void w_store_x_relaxed(unsigned int v) { atomic_store_explicit(&w_obj, v, memory_order_relaxed); }
unsigned int w_exchange_x_acq_rel(unsigned int v) { return atomic_exchange_explicit(&w_obj, v, memory_order_acq_rel); }
unsigned int w_fetch_sub_x_acq_rel(unsigned int v) { return atomic_fetch_sub_explicit(&w_obj, v, memory_order_acq_rel); }
unsigned int w_fetch_or_x_release(unsigned int v) { return atomic_fetch_or_explicit(&w_obj, v, memory_order_release); }
unsigned int w_fetch_xor_x_relaxed(unsigned int v) { return atomic_fetch_xor_explicit(&w_obj, v, memory_order_relaxed); }
unsigned int w_fetch_and_x_acquire(unsigned int v) { return atomic_fetch_and_explicit(&w_obj, v, memory_order_acquire); }
bool w_cas_strong_x(unsigned int *e, unsigned int d) { return atomic_compare_exchange_strong_explicit(&w_obj, e, d, memory_order_acq_rel, memory_order_acquire); }
bool w_cas_weak_x(unsigned int *e, unsigned int d) { return atomic_compare_exchange_weak_explicit(&w_obj, e, d, memory_order_release, memory_order_relaxed); }
bool w_tas_x(void) { return atomic_flag_test_and_set_explicit(&w_flag, memory_order_acquire); }
void w_clear_x(void) { atomic_flag_clear_explicit(&w_flag, memory_order_release); }
'''

# function -> (op, detail key, detail value, ordering[, failure ordering])
EXPECT = {
    "w_load": ("load", None, None, "seq_cst"),
    "w_store": ("store", None, None, "seq_cst"),
    "w_exchange": ("atomicrmw", "rmwop", "xchg", "seq_cst"),
    "w_cas_strong": ("cmpxchg", "weak", False, "seq_cst", "seq_cst"),
    "w_cas_weak": ("cmpxchg", "weak", True, "seq_cst", "seq_cst"),
    "w_fetch_add": ("atomicrmw", "rmwop", "add", "seq_cst"),
    "w_fetch_sub": ("atomicrmw", "rmwop", "sub", "seq_cst"),
    "w_fetch_or": ("atomicrmw", "rmwop", "or", "seq_cst"),
    "w_fetch_xor": ("atomicrmw", "rmwop", "xor", "seq_cst"),
    "w_fetch_and": ("atomicrmw", "rmwop", "and", "seq_cst"),
    "w_tas": ("atomicrmw", "rmwop", "xchg", "seq_cst"),
    "w_clear": ("store", None, None, "seq_cst"),
    "w_thread_fence": ("fence", "syncscope", "", "seq_cst"),
    "w_signal_fence": ("fence", "syncscope", "singlethread", "seq_cst"),
    "w_load_x_relaxed": ("load", None, None, "monotonic"),
    "w_load_x_acquire": ("load", None, None, "acquire"),
    "w_store_x_release": ("store", None, None, "release"),
    "w_store_x_relaxed": ("store", None, None, "monotonic"),
    "w_exchange_x_acq_rel": ("atomicrmw", "rmwop", "xchg", "acq_rel"),
    "w_fetch_sub_x_acq_rel": ("atomicrmw", "rmwop", "sub", "acq_rel"),
    "w_fetch_or_x_release": ("atomicrmw", "rmwop", "or", "release"),
    "w_fetch_xor_x_relaxed": ("atomicrmw", "rmwop", "xor", "monotonic"),
    "w_fetch_and_x_acquire": ("atomicrmw", "rmwop", "and", "acquire"),
    "w_cas_strong_x": ("cmpxchg", "weak", False, "acq_rel", "acquire"),
    "w_cas_weak_x": ("cmpxchg", "weak", True, "release", "monotonic"),
    "w_tas_x": ("atomicrmw", "rmwop", "xchg", "acquire"),
    "w_clear_x": ("store", None, None, "release"),
}


def check_r4(chk):
    for cfg in ("noatomics", "default"):
        try:
            m = build.compile_text("c07_witness.c", WITNESS, cfg)
        except AnalysisError as e:
            chk.unknown("R4.fallback-mapping", "witness[%s]" % cfg, "witness does not compile: %s" % str(e)[-300:])
            continue
        chk.note_unit(m)
        n = 0
        for name, exp in EXPECT.items():
            if not m.has_fn(name):
                chk.unknown("R4.fallback-mapping", "%s[%s]" % (name, cfg), "witness function missing")
                continue
            fn = m.functions[name]
            ops = [i for i in fn.real_insts() if i.op in ("atomicrmw", "cmpxchg", "fence")
                   or (i.op in ("load", "store") and i.is_atomic())]
            plain_obj = [i for i in fn.real_insts() if i.op in ("load", "store") and not i.is_atomic()
                         and any(o.k == "global" for o in i.ops)]
            n += 1
            ok = len(ops) == 1 and not plain_obj
            detail = "expected one %s %s" % (exp[0], exp[3])
            if ok:
                i = ops[0]
                ok = i.op == exp[0] and i.ordering == exp[3]
                if exp[1] and ok:
                    ok = i.get(exp[1]) == exp[2]
                if len(exp) > 4 and ok:
                    ok = i.get("failure_ordering") == exp[4]
                detail += "; found %s %s %s" % (i.op, i.get("rmwop", i.get("syncscope", "")), i.ordering)
            else:
                detail += "; found %d atomic op(s), %d plain access(es) to the shared object" % (len(ops), len(plain_obj))
            chk.ob("R4.fallback-mapping", "%s[%s]" % (name, cfg), ok, detail, fn.loc, name)
        chk.expect("R4", "macro witnesses [%s]" % cfg, n, len(EXPECT))


def atomic_signature(fn, m):
    sig = []
    for i in fn.real_insts():
        if i.op in ("atomicrmw", "cmpxchg", "fence") or (i.op in ("load", "store") and i.is_atomic()):
            fld = ""
            if i.op != "fence":
                pv = i.ops[0] if i.op != "store" else i.ops[1]
                try:
                    fld = "%s.%s" % flow.name_field(flow.resolve_ptr(pv, m), m)
                except AnalysisError:
                    fld = "?"
            sig.append((i.op, i.get("rmwop", ""), fld, i.ordering, i.get("failure_ordering", ""),
                        i.get("weak", ""), i.get("syncscope", "")))
    return sig


def check_r5(chk, progs):
    a, b = progs["default"], progs["noatomics"]
    n = 0
    for ma, mb in zip(a, b):
        for fn in ma.defined_functions():
            sa_ = atomic_signature(fn, ma)
            if not mb.has_fn(fn.name):
                if sa_:
                    chk.ob("R5.builds-agree", fn.name, False, "function missing in the fallback build", fn.loc, fn.name)
                continue
            sb_ = atomic_signature(mb.functions[fn.name], mb)
            if not sa_ and not sb_:
                continue
            n += 1
            chk.ob("R5.builds-agree", "%s (%s)" % (fn.name, ma.unit), sa_ == sb_,
                   "default build: %s | fallback build: %s" % (sa_, sb_) if sa_ != sb_ else
                   "%d atomic operations, identical kind/field/ordering in both builds" % len(sa_), fn.loc, fn.name)
    chk.expect("R5", "functions with atomic operations", n, 8)


def run(chk):
    chk.explanation = (
        "Static race-freedom argument over the LLVM IR of every library unit in both atomics builds: "
        "(R1) every access to an _Atomic-qualified field is an atomic operation (table derived from the "
        "default build's debug-info types), (R2) the atomic operations through which plain data changes "
        "owner carry release/acquire strength, (R3) the plain accesses to handed-off locations lie on the "
        "correct side of those operations on every path, (R4) the fallback macros of atomic.h lower to the "
        "C11 operation of their name, (R5) both builds perform the same atomic operations. Given R1-R3 every "
        "conflicting pair of plain accesses is ordered by a release/acquire pair on one atomic object. "
        "No execution and no ThreadSanitizer run is involved.")
    chk.rule("R1", "every access to a field declared _Atomic is an atomic IR operation, in both builds; initialisers listed")
    chk.rule("R2", "hand-off atomics: ring index publish >= release, peer index load >= acquire before payload; mq claim-sub >= acquire, release-add >= release, send-or >= release, receive-and >= acquire; owner-private or hint-only accesses may be weaker")
    chk.rule("R3", "ring byte accessed before own-index publish; claimed slot written before messageq_send; received slot read before messageq_release; receivep only touched by the receiver role")
    chk.rule("R4", "atomic.h fallback half: every macro lowers to exactly one atomic IR operation of the C11 kind of its name, seq_cst or the explicit order passed")
    chk.rule("R5", "per function, the default and the fallback build perform the same sequence of atomic operations (kind, field, ordering)")
    chk.assumptions += [
        "clients keep to the documented roles (one producer/one consumer per ring, one receiver per queue)",
        "librfn/libopencm3/*.c (clients of the public API) cannot be parsed here and are not analysed",
        "clang's lowering of <stdatomic.h>/__atomic builtins is the C11 operation of the same name (the repo builds with gcc)",
        "the ThreadSanitizer clause of the property's quantifier belongs to a different technique family and is not performed",
    ]
    units = build.library_units()
    progs = {}
    for cfg in ("default", "noatomics"):
        progs[cfg] = build.load_units(units, cfg)
        for m in progs[cfg]:
            chk.note_unit(m)
    table = atomic_table(progs["default"])
    chk.extra["atomic_field_table"] = sorted("%s.%s" % t for t in table)
    need = {("ringbuf_t", "readi"), ("ringbuf_t", "writei"), ("messageq_t", "num_free"),
            ("messageq_t", "sendp"), ("messageq_t", "full_flags"), ("kernel", "taint_flags")}
    chk.expect("R1", "_Atomic fields found in debug info (table derivation)", len(need & table), len(need))
    for cfg in ("default", "noatomics"):
        check_sender_plain_writes(chk, cfg, progs[cfg])     # (decided whatever else the descriptor holds)
        check_r1(chk, cfg, progs[cfg], table)
        check_r2_mq(chk, cfg, progs[cfg])
        check_r3_slots(chk, cfg, progs[cfg])
        check_mq_post_handoff(chk, cfg, progs[cfg])
        # ring buffer hand-off: reuse C05's publication-order rules (R1.*) and single writer (R2.*)
        chk.rule_prefix = "ring."
        chk.rule_filter = lambda r: r.startswith(("R1", "R2", "R3.index-width"))
        C05.run_config(chk, cfg)
        # ... and the ring has one consumer context among the library's own users (C05.R7): a second one reads and writes readi
        # and the payload with no ordering against the first
        chk.rule_filter = lambda r: r.startswith("R7")
        C05.check_user_contexts(chk, cfg, progs[cfg])
        # receivep single owner: reuse C04.R6
        # receivep single owner (C04.R6); shared indices are only ever updated by read-modify-write, the send cursor is
        # handed out by compare-exchange (C04.R1, R4): a blind store between two senders' updates lets two of them write
        # the same payload bytes without ordering
        chk.rule_prefix = "mq."
        chk.rule_filter = lambda r: r.startswith(("R6", "R1", "R4", "R2.reservation"))
        C04.run_config(chk, cfg)
        chk.rule_prefix = ""
        chk.rule_filter = None
        if cfg == "default":
            # interrupt-callable entry points must not read or write the scheduler's plain (non-atomic) main-context state:
            # every such access conflicts with fibre_scheduler_next's plain writes without any happens-before edge (C06.I1)
            from . import C06
            chk.rule_prefix = "isr."
            chk.rule_filter = lambda r: r.startswith("I1")
            C06.check_i1(chk, progs[cfg], flow.Program(progs[cfg]))
            # the event hand-off is race-free only if every send both publishes and wakes (a sender that decides from the
            # receiver's plain bookkeeping whether to wake reads receivep without ordering) (C06.I2)
            from . import fib
            mf = [x for x in progs[cfg] if x.unit == fib.UNIT][0]
            chk.rule_filter = lambda r: r.startswith("I2")
            C06.check_i2(chk, mf, fib.Kernel(mf))
            chk.rule_prefix = ""
            chk.rule_filter = None
    check_r4(chk)
    check_r5(chk, progs)
