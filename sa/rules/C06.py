"""C06 - interrupt-context wake-ups and fibre events are never lost or duplicated: code-shape clauses.

 I1 ISR-safe closure: the documented interrupt-callable functions and everything they call never touch the scheduler's
    lists / current / state and never call the list API
 I2 publish before wake: fibre_run_atomic = claim -> write slot -> send, true only after the send; fibre_eventq_send sends the
    event and then always wakes the handler and returns that result; console_putchar puts before waking
 I3 drain before touch: fibre_scheduler_next's slow path, fibre_run and fibre_kill drain the atomic queue before their first
    list-API call on a kernel queue
 I4 complete, safe drain: the drain loops until messageq_receive returns NULL; the slot is read before it is released
 I5 the scheduler never skips or oversleeps an accepted request: fast-path guards (C01 S6) and wake-up guards (C03 U2) include the atomic queue
Not decided: absence of lost wake-ups under every placement of interrupts.
"""
from .. import build, flow, paths
from ..ir import AnalysisError
from ..paths import fmt, ptr_parts, strip_casts
from . import fib, C01, C03, C04, C07

ISR_ENTRY = ["fibre_run_atomic", "fibre_eventq_claim", "fibre_eventq_send", "console_putchar", "ringbuf_put",
             "messageq_claim", "messageq_send"]
KERNEL_PRIVATE = ("current", "state", "now", "runq", "timerq")


def check_i1(chk, lib, prog):
    n = 0
    for name in ISR_ENTRY:
        f = prog.lookup(name)
        if f is None:
            chk.unknown("I1.isr-safe-closure", name, "anchor vanished: %s" % name)
            continue
        for g in prog.closure(f):
            n += 1
            mod = g.module
            bad = []
            for c in g.calls():
                if c.callee in fib.LIST_API or c.callee in ("fibre_run", "fibre_kill", "fibre_scheduler_next", "fibre_timeout"):
                    bad.append("calls %s at %s" % (c.callee, c.loc))
            for a in flow.accesses(g, mod):
                if a.struct == "kernel" and a.field and a.field.split(".")[0] in KERNEL_PRIVATE:
                    bad.append("%s of kernel.%s at %s" % (a.kind, a.field, a.inst.loc))
                if a.field and (a.field.endswith("link.next") or (a.struct in ("list_t", "list_node_t", "list_node") and a.field in ("head", "tail", "next"))):
                    bad.append("%s of a list link at %s" % (a.kind, a.inst.loc))
            chk.ob("I1.isr-safe-closure", "%s (reachable from %s)" % (g.name, name), not bad,
                   "interrupt-callable code must not touch the scheduler's main-context state%s" %
                   ("" if not bad else ": " + "; ".join(bad[:3]) + " - an interrupt landing in the middle of a list operation corrupts the queue"),
                   g.loc, g.name)
    chk.expect("I1", "functions in the interrupt-callable closure", n, 7)


def check_i2(chk, m, K):
    fn, ps = fib.fn_paths(m, "fibre_run_atomic")
    chk.note_fn(fn)
    for p in ps:
        pid = "fibre_run_atomic " + "->".join(b.lstrip("%") for b in p.blocks)
        cs = fib.calls_on(p)
        claim = [e for k, e in cs if e.callee == "messageq_claim" and K.queue_arg(e.args[0]) == "atomic_runq"]
        send = [(k, e) for k, e in cs if e.callee == "messageq_send" and K.queue_arg(e.args[0]) == "atomic_runq"]
        rv = p.ret
        if rv is not None and rv[0] == "c" and rv[2] != 0:
            ok = bool(claim) and bool(send) and send[0][1].args[1] == claim[0].res
            st = [k for k, e in enumerate(p.events) if e.kind == "store" and e.ptr == (claim[0].res if claim else None) and e.val == ("arg", 0)]
            ok = ok and bool(st) and st[0] < send[0][0]
            chk.ob("I2.publish-before-wake", pid, ok, "true is returned only after the fibre was written into the claimed slot and the slot was sent",
                   p.ret_inst.loc, fn.name)
        elif rv is not None and rv[0] == "c":
            chk.ob("I2.publish-before-wake", pid, not send, "false is returned without sending anything", p.ret_inst.loc, fn.name)
        else:
            chk.unknown("I2.publish-before-wake", pid, "result %s" % fmt(rv)[:40], p.ret_inst.loc)
    fn, ps = fib.fn_paths(m, "fibre_eventq_send")
    chk.note_fn(fn)
    for p in ps:
        pid = "fibre_eventq_send " + "->".join(b.lstrip("%") for b in p.blocks)
        cs = fib.calls_on(p)
        send = [k for k, e in cs if e.callee == "messageq_send" and e.args[1] == ("arg", 1)]
        wake = [(k, e) for k, e in cs if e.callee == "fibre_run_atomic"]
        ok = bool(send) and bool(wake) and send[0] < wake[0][0] and strip_casts(p.ret) == wake[0][1].res
        if not wake:
            # the wake-up written out: a slot of the atomic run queue is claimed; NULL -> false is returned, otherwise the owning
            # fibre is stored in the slot, the slot is sent and true is returned
            claim = [(k, e) for k, e in cs if e.callee == "messageq_claim" and K.queue_arg(e.args[0]) == "atomic_runq"]
            if claim:
                kc, ce = claim[0]
                got = None
                for c, taken, inst in p.conds:
                    cc = strip_casts(c)
                    if cc[0] == "icmp" and cc[1] in ("eq", "ne") and ("null",) in (cc[2], cc[3]) and \
                            strip_casts(cc[2] if cc[3] == ("null",) else cc[3]) == strip_casts(ce.res):
                        got = (cc[1] == "ne") == bool(taken)
                rv = strip_casts(p.ret) if p.ret is not None else None
                wsend = [k for k, e in cs if e.callee == "messageq_send" and K.queue_arg(e.args[0]) == "atomic_runq" and e.args[1] == ce.res]
                st = [k for k, e in enumerate(p.events) if e.kind == "store" and e.ptr == ce.res and ptr_parts(e.val)[0] == ("arg", 0)]
                if got is False:
                    ok = bool(send) and send[0] < kc and not wsend and rv is not None and rv[0] == "c" and rv[2] == 0
                    wake = [(kc, ce)]
                elif got is True:
                    ok = bool(send) and send[0] < kc and bool(wsend) and bool(st) and st[0] < wsend[0] and \
                        rv is not None and rv[0] == "c" and rv[2] != 0
                    wake = [(kc, ce)]
        chk.ob("I2.event-then-wake", pid, ok,
               "every send publishes the event and then wakes the owning fibre, returning that wake-up's result%s" %
               ("" if ok else " (sent: %s, woken: %s): an event published without a wake-up is never received if the earlier "
                "wake-up was already consumed or had failed" % (bool(send), bool(wake))), p.ret_inst.loc, fn.name)


def check_i3(chk, m, K):
    for name in ("fibre_scheduler_next", "fibre_run", "fibre_kill"):
        fn, ps = fib.fn_paths(m, name)
        chk.note_fn(fn)
        n = 0
        for p in ps:
            cs = fib.calls_on(p)
            touch = [k for k, e in cs if (e.callee in fib.LIST_API and e.callee not in ("list_empty", "list_peek") and e.args
                                          and K.queue_arg(e.args[0]) in ("runq", "timerq"))
                     or e.callee in ("make_runnable", "handle_timerq", "get_next_task", "update_current_state")]
            if not touch:
                continue
            n += 1
            drain = [k for k, e in cs if e.callee == "handle_atomic_runq"]
            ok = bool(drain) and drain[0] < touch[0]
            chk.ob("I3.drain-before-touch", "%s %s" % (name, "->".join(b.lstrip("%") for b in p.blocks[:6])), ok,
                   "the atomic queue is drained before the first operation on a kernel list (requests accepted earlier are then part of "
                   "the queues this call works on)", p.ret_inst.loc, name)
        chk.expect("I3", "queue-touching paths of %s" % name, n, 1)


def hint_protocol(m, K, drain_segs, member):
    """A kernel member used as 'a request has been posted since the last drain'.  It is a sound reason to skip the drain only if
    (1) every path of fibre_run_atomic that sends stores a non-zero value to it AFTER the send, atomically, and (2) the drain lowers
    it only BEFORE it starts receiving: a store of 0 after a receive (in particular after the final NULL receive) wipes the hint
    of a request posted in between, which then waits for some unrelated later request.  -> None if sound, else the reason."""
    hp = K.kptr(member)
    fn, ps = fib.fn_paths(m, "fibre_run_atomic")
    for p in ps:
        if paths.is_assert_fail_path(p):
            continue
        sends = [k for k, e in enumerate(p.events) if e.kind == "call" and e.callee == "messageq_send" and K.queue_arg(e.args[0]) == "atomic_runq"]
        if not sends:
            continue
        raises = [k for k, e in enumerate(p.events) if e.kind in ("store", "rmw") and e.ptr == hp and k > sends[-1] and
                  not (e.val[0] == "c" and e.val[2] == 0)]
        if not raises:
            return "fibre_run_atomic sends a request without raising kernel.%s afterwards" % member
        if any(e.kind in ("store", "rmw") and e.ptr == hp and not e.inst.is_atomic() for e in p.events):
            return "kernel.%s is written with a plain (non-atomic) access in interrupt context" % member
    for s, p in drain_segs:
        seen_recv = s != drain_segs[0][0]       # a segment that starts at the loop head has received before
        for e in p.events:
            if e.kind == "call" and e.callee == "messageq_receive":
                seen_recv = True
            if e.kind in ("store", "rmw") and e.ptr == hp and e.val[0] == "c" and e.val[2] == 0 and seen_recv:
                return ("kernel.%s is lowered at %s, after the queue has been received from: a request posted between the final (NULL) "
                        "receive and that store has its hint wiped and is not drained by the next pass, fibre_run or fibre_kill" % (member, e.inst.loc))
    return None


_WRAPPERS = {}


def receive_wrapper(name):
    """Is `name` a library function that wraps one receive: on every path it calls messageq_receive(arg0) once, returns 0 exactly
    when that returned NULL, and otherwise reads the slot (copies it out) before messageq_release(arg0, slot) and returns non-zero?
    Returns True / a string saying what fails / None if there is no such function."""
    if name in _WRAPPERS:
        return _WRAPPERS[name]
    res = None
    for unit in build.library_units():
        # (the unit as written: the analysis view of messageq.c has the queue's API functions inlined into one another)
        try:
            mw = build.load_unit(unit, "default", inline_except=None)
        except AnalysisError:
            continue
        if not mw.has_fn(name) or not mw.fn(name).blocks:
            continue
        fw = mw.fn(name)
        if not any(c.callee == "messageq_receive" for c in fw.calls()):
            break           # not a receive wrapper at all: nothing to say
        res = True
        try:
            ps = [p for p in paths.enumerate_paths(fw, mw, loop_bound=1) if not paths.is_assert_fail_path(p)]
        except AnalysisError as e:
            res = str(e)
            break
        for p in ps:
            rcv = [(k, e) for k, e in enumerate(p.events) if e.kind == "call" and e.callee == "messageq_receive"]
            if len(rcv) != 1 or rcv[0][1].args[0] != ("arg", 0):
                res = "%s does not call messageq_receive(its queue) exactly once on every path" % name
                break
            k0, e0 = rcv[0]
            isnull = None
            for c, taken, inst in p.conds:
                cc = strip_casts(c)
                if cc[0] == "icmp" and cc[1] in ("eq", "ne") and ("null",) in (cc[2], cc[3]) and e0.res in (cc[2], cc[3]):
                    isnull = (cc[1] == "eq") == bool(taken)
            r = strip_casts(p.ret) if p.ret is not None else None
            if isnull is None or r is None or r[0] != "c":
                res = "%s's result is not decided by whether the receive returned NULL" % name
                break
            if isnull != (r[2] == 0):
                res = "%s returns %s on the path where the receive returned %s" % (name, r[2], "NULL" if isnull else "a message")
                break
            if not isnull:
                rel = [k for k, e in enumerate(p.events) if e.kind == "call" and e.callee == "messageq_release" and len(e.args) > 1 and e.args[1] == e0.res]
                rd = [k for k, e in enumerate(p.events) if k > k0 and ((e.kind == "load" and ptr_parts(e.ptr)[0] == e0.res) or
                                                                         (e.kind == "memcpy" and e.val is not None and ptr_parts(e.val)[0] == e0.res))]
                if len(rel) != 1 or not rd or max(rd) > rel[0]:
                    res = "%s does not read the received slot and then release it (reads at %s, releases at %s)" % (name, rd, rel)
                    break
        break
    _WRAPPERS[name] = res
    return res


def check_i4(chk, m, K):
    fn, segs = fib.fn_segments(m, "handle_atomic_runq")
    chk.note_fn(fn)
    exits = 0
    wrappers = set()
    for s, p in segs:
        for k, e in fib.calls_on(p):
            if isinstance(e.callee, str) and e.callee != "messageq_receive" and not m.has_fn(e.callee) and e.args and K.queue_arg(e.args[0]) == "atomic_runq":
                w = receive_wrapper(e.callee)
                if w is True:
                    wrappers.add(e.callee)
                elif isinstance(w, str):
                    chk.unknown("I4.drain-complete", "handle_atomic_runq", "the drain goes through %s, which is not recognised as a wrapper of "
                                "one receive: %s" % (e.callee, w), e.inst.loc)
                    return
    for s, p in segs:
        rc = [(k, e, t) for k, e, t in [(k, e, None) for k, e in fib.calls_on(p) if e.callee == "messageq_receive" or e.callee in wrappers]]
        if p.end == "ret":
            exits += 1
            # leaving the loop requires a NULL receive on this segment
            got_null = False
            for k, e, _ in rc:
                for c, taken, inst in p.conds:
                    cc = strip_casts(c)
                    if cc[0] == "icmp" and ("null",) in (cc[2], cc[3]) and e.res in (cc[2], cc[3]):
                        if (cc[1] == "eq") == bool(taken) or (cc[1] == "ne" and not taken):
                            got_null = True
                    # a verified wrapper's result: 0 / false <=> the receive inside it returned NULL
                    if e.callee in wrappers and paths.contains(cc, lambda x, r=e.res: x == r):
                        try:
                            if paths.cond_holds((c, taken, inst), {e.res: 0}) and not paths.cond_holds((c, taken, inst), {e.res: 1}):
                                got_null = True
                        except paths.NoValue:
                            pass
            # ... or the queue was just observed empty through the queue's own observer (what receive would have found)
            if not got_null:
                facts = fib.queue_empty_facts(p, K)
                if facts.get("atomic", (None, 0))[0] is True and not rc:
                    got_null = True
            note = ""
            if not got_null and not rc:
                # skipped on a 'nothing posted' hint kept in the kernel (a member the documented structure does not have)?
                known = {"current", "state", "now", "runq", "atomic_runq", "timerq", "taint_flags"}
                hints = set(K.member_of(x[1])[0] for c, t, i in p.conds for x in paths.subexprs(c)
                            if x[0] in ("ld", "ald") and x[1] is not None and K.member_of(x[1]) and K.member_of(x[1])[0] not in known)
                if len(hints) == 1:
                    why = hint_protocol(m, K, segs, hints.pop())
                    if why is None:
                        got_null = True
                        note = " (or a 'request posted' hint, raised after every send and lowered only before the drain, reads 0)"
                    else:
                        chk.ob("I4.drain-complete", "handle_atomic_runq %s..ret" % s.lstrip("%"), False,
                               "the drain is skipped on a hint whose protocol loses requests: %s" % why, p.ret_inst.loc, fn.name)
                        continue
            chk.ob("I4.drain-complete", "handle_atomic_runq %s..ret" % s.lstrip("%"), got_null or s == fn.entry.name and not rc and False,
                   "the drain stops only when messageq_receive returns NULL" + note, p.ret_inst.loc, fn.name)
    chk.expect("I4", "exits of the drain loop", exits, 1)


def run(chk):
    chk.explanation = (
        "Static effect and ordering analysis over the IR of all library units: the transitive closure of the interrupt-callable "
        "entry points is checked against the scheduler's main-context state (who-may-touch), publication precedes wake-up on "
        "every path of fibre_run_atomic / fibre_eventq_send / console_putchar, the three main-context entry points drain the "
        "atomic queue before touching a list, the drain is complete and reads each slot before releasing it, and the fast path "
        "and the wake-up computation both test the atomic queue. Placement of interrupts between individual atomic operations "
        "cannot be enumerated statically: absence of lost wake-ups over all interleavings is NOT decided.")
    chk.rule("I1", "closure of {%s}: no list-API call, no access to kernel.current/state/now/runq/timerq, no access to list links" % ", ".join(ISR_ENTRY))
    chk.rule("I2", "fibre_run_atomic: claim -> store fibre into slot -> send; true only after send, false sends nothing; fibre_eventq_send: messageq_send(event) then fibre_run_atomic on every path, returning its result")
    chk.rule("I3", "fibre_scheduler_next (slow path), fibre_run, fibre_kill: handle_atomic_runq precedes the first kernel-list operation on every path")
    chk.rule("I4", "handle_atomic_runq leaves its loop only on a NULL receive; each received slot is read before messageq_release (C07 R3)")
    chk.rule("I5", "fast path requires the atomic queue empty (C01 S6); a wake-up later than now requires the atomic queue empty (C03 U2)")
    chk.assumptions += ["interrupt handlers call only the documented interrupt-callable functions",
                        "absence of lost or duplicated wake-ups under every interleaving is NOT decided (needs exploration of interleavings)"]
    chk.not_decided += ["lost-wake-up freedom over all placements of interrupts"]
    lib = build.load_units(build.library_units(), "default")
    for x in lib:
        chk.note_unit(x)
    prog = flow.Program(lib)
    m = [x for x in lib if x.unit == fib.UNIT][0]
    K = fib.Kernel(m)
    fib.check_no_queue_surgery(m, K)
    check_i1(chk, lib, prog)
    check_i2(chk, m, K)
    check_i3(chk, m, K)
    check_i4(chk, m, K)
    chk.rule_prefix = "C07."
    chk.rule_filter = lambda r: r.startswith("R3")
    C07.check_r3_slots(chk, "default", lib)
    chk.rule_prefix = "C01."
    chk.rule_filter = lambda r: r.startswith("S3")
    C01.check_s3(chk, m, K)          # queues never corrupted: no fibre is linked into a queue twice
    chk.rule_filter = lambda r: r.startswith("S6")
    C01.check_s4_s6(chk, m, K)
    # a request fibre_run_atomic accepted is received only if its slot has a flag bit: the queue's depth must fit the 32-bit
    # flag word (C01 S10 on the static initialiser)
    _pf, _ff = chk.rule_prefix, chk.rule_filter
    chk.rule_prefix, chk.rule_filter = "C01.", None
    fib.check_atomic_queue_geometry(chk, m, K, min_depth=1)
    # the run queue is a chain through the fibres' link members: a write to one from scheduler code cuts the chain (C01 S11)
    fib.check_link_ownership(chk, m, K)
    chk.rule_prefix, chk.rule_filter = _pf, _ff
    chk.rule_prefix = "C03."
    chk.rule_filter = lambda r: r.startswith("U2")
    from ..paths import enumerate_paths
    w = build.compile_text("c03_witness.c", "#include <librfn/fibre.h>\nuint32_t w_k(void) { return FIBRE_UNBOUNDED_SLEEP; }\n")
    C03.wakeup_paths(chk, m, K, enumerate_paths(w.fn("w_k"), w)[0].ret[2])
    chk.rule_prefix = ""
    chk.rule_filter = None
    # both the atomic run queue and the event queues are messageq_t: its flag protocol must not lose a send (C04 R1, R5)
    chk.rule_prefix = "C04."
    chk.rule_filter = lambda r: r.startswith(("R1", "R5", "R2", "R3", "R4", "R6"))
    C04.run_config(chk, "default")
    # ... also in the pre-C11 fallback build of atomic.h, where an operation written without the atomic_* macros
    # (`flags |= bit`) is a plain load / or / store that a nested interrupt's complete send falls into
    C04.run_config(chk, "noatomics")
    chk.rule_prefix = ""
    chk.rule_filter = None
    # console_putchar: put before wake (K7 of C15)
    mc = [x for x in lib if x.unit == "librfn/console.c"][0]
    f = mc.fn("console_putchar")
    for p in paths.enumerate_paths(f, mc):
        names = [e.callee for e in p.events if e.kind == "call" and isinstance(e.callee, str)]
        ok = "ringbuf_put" in names and "fibre_run_atomic" in names and names.index("ringbuf_put") < names.index("fibre_run_atomic")
        chk.ob("I2.publish-before-wake", "console_putchar", ok, "the character is in the ring before the console fibre is woken", f.loc, f.name)
    # the run queue and the timer queue are list_t: FIFO / sorted order rest on list.c keeping head, tail and links right (C09)
    from . import C09
    chk.rule_prefix = "list."
    chk.rule_filter = lambda r: r.startswith(("N1", "N2", "N3", "N5", "N6"))
    C09.run_rules(chk)
    chk.rule_prefix = ""
    chk.rule_filter = None
    # the code under this property is written with the protothread macros: their expansion is validated as in C08
    from . import C08
    chk.rule_prefix = "pt."
    chk.rule_filter = lambda r: r.startswith(("V1", "V2"))
    C08.run_rules(chk, limit=260)
    chk.rule_prefix = ""
    chk.rule_filter = None
