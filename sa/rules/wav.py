"""Shared extraction for wavheader.c (C13, C14): wire grammar of encoder/decoder paths, field naming."""
import re

from .. import build, paths
from ..ir import AnalysisError
from ..paths import fmt, ptr_parts, strip_casts

STRUCT = "rf_wavheader_t"
UNIT = "librfn/wavheader.c"
INT_RE = re.compile(r"^rf_(pack|unpack)_([su])(8|16|32)(le|be)?$")

EFFECTS = {"memcmp": [], "rf_pack_remaining": [], "rf_pack_consumed": [], "rf_pack_init": [(0, None)]}
for _d in ("pack", "unpack"):
    for _t in ("char", "s8", "u8", "s16le", "s16be", "u16le", "u16be", "s32le", "s32be", "u32le", "u32be"):
        EFFECTS["rf_%s_%s" % (_d, _t)] = [(0, None)]
EFFECTS["rf_pack_bytes"] = [(0, None)]
EFFECTS["rf_unpack_bytes"] = [(0, None), (1, ("arg", 2))]


def wh_index(fn):
    for i, a in enumerate(fn.args):
        if a.ty in ("%struct.rf_wavheader*",):
            return i
    raise AnalysisError("anchor vanished: %s has no rf_wavheader_t* parameter" % fn.name)


def field_name(ptr, fn, m, wh):
    root, off, var = ptr_parts(ptr)
    if root != ("arg", wh):
        return None
    s, f = paths.field_of(ptr, fn, m)
    if f and f.endswith("[]"):
        f = f[:-2]
    return f


def field_table(m):
    tid = m.di_by_name.get("rf_wavheader_t") or m.di_by_name.get("rf_wavheader")
    if not tid:
        raise AnalysisError("anchor vanished: rf_wavheader_t debug info")
    return {path: (off, size) for path, off, size, mt in m.di_leaves(tid)}, m.ditypes[m.di_strip(tid)]["size"]


class Item:
    def __init__(self, kind, width, order, field, length=None, loc=""):
        self.kind, self.width, self.order, self.field, self.length, self.loc = kind, width, order, field, length, loc

    def key(self):
        return (self.kind, self.width, self.order, self.field, self.length)

    def __repr__(self):
        if self.kind == "int":
            return "%s:%d%s" % (self.field, self.width, self.order)
        return "%s:bytes[%s]" % (self.field, self.length)


def normalise(e, res2field, fn, m, wh):
    """Rewrite an expression over call results / loads of wh fields into one over ('F', field)."""
    if not isinstance(e, tuple):
        return e
    if e in res2field:
        return ("F", res2field[e])
    if e and e[0] == "ld":
        f = field_name(e[1], fn, m, wh)
        if f:
            return ("F", f)
    if e and e[0] == "cast":
        return normalise(e[4], res2field, fn, m, wh)
    return tuple(normalise(x, res2field, fn, m, wh) if isinstance(x, tuple) else x for x in e)


def local_name(ptr):
    """A name for a scratch buffer of the function itself (an item may pass through one on its way into the header)."""
    if ptr is None or not isinstance(ptr, tuple):
        return None
    root, off, var = ptr_parts(ptr)
    if root[0] in ("alloca", "sym") and not var:
        return "<local %s+%d>" % (root[1], off)
    return None


def grammar_of_path(p, fn, m, wh, direction):
    """(guards, items, info) of one path. direction: 'decode' | 'encode'."""
    ev = p.events
    res2field = {}
    # map call results to the wh field they are stored into
    for e in ev:
        if e.kind == "store":
            f = field_name(e.ptr, fn, m, wh)
            v = strip_casts(e.val)
            if f and v[0] == "call":
                res2field[v] = f
    items = []
    # (a decoded value is stored into its field after the call that produced it: the walk ends with the last such store)
    late_store = max([k for k, e in enumerate(ev) if e.kind == "store" and direction == "decode" and
                      strip_casts(e.val) in res2field and field_name(e.ptr, fn, m, wh)], default=-1)
    label = {}      # field -> item index currently held
    last_item_pos = -1
    guard_fields = {}
    for k, e in enumerate(ev):
        if e.kind == "call" and isinstance(e.callee, str):
            mt = INT_RE.match(e.callee)
            if mt and mt.group(1) == ("unpack" if direction == "decode" else "pack"):
                width = int(mt.group(3)) // 8
                order = mt.group(4) or "le"
                if direction == "decode":
                    f = res2field.get(e.res)
                else:
                    v = strip_casts(e.args[1])
                    f = field_name(v[1], fn, m, wh) if v[0] == "ld" else None
                    if f is None:
                        f = "<%s>" % fmt(normalise(e.args[1], res2field, fn, m, wh))[:40]
                items.append(Item("int", width, order, f, None, e.inst.loc))
                if f:
                    label[f] = len(items) - 1
                last_item_pos = k
            elif e.callee in ("rf_unpack_bytes", "rf_pack_bytes") and \
                    (e.callee == "rf_unpack_bytes") == (direction == "decode"):
                dst = e.args[1]
                f = None if dst == ("null",) else (field_name(dst, fn, m, wh) or local_name(dst))
                ln = normalise(e.args[2], res2field, fn, m, wh)
                items.append(Item("bytes", None, "", f if dst != ("null",) else "<skip>", fmt(ln), e.inst.loc))
                items[-1].length_expr = ln
                if f:
                    label[f] = len(items) - 1
                last_item_pos = k
            elif e.callee == "memcmp":
                pass
        elif e.kind == "memcpy":
            d, s = field_name(e.ptr, fn, m, wh), (field_name(e.val, fn, m, wh) or local_name(e.val)) if e.val else None
            if d and s is None and e.val is not None and ptr_parts(e.val)[0][0] == "g":
                # copied from a constant that an earlier memcmp on this path found equal to a field: same bytes as that field
                for c, taken, inst in p.conds:
                    cc = strip_casts(c)
                    if cc[0] == "icmp" and cc[1] in ("eq", "ne") and (cc[1] == "eq") == bool(taken) and \
                            any(x[0] == "c" and x[2] == 0 for x in (cc[2], cc[3])):
                        cm = strip_casts(cc[2] if cc[3][0] == "c" else cc[3])
                        if cm[0] == "call" and cm[1] == "memcmp" and len(cm[2]) == 3 and cm[2][2] == e.extra:
                            for a_, b_ in ((cm[2][0], cm[2][1]), (cm[2][1], cm[2][0])):
                                if a_ == e.val and (field_name(b_, fn, m, wh) or local_name(b_)) in label:
                                    s = field_name(b_, fn, m, wh) or local_name(b_)
            if d and s and s in label:
                label[d] = label[s]
                last_item_pos = max(last_item_pos, k)      # the copy decides which field holds the item: part of the walk
    # final names: an item is named by the field that holds it at the end
    final = {}
    for f, idx in label.items():
        final.setdefault(idx, []).append(f)
    for idx, it in enumerate(items):
        if it.kind == "int" and it.field is None:
            it.field = "<discarded>"
        if idx in final and it.field not in final[idx]:
            it.field = sorted(final[idx], key=lambda f_: (f_.startswith("<local"), f_))[0]
        elif idx in final and isinstance(it.field, str) and it.field.startswith("<local"):
            # read into a scratch buffer and copied into the header from there: named by the field that ends up holding it
            it.field = sorted(final[idx], key=lambda f_: (f_.startswith("<local"), f_))[0]
    # guards: conditions taken before the last item
    guards = []
    for (c, taken, inst), pos in zip(p.conds, p.cond_pos):
        if pos > max(last_item_pos, late_store):
            continue
        n = normalise(c, res2field, fn, m, wh)
        g = classify_guard(n, taken)
        guards.append(g)
    return tuple(sorted(set(guards))), items, res2field


def classify_guard(n, taken):
    """Normalise to (name, truth)."""
    if n[0] == "icmp":
        pred, a, b = n[1], n[2], n[3]
        if a[0] == "c" and b[0] != "c":
            a, b = b, a
            pred = {"uge": "ule", "ule": "uge", "ugt": "ult", "ult": "ugt", "sge": "sle", "sle": "sge",
                    "sgt": "slt", "slt": "sgt", "eq": "eq", "ne": "ne"}[pred]
        if a[0] == "F" and b[0] == "c":
            v = b[2]
            if pred in ("uge", "sge"):
                return ("%s>=%d" % (a[1], v), bool(taken))
            if pred in ("ugt", "sgt"):
                return ("%s>=%d" % (a[1], v + 1), bool(taken))
            if pred in ("ult", "slt"):
                return ("%s>=%d" % (a[1], v), not taken)
            if pred in ("ule", "sle"):
                return ("%s>=%d" % (a[1], v + 1), not taken)
            if pred == "eq":
                return ("%s==%d" % (a[1], v), bool(taken))
            if pred == "ne":
                return ("%s==%d" % (a[1], v), not taken)
        # memcmp(@fact, X, 4) == 0
        for x, y in ((a, b), (b, a)):
            if x[0] == "call" and x[1] == "memcmp" and y[0] == "c" and y[2] == 0:
                g = [t for t in x[2] if t[0] == "g"]
                if g:
                    truth = (pred == "eq") == bool(taken)
                    return ("chunk-is-%s" % g[0][1], truth)
    return ("?" + fmt(n)[:80], bool(taken))


def load():
    m = build.load_unit(UNIT)
    return m


def check_tag_tests_recognised(m):
    """Anchor: the chunk-id tests (is this the 'fact' chunk? is the container 'RIFF' / 'WAVE'?) are library comparisons of the four
    bytes (memcmp and relatives), which is how the guards of the walks are recognised.  A hand-written byte loop over a header
    member and one of the tag arrays may be just as right, but the rules then cannot tell which walk belongs to which kind of
    header: inconclusive, not a violation."""
    from .. import flow
    tags = set(n for n in ("riff", "wave", "fmt", "fact", "data") if n in m.globals)
    for fn in m.defined_functions():
        if not fn.name.startswith("rf_wavheader_"):
            continue
        for i in fn.insts():
            if i.op != "load" or not (i.ty or "").startswith("i"):
                continue
            try:
                pp = flow.resolve_ptr(i.ops[0], m)
            except AnalysisError:
                continue
            if pp.root.k == "arg" and (pp.root.ty or "").startswith("%struct.rf_wavheader") and not pp.var:
                # ... or reads the bytes of one of the header's id members itself
                try:
                    table, _ = field_table(m)
                except Exception:
                    table = {}
                for f_, (o_, sz_) in table.items():
                    if f_.endswith("_id") or f_ in ("format",):
                        if o_ <= pp.off < o_ + sz_:
                            raise AnalysisError("anchor vanished: %s reads the bytes of wh->%s itself (%s) - a chunk id compared by hand: the "
                                                "walks' guards ('the chunk is fact', 'the container is RIFF/WAVE') are recognised from "
                                                "memcmp-style comparisons only" % (fn.name, f_, i.loc))
            if pp.root.k == "global" and pp.root.name in tags:
                raise AnalysisError("anchor vanished: %s reads the bytes of @%s itself (%s) - a chunk id compared by hand, byte by byte or as a word: the walks' guards "
                                    "('the chunk is fact', 'the container is RIFF/WAVE') are recognised from memcmp-style comparisons only"
                                    % (fn.name, pp.root.name, i.loc))


def success_paths(fn, m):
    out = []
    for p in paths.enumerate_paths(fn, m, call_effects=EFFECTS):
        if paths.is_assert_fail_path(p):
            continue
        r = p.ret
        if r is not None and r[0] == "c" and r[2] >> (r[1] - 1):
            continue    # negative constant: error return
        out.append(p)
    return out
