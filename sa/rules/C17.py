"""C17 - rand31_r is the Park-Miller minimal standard generator, for all seeds at once.

Abstract interpretation of the returned expression in  Interval x exact-linear-form  with
quotient/remainder atoms (x = 2^k*q + r for x >> k and x & (2^k-1)), then:
 M1 no intermediate wraps its machine width (a wrap would add 2^32 == 2 mod p)
 M2 congruence: result == 16807 * seed (mod 2^31-1), by linear algebra over Z_p on the
    defining relations of the quotient/remainder atoms
 M3 range: on every path the result lies in [0, p]; with M2 and the lemma "p prime, p does not divide
    16807, so 16807*s != 0 (mod p) for 1 <= s < p" it lies in [1, p-1]
 M4 the stored state and the returned value are the same value; the state is read from / written to *seedp
If the proof fails, boundary residues are mapped back to seeds through the modular inverse and the IR
expression is evaluated on them to produce a concrete witness; no witness -> inconclusive.
"""
from fractions import Fraction

from .. import build, paths
from ..ir import AnalysisError
from ..paths import fmt, strip_casts, eval_concrete, NoValue, ptr_parts

P = (1 << 31) - 1
A = 16807


def is_prime(n):
    if n < 2:
        return False
    i = 2
    while i * i <= n:
        if n % i == 0:
            return False
        i += 1
    return True


class Top(Exception):
    pass


class AbsVal:
    __slots__ = ("lin", "lo", "hi")

    def __init__(self, lin, lo, hi):
        self.lin, self.lo, self.hi = lin, lo, hi     # lin: dict atom->int plus key 1 for the constant


def lin_add(a, b, sb=1):
    out = dict(a)
    for k, v in b.items():
        out[k] = out.get(k, 0) + sb * v
        if out[k] == 0:
            del out[k]
    return out


def lin_scale(a, c):
    return {k: v * c for k, v in a.items() if v * c != 0}


class Interp:
    def __init__(self, seed_expr):
        self.seed = seed_expr
        self.atoms = {"s": (1, P - 1)}
        self.relations = []         # lin == 0
        self.qr = {}
        self.rem_of = {}
        self.notes = []
        self.wraps = []
        self.refine = {}            # expr -> (lo, hi) from the branch conditions of the path

    def new_atom(self, name, lo, hi):
        self.atoms[name] = (lo, hi)
        return AbsVal({name: 1}, lo, hi)

    def split(self, v, k):
        """x = 2^k q + r"""
        key = (tuple(sorted(v.lin.items(), key=str)), k)
        if key in self.qr:
            return self.qr[key]
        # exact multiples of 2^k split without new atoms
        if k > 0 and all(isinstance(c, int) and c % (1 << k) == 0 for c in v.lin.values()):
            return AbsVal({a: c >> k for a, c in v.lin.items()}, v.lo >> k, v.hi >> k), AbsVal({}, 0, 0)
        # (x mod 2^k1) split at k <= k1:  remainder is x mod 2^k, quotient is (x >> k) mod 2^(k1-k)
        if len(v.lin) == 1:
            (nm, cf), = v.lin.items()
            if cf == 1 and isinstance(nm, str) and nm in self.rem_of:
                x, k1 = self.rem_of[nm]
                if k <= k1:
                    qx, rx = self.split(x, k)
                    if k == k1:
                        return AbsVal({}, 0, 0), rx
                    qq, rq = self.split(qx, k1 - k)
                    return rq, rx
        n = len(self.qr)
        q = self.new_atom("q%d" % n, v.lo >> k, v.hi >> k)
        rhi = min(v.hi, (1 << k) - 1) if v.hi < (1 << k) else (1 << k) - 1
        r = self.new_atom("r%d" % n, 0, rhi)
        rel = lin_add(lin_add(v.lin, lin_scale(q.lin, 1 << k), -1), r.lin, -1)
        self.relations.append(rel)
        self.qr[key] = (q, r)
        self.rem_of["r%d" % n] = (v, k)
        return q, r

    def bound(self, v):
        """Range of a linear form, refined by case analysis on quotient atoms with few values: for x = 2^k q + r with x in
        [x.lo, x.hi], fixing q narrows r to [x.lo - 2^k q, x.hi - 2^k q] (a carry bit and the low part are not independent)."""
        import itertools
        splits = []
        for key, (q, r) in self.qr.items():
            if not (isinstance(key, tuple) and len(key) == 2 and isinstance(key[1], int)):
                continue
            qn, rn = list(q.lin)[0], list(r.lin)[0]
            if (qn in v.lin or rn in v.lin) and qn in self.atoms and self.atoms[qn][1] - self.atoms[qn][0] <= 3 and rn in self.rem_of:
                splits.append((qn, rn, self.rem_of[rn][0], key[1]))
        if not splits or len(splits) > 4:
            return v.lo, v.hi
        best_lo, best_hi = None, None
        for vals in itertools.product(*[range(self.atoms[qn][0], self.atoms[qn][1] + 1) for qn, rn, x, k in splits]):
            rng = dict(self.atoms)
            feasible = True
            for (qn, rn, x, k), qv in zip(splits, vals):
                rlo, rhi = max(0, x.lo - (qv << k)), min((1 << k) - 1, x.hi - (qv << k))
                if rlo > rhi:
                    feasible = False
                    break
                rng[qn] = (qv, qv)
                rng[rn] = (max(rng[rn][0], rlo), min(rng[rn][1], rhi))
            if not feasible:
                continue
            lo = hi = 0
            for a, c in v.lin.items():
                if a == 1:
                    lo += c
                    hi += c
                    continue
                alo, ahi = rng[a]
                lo += c * (alo if c > 0 else ahi)
                hi += c * (ahi if c > 0 else alo)
            best_lo = lo if best_lo is None else min(best_lo, lo)
            best_hi = hi if best_hi is None else max(best_hi, hi)
        if best_lo is None:
            return v.lo, v.hi
        return max(v.lo, best_lo), min(v.hi, best_hi)

    def ev(self, e):
        v = self._ev(e)
        b = self.refine.get(e)
        if b is not None:
            v = AbsVal(v.lin, max(v.lo, b[0]), min(v.hi, b[1]))
        return v

    def _ev(self, e):
        if e == self.seed:
            return AbsVal({"s": 1}, 1, P - 1)
        k = e[0]
        if k == "c":
            return AbsVal({1: e[2]} if e[2] else {}, e[2], e[2])
        if k == "cast":
            v = self.ev(e[4])
            if e[1] in ("zext",):
                return v
            if e[1] == "trunc":
                if v.hi < (1 << e[3]):
                    return v
                raise Top("truncation of a value that may not fit %d bits" % e[3])
            if e[1] == "sext":
                if v.hi < (1 << (e[2] - 1)):
                    return v
                raise Top("sign extension of a possibly negative value")
        if k == "b":
            op, bits = e[1], e[2]
            lim = (1 << bits) - 1
            if op in ("add", "sub", "mul"):
                a, b = self.ev(e[3]), self.ev(e[4])
                if op == "add":
                    r = AbsVal(lin_add(a.lin, b.lin), a.lo + b.lo, a.hi + b.hi)
                elif op == "sub":
                    r = AbsVal(lin_add(a.lin, b.lin, -1), a.lo - b.hi, a.hi - b.lo)
                else:
                    if list(b.lin) in ([1], []) :
                        c = b.lin.get(1, 0)
                        r = AbsVal(lin_scale(a.lin, c), a.lo * c, a.hi * c)
                    elif list(a.lin) in ([1], []):
                        c = a.lin.get(1, 0)
                        r = AbsVal(lin_scale(b.lin, c), b.lo * c, b.hi * c)
                    else:
                        raise Top("product of two non-constants")
                if r.lo < 0 or r.hi > lim:
                    self.wraps.append("%s may leave [0, 2^%d): range [%d, %d]" % (fmt(e)[:60], bits, r.lo, r.hi))
                    raise Top("possible %d-bit wrap in %s: range [%d, %d]" % (bits, op, r.lo, r.hi))
                return r
            if op == "shl" and e[4][0] == "c":
                a = self.ev(e[3])
                c = 1 << e[4][2]
                r = AbsVal(lin_scale(a.lin, c), a.lo * c, a.hi * c)
                if r.hi > lim:
                    # the bits shifted out are discarded: (a << k) mod 2^bits == (a mod 2^(bits-k)) << k, modelled exactly
                    q, low = self.split(a, bits - e[4][2])
                    self.notes.append("%s discards high bits (modelled as (x mod 2^%d) << %d)" % (fmt(e)[:50], bits - e[4][2], e[4][2]))
                    return AbsVal(lin_scale(low.lin, c), low.lo * c, low.hi * c)
                return r
            if op == "lshr" and e[4][0] == "c":
                a = self.ev(e[3])
                q, r = self.split(a, e[4][2])
                return q
            if op == "and":
                x, m = e[3], e[4]
                if x[0] == "c":
                    x, m = m, x
                if m[0] == "c" and (m[2] & (m[2] + 1)) == 0:
                    a = self.ev(x)
                    kbits = m[2].bit_length()
                    if a.hi <= m[2]:
                        return a
                    q, r = self.split(a, kbits)
                    return r
                if m[0] == "c" and m[2]:
                    # a contiguous field of bits  M = (2^j - 1) << k :  a & M = ((a >> k) mod 2^j) * 2^k
                    kk = (m[2] & -m[2]).bit_length() - 1
                    top = m[2] >> kk
                    if (top & (top + 1)) == 0:
                        a = self.ev(x)
                        q1, r1 = self.split(a, kk)
                        jj = top.bit_length()
                        if q1.hi <= top:
                            fld = q1
                        else:
                            q2, fld = self.split(q1, jj)
                        return AbsVal(lin_scale(fld.lin, 1 << kk), fld.lo << kk, fld.hi << kk)
            if op == "or":
                a, b = self.ev(e[3]), self.ev(e[4])
                for u, v in ((a, b), (b, a)):
                    # u is a multiple of 2^k and v < 2^k: no bit in common, so u | v == u + v
                    kk = v.hi.bit_length()
                    if v.lo >= 0 and all(isinstance(c, int) and c % (1 << kk) == 0 for c in u.lin.values()):
                        r = AbsVal(lin_add(u.lin, v.lin), u.lo + v.lo, u.hi + v.hi)
                        if r.hi > lim:
                            raise Top("possible wrap in or-as-add")
                        return r
            if op in ("urem",) and e[4][0] == "c":
                a = self.ev(e[3])
                d = e[4][2]
                n = len(self.qr)
                q = self.new_atom("uq%d" % n, a.lo // d, a.hi // d)
                r = self.new_atom("ur%d" % n, 0, min(a.hi, d - 1))
                self.relations.append(lin_add(lin_add(a.lin, lin_scale(q.lin, d), -1), r.lin, -1))
                self.qr[("urem", n)] = (q, r)
                return r
        raise Top("expression outside the domain: %s" % fmt(e)[:80])

    def congruent(self, lin, target):
        """lin == target (mod P) modulo the integer relations: Gaussian elimination over Z_P."""
        d = lin_add(lin, target, -1)
        atoms = sorted(set(k for r in self.relations + [d] for k in r), key=str)
        # unknown multipliers l_j: sum_j l_j rel_j[a] == -d[a] (mod P) for all a
        rows = [[r.get(a, 0) % P for r in self.relations] + [(-d.get(a, 0)) % P] for a in atoms]
        n = len(self.relations)
        piv_row = 0
        for col in range(n):
            pr = None
            for r in range(piv_row, len(rows)):
                if rows[r][col] % P:
                    pr = r
                    break
            if pr is None:
                continue
            rows[piv_row], rows[pr] = rows[pr], rows[piv_row]
            inv = pow(rows[piv_row][col], P - 2, P)
            rows[piv_row] = [(x * inv) % P for x in rows[piv_row]]
            for r in range(len(rows)):
                if r != piv_row and rows[r][col] % P:
                    f = rows[r][col]
                    rows[r] = [(x - f * y) % P for x, y in zip(rows[r], rows[piv_row])]
            piv_row += 1
        # consistent iff no row 0 ... 0 | nonzero
        for r in rows:
            if all(x % P == 0 for x in r[:-1]) and r[-1] % P:
                return False
        return True


def witness_search(fn_paths, seed_expr, limit=40000, extra=()):
    """Map boundary residues back to seeds through the modular inverse and evaluate the IR expression."""
    inv = pow(A, P - 2, P)
    cands = []
    for r in list(range(1, limit)) + list(range(P - 2000, P)):
        cands.append((r * inv) % P)
    cands += [1, 2, P - 1, 65535, 65536, 0x7fff0000, 0x40000000]
    cands = list(extra) + cands
    for s in cands:
        if not (1 <= s <= P - 1):
            continue
        env = {seed_expr: s}
        got = None
        for p in fn_paths:
            ok = True
            for cd in p.conds:
                try:
                    holds = paths.cond_holds(cd, env)
                except NoValue:
                    ok = False
                    break
                if not holds:
                    ok = False
                    break
            if ok:
                try:
                    got = eval_concrete(p.ret, env)
                except NoValue:
                    got = None
                break
        want = (A * s) % P
        if got is not None and got != want:
            return s, got, want
    return None


WITNESS = """#include <librfn/rand.h>
uint32_t w_rand31_r(uint32_t *seedp) { return rand31_r(seedp); }
uint32_t w_once(uint32_t *(*cur)(void)) { return rand31_r(cur()); }
"""

NEG = {"ugt": "ule", "ule": "ugt", "uge": "ult", "ult": "uge", "sgt": "sle", "sle": "sgt", "sge": "slt", "slt": "sge", "eq": "ne", "ne": "eq"}


def apply_conds(it, p, cands, lemma=False):
    """Refine the interpreter's intervals by the path's comparisons against constants, in order.  Returns False when a
    comparison cannot hold for any valid state (the path is infeasible in the property's scope).
    lemma: a compared value that is congruent to 16807*s modulo p and lies in [0, p] under the conditions so far lies in [1, p-1]
    (p prime, p does not divide 16807, 1 <= s < p)."""
    for c, taken, inst in p.conds:
        cc = strip_casts(c)
        if cc[0] == "icmp" and cc[3][0] != "c" and lemma:
            # two computed values compared: decided on the difference of their exact linear forms
            pred = cc[1] if taken else NEG[cc[1]]
            try:
                a_, b_ = it.ev(cc[2]), it.ev(cc[3])
                d = lin_add(a_.lin, b_.lin, -1)
                lo_ = hi_ = 0
                for atom, coef in d.items():
                    if atom == 1:
                        lo_ += coef
                        hi_ += coef
                        continue
                    al, ah = it.atoms[atom]
                    lo_ += min(coef * al, coef * ah)
                    hi_ += max(coef * al, coef * ah)
                lo_, hi_ = it.bound(AbsVal(d, lo_, hi_))
            except (Top, KeyError):
                continue
            # (machine comparison of the unwrapped values: both are within their width by M1 on this prefix)
            if (pred in ("ult", "slt") and lo_ >= 0) or (pred in ("ule", "sle") and lo_ > 0) or \
                    (pred in ("ugt", "sgt") and hi_ <= 0) or (pred in ("uge", "sge") and hi_ < 0) or \
                    (pred == "eq" and (lo_ > 0 or hi_ < 0)) or (pred == "ne" and lo_ == hi_ == 0):
                return False
            continue
        if not (cc[0] == "icmp" and cc[3][0] == "c"):
            continue
        cst = cc[3][2]
        pred = cc[1] if taken else NEG[cc[1]]
        try:
            cur = it.ev(cc[2])
            lo_, hi_ = cur.lo, cur.hi
            if lemma:
                try:
                    bl, bh = it.bound(cur)
                    if 0 <= bl and bh <= P and it.congruent(cur.lin, {"s": A}):
                        lo_, hi_ = max(lo_, 1), min(hi_, P - 1)
                except Top:
                    pass
        except Top:
            lo_, hi_ = it.refine.get(cc[2], (0, 1 << 64))
        if pred in ("ugt", "sgt"):
            lo_ = max(lo_, cst + 1)
        elif pred in ("uge", "sge"):
            lo_ = max(lo_, cst)
        elif pred in ("ule", "sle"):
            hi_ = min(hi_, cst)
        elif pred in ("ult", "slt"):
            hi_ = min(hi_, cst - 1)
        elif pred == "eq":
            lo_, hi_ = max(lo_, cst), min(hi_, cst)
        if lo_ > hi_:
            return False
        it.refine[cc[2]] = (lo_, hi_)
        # a bound on (x >> k) is a bound on x
        inner = strip_casts(cc[2])
        if inner[0] == "b" and inner[1] == "lshr" and inner[4][0] == "c":
            k = inner[4][2]
            a0, b0 = it.refine.get(inner[3], (0, 1 << 64))
            it.refine[inner[3]] = (max(a0, lo_ << k), min(b0, ((hi_ + 1) << k) - 1 if hi_ < (1 << 40) else b0))
        for b_ in (lo_, hi_, lo_ << 17, ((hi_ + 1) << 17) - 1 if hi_ < (1 << 20) else 0):
            for d_ in (-2, -1, 0, 1, 2):
                if 1 <= b_ + d_ <= P - 1:
                    cands.add(b_ + d_)
    return True


def check_single_evaluation(chk, m):
    """rand31_r(<expression>) evaluates its argument exactly once, and reads and writes the state through that one value:
    a function does so by construction; a macro may not, and would then advance one generator from another's state."""
    fn = m.fn("w_once")
    try:
        ps = [p for p in paths.enumerate_paths(fn, m, loop_bound=2) if not paths.is_assert_fail_path(p)]
    except AnalysisError as e:
        chk.unknown("M5.single-evaluation", "rand31_r(cur())", str(e))
        return
    for p in ps:
        pid = "rand31_r(cur()) path " + "->".join(b.lstrip("%") for b in p.blocks)
        calls = [e for e in p.events if e.kind == "call" and not isinstance(e.callee, str)]
        # the generator's state cells: locals of the implementation (allocas) are not state
        cells = set(e.ptr for e in p.events if e.kind in ("load", "store") and ptr_parts(e.ptr)[0][0] not in ("alloca", "g"))
        ok = len(calls) == 1 and cells == {calls[0].res}
        chk.ob("M5.single-evaluation", pid, ok,
               "the argument expression is evaluated once and the state is read and written through that value" if ok else
               "the argument expression is evaluated %d times (state cells touched: %d): with rand31_r(next_generator()) the "
               "state is read from one generator and written to another" % (len(calls), len(cells)), p.ret_inst.loc, fn.name)
    chk.expect("M5", "paths of the single-evaluation witness", len(ps), 1)


_abort_paths = []


def run(chk):
    chk.level = "proof"
    chk.explanation = (
        "rand31_r's returned expression (from the LLVM IR, per path) is interpreted in an abstract domain of exact "
        "integer linear forms with intervals and quotient/remainder atoms. Obligations, each for ALL seeds 1..2^31-2 "
        "at once: no machine-width wrap in any intermediate; the result is congruent to 16807*seed modulo 2^31-1 "
        "(Gaussian elimination over Z_p on the atoms' defining relations); the result lies in [0, p] on every path, "
        "hence in [1, p-1] by the stated lemma; the stored state equals the returned value. No seed is enumerated.")
    chk.rule("M1", "every add/sub/mul/shl of the computation stays inside its machine width for all seeds in [1, p-1]")
    chk.rule("M2", "result == 16807 * seed (mod 2^31-1) as an identity of linear forms modulo the relations x = 2^k q + r")
    chk.rule("M3", "result in [0, p] on every path (branch conditions refine the interval); with M2 and the lemma, in [1, p-1]")
    chk.rule("M4", "the value stored to *seedp is the returned value; the state is loaded from *seedp")
    chk.rule("M7", "no valid state reaches an assertion failure inside the generator (each such path is infeasible over [1, p-1])")
    chk.assumptions += ["lemma: p = 2^31-1 is prime (re-checked arithmetically below) and does not divide 16807, hence "
                        "16807*s is not a multiple of p for 1 <= s < p",
                        "valid states only: seed in [1, 2^31-2] (the property's scope)"]
    chk.trusted_base += ["sa/rules/C17.py abstract transfer functions (Interval x linear form, quotient/remainder atoms)"]
    chk.ob("M3.lemma", "p prime", is_prime(P) and A % P != 0, "2^31-1 = %d is prime (trial division) and does not divide 16807" % P)
    # the generator as a caller sees it: whatever rand.h makes of the name rand31_r (a function of rand.c, a static inline
    # or a macro over helpers of rand.c), with every piece inlined into the witness
    m = build.api_view("c17_api.c", WITNESS, ["librfn/rand.c"], ["w_rand31_r", "w_once"])
    chk.note_unit(m)
    fn = m.fn("w_rand31_r")
    chk.note_fn(fn)
    check_single_evaluation(chk, m)
    from .purity import check_no_static_influence
    chk.rule("M5", "rand31_r(<expression>) evaluates its argument once and reads and writes the state through that one value (a macro may not)")
    chk.rule("M6", "the generator's only state is *seedp: no value read from a mutable static object reaches the new state or the result")
    check_no_static_influence(chk, "M6.stateless", m, fn, "the next state then depends on other generators' calls, not only on *seedp")
    dropped = []
    try:
        ps = paths.enumerate_paths(fn, m)
    except AnalysisError as e:
        if "loop" not in str(e):
            raise
        # a loop in the generator: unroll twice and discharge the truncation by showing that, for valid states, no path goes
        # round a third time
        ps = paths.enumerate_paths(fn, m, loop_bound=2, dropped=dropped)
    aborts = [p for p in ps if paths.is_assert_fail_path(p)]
    ps = [p for p in ps if not paths.is_assert_fail_path(p)]
    _abort_paths[:] = aborts
    for p in ps:
        # report at the library's own source line (the state update), not at the generated witness
        st = [e for e in p.events if e.kind == "store" and e.ptr == ("arg", 0)]
        p.where = st[-1].inst.loc if st else p.ret_inst.loc
    seed_exprs = set()
    for p in ps:
        for e in p.events:
            if e.kind == "store" and e.ptr == ("arg", 0):
                break                   # later loads see the new state (forwarded by the engine)
            if e.kind == "load" and e.ptr == ("arg", 0):
                seed_exprs.add(e.val)
    if len(seed_exprs) != 1:
        chk.unknown("M4.state", "rand31_r", "the state is not loaded from *seedp exactly as one value (%d)" % len(seed_exprs))
        return
    seed = list(seed_exprs)[0]
    failed = []
    extra_cands = set()
    for d in dropped:
        it = Interp(seed)
        try:
            feas = apply_conds(it, d, extra_cands)
        except Top as t:
            feas = True
        if feas:
            chk.unknown("M1.loop", "rand31_r", "a loop in the generator may run more than twice for a valid state (condition at %s); "
                        "the straight-line arithmetic rules do not cover it" % d.conds[-1][2].loc, d.conds[-1][2].loc)
            return
    if dropped:
        chk.ob("M1.loop", "rand31_r", True, "the loop(s) in the generator run at most twice for every valid state: all %d longer path "
               "prefixes are infeasible for seeds in [1, p-1]" % len(dropped), dropped[0].conds[-1][2].loc, fn.name)
    for p in ps:
        pid = "path " + "->".join(b.lstrip("%") for b in p.blocks)
        it = Interp(seed)
        try:
            if not apply_conds(it, p, extra_cands):
                continue                # no valid state takes this path
        except Top as t:
            failed.append((pid, "M1.no-wrap", str(t), p))
            continue
        try:
            v = it.ev(p.ret)
        except Top as t:
            failed.append((pid, "M1.no-wrap" if it.wraps else "M2.congruence", str(t), p))
            continue
        chk.ob("M1.no-wrap", pid, True, "all %d arithmetic nodes stay within their width; result range [%d, %d]" %
               (sum(1 for _ in paths.subexprs(p.ret)), v.lo, v.hi), p.where, fn.name)
        lo, hi = it.bound(v)
        ok_c = it.congruent(v.lin, {"s": A})
        if ok_c:
            chk.ob("M2.congruence", pid, True, "result == 16807*s (mod p) using %d quotient/remainder relations" % len(it.relations),
                   p.where, fn.name)
        else:
            failed.append((pid, "M2.congruence", "result is not congruent to 16807*s modulo p", p))
        if 0 <= lo and hi <= P:
            chk.ob("M3.range", pid, True, "result in [%d, %d] within [0, p]" % (lo, hi), p.where, fn.name)
        else:
            failed.append((pid, "M3.range", "result range [%d, %d] is not inside [0, %d]" % (lo, hi, P), p))
        st = [e for e in p.events if e.kind == "store" and e.ptr == ("arg", 0)]
        chk.ob("M4.state", pid, len(st) == 1 and st[0].val == p.ret,
               "the new state stored to *seedp is the returned value", (st[0].inst.loc if st else p.where), fn.name)
    # M7: the generator returns for every valid state - a path into __assert_fail (or abort) must be one no valid state takes
    inv = pow(A, P - 2, P)
    for p in _abort_paths:
        pid = "abort path " + "->".join(b.lstrip("%") for b in p.blocks)
        it = Interp(seed)
        cs = set()
        try:
            feas = apply_conds(it, p, cs, lemma=True)
        except Top:
            feas = True
        loc = p.conds[-1][2].loc if p.conds and p.conds[-1][2] is not None else fn.loc
        if not feas:
            chk.ob("M7.no-abort", pid, True, "no state in [1, p-1] reaches this assertion failure (interval refinement of its conditions; values congruent to 16807*s within [0, p] are in [1, p-1] by the lemma)", loc, fn.name)
            continue
        cands = sorted(cs | extra_cands) + [(r * inv) % P for r in list(range(1, 3000)) + list(range(P - 3000, P))] + \
            [1, 2, 3, P - 1, P - 2, 65535, 65536, 0x7fff0000, 0x40000000]
        hit = None
        for s_ in cands:
            if not 1 <= s_ <= P - 1:
                continue
            env = {seed: s_}
            try:
                if all(paths.cond_holds(cd, env) for cd in p.conds):
                    hit = s_
                    break
            except NoValue:
                hit = None
                break
        if hit is not None:
            chk.ob("M7.no-abort", pid, False, "the valid state %d (next value %d) runs into an assertion failure at %s: rand31_r does not "
                   "return for it" % (hit, (A * hit) % P, loc), loc, fn.name)
        else:
            chk.unknown("M7.no-abort", pid, "an assertion inside the generator is not shown unreachable for valid states (no witness "
                        "among the boundary residues either)", loc)
    if not _abort_paths:
        chk.ob("M7.no-abort", "rand31_r", True, "the generator has no path into __assert_fail / abort", fn.loc, fn.name)
    if failed:
        for p_ in ps:
            for c_, t_, i_ in p_.conds:
                for x in paths.subexprs(c_):
                    if x[0] == "c" and 0 < x[2] < P:
                        for sh in (0, 15, 16, 17):
                            for d_ in (-2, -1, 0, 1, 2):
                                v_ = (x[2] << sh) + d_
                                if 1 <= v_ <= P - 1:
                                    extra_cands.add(v_)
                                v_ = ((x[2] + 1) << sh) + d_
                                if 1 <= v_ <= P - 1:
                                    extra_cands.add(v_)
        w = witness_search(ps, seed, extra=sorted(extra_cands))
        for pid, rule, why, p in failed:
            if w is not None:
                s, got, want = w
                chk.ob(rule, pid, False, "%s; witness: seed %d returns %d, Park-Miller gives %d" % (why, s, got, want),
                       p.where, fn.name)
            else:
                chk.unknown(rule, pid, why + " (no witness found among boundary residues)", p.where)
    chk.expect("M2", "paths of rand31_r", len(ps), 1)
