"""Shared recognisers for the fibre scheduler (C01, C02, C03, C06)."""
from .. import build, flow, paths
from ..ir import AnalysisError
from ..paths import fmt, ptr_parts, strip_casts

UNIT = "librfn/fibre.c"
LIST_API = ("list_insert", "list_insert_sorted", "list_push", "list_extract", "list_iterate", "list_iterator_next",
            "list_iterator_insert", "list_iterator_remove", "list_contains", "list_remove", "list_empty", "list_peek")
# effects of calls the path engine may assume (they do not write the objects whose fields the rules read)
EFFECTS = {"list_empty": [], "list_peek": [], "messageq_empty": [], "cyclecmp32": [], "list_contains": [(2, None)],
           "add_taint": []}


class Kernel:
    def __init__(self, m):
        self.m = m
        g = m.globals.get("kernel")
        if not g or not g.get("di_ty"):
            raise AnalysisError("anchor vanished: static kernel object in fibre.c")
        self.members = {mm["name"]: (mm["offset"], m.ditypes[m.di_strip(mm["base"])]["size"]) for mm in m.di_members(g["di_ty"])}
        for k in ("current", "state", "now", "runq", "atomic_runq", "timerq"):
            if k not in self.members:
                raise AnalysisError("anchor vanished: kernel.%s" % k)
        tid = m.di_by_name.get("fibre_t") or m.di_by_name.get("fibre")
        if not tid:
            raise AnalysisError("anchor vanished: fibre_t")
        self.fibre = {p: (o, s) for p, o, s, t in m.di_leaves(tid)}
        for k in ("fn", "priv", "duetime", "link.next", "state"):
            if k not in self.fibre:
                raise AnalysisError("anchor vanished: fibre_t.%s" % k)
        self.link_off = self.fibre["link.next"][0]
        self.enums = m.enum_values()

    def member_of(self, ptr):
        """kernel member addressed by a pointer expression rooted at @kernel."""
        root, off, var = ptr_parts(ptr)
        if root != ("g", "kernel") or var:
            return None
        for name, (o, s) in self.members.items():
            if o <= off < o + max(s, 1):
                return name, off - o
        return None

    def kptr(self, name, sub=0):
        return paths.mkptr(("g", "kernel"), self.members[name][0] + sub)

    def queue_arg(self, e):
        """'runq' / 'timerq' / 'atomic_runq' if e is the address of that kernel member."""
        mo = self.member_of(e)
        if mo and mo[1] == 0 and mo[0] in ("runq", "timerq", "atomic_runq"):
            return mo[0]
        return None


def load():
    m = build.load_unit(UNIT)
    K = Kernel(m)
    check_no_queue_surgery(m, K)
    return m, K


def check_no_queue_surgery(m, K):
    """Representation anchor of the scheduler rules: fibre.c changes its run queue and timer queue through the list operations only
    (the rules are who-may-call / ordering rules over those calls).  A function that stores to kernel.runq / kernel.timerq members or
    to a node's next pointer itself (an open-coded splice) may be perfectly right, but which fibres it moves is then not something
    these rules can read: the verdict is 'inconclusive', not a violation."""
    from .. import flow
    for fn in m.defined_functions():
        if fn.name in LINK_WRITERS_EXEMPT:
            continue
        for i in fn.insts():
            if i.op == "store":
                ptr, size = i.ops[1], i["size"]
            elif i.op == "call" and isinstance(i.callee, str) and i.callee.startswith(("llvm.memcpy", "llvm.memmove", "llvm.memset")):
                ptr, size = i.args[0], None
            else:
                continue
            try:
                pp = flow.resolve_ptr(ptr, m)
            except AnalysisError:
                continue
            what = None
            if pp.root.k == "global" and pp.root.name == "kernel" and not pp.var:
                for q in ("runq", "timerq"):
                    o, sz = K.members[q]
                    if o <= pp.off < o + sz:
                        what = "kernel.%s" % q
            elif i.op == "store" and (ptr.ty or "") in ("%struct.list_node**", "%struct.list_node_t**") and i.ops[0].ty in ("%struct.list_node*", "%struct.list_node_t*"):
                # a store of a node pointer through a pointer into a node or a list head: node->next = ... / list->head = ...
                v = ptr
                owner = None
                for _ in range(8):
                    if v.k == "inst" and v.inst is not None and v.inst.op in ("getelementptr", "bitcast"):
                        v = v.inst.ops[0]
                        if (v.ty or "") in ("%struct.list_node*", "%struct.list_node_t*", "%struct.fibre*", "%struct.list_t*"):
                            owner = v.ty
                            break
                    else:
                        break
                if owner and pp.root.k != "alloca" and not (pp.root.k == "inst" and pp.root.inst is not None and pp.root.inst.op == "alloca"):
                    what = "a queue link (%s)" % owner.rstrip("*")
            if what:
                raise AnalysisError("anchor vanished: %s writes %s directly at %s (open-coded queue manipulation): the scheduler rules read "
                                    "the queues' contents from the list operations called on them and have no model of a hand-written "
                                    "splice" % (fn.name, what, i.loc))


def calls_on(p):
    return [(k, e) for k, e in enumerate(p.events) if e.kind == "call"]


def callee_name(e):
    return e.callee if isinstance(e.callee, str) else "<indirect>"


def fn_paths(m, name, loop_bound=1):
    fn = m.fn(name)
    return fn, [p for p in paths.enumerate_paths(fn, m, loop_bound=loop_bound, call_effects=EFFECTS)
                if not paths.is_assert_fail_path(p)]


def fn_segments(m, name):
    fn = m.fn(name)
    segs = [(s, p) for s, p in paths.enumerate_segments(fn, m, call_effects=EFFECTS) if p.end != "unreachable"]
    _rematerialise_cached_now(m, fn, segs)
    return fn, segs


def _rematerialise_cached_now(m, fn, segs):
    """`uint32_t now = kernel.now;` before a loop: inside the loop's segments the local is a symbol.  kernel.now is written by
    fibre_scheduler_next alone (checked here: no store to it in this function, and this function makes no indirect call, so no
    fibre body - which could re-enter the scheduler - runs underneath it): the cached copy IS kernel.now for the whole function,
    and is put back as the load so that the time rules read it as such."""
    from .. import flow
    try:
        K = Kernel(m)
    except AnalysisError:
        return
    nowp = K.kptr("now")
    off = K.members["now"][0]
    cached = set()
    for i in fn.insts():
        if i.op == "call" and i.callee is None:
            return
        if i.op == "store":
            try:
                pp = flow.resolve_ptr(i.ops[1], m)
                if pp.root.k == "global" and pp.root.name == "kernel" and not pp.var and pp.off == off:
                    return
            except AnalysisError:
                pass
    for i in fn.insts():
        if i.op == "load" and i.name:
            try:
                pp = flow.resolve_ptr(i.ops[0], m)
            except AnalysisError:
                continue
            if pp.root.k == "global" and pp.root.name == "kernel" and not pp.var and pp.off == off:
                cached.add(("sym", i.name))
    if not cached:
        return
    ld = ("ld", nowp, 4, (0, 0))

    def sub(e):
        if isinstance(e, tuple):
            if e in cached:
                return ld
            return tuple(sub(x) if isinstance(x, tuple) else x for x in e)
        return e
    for s_, p in segs:
        if not any(paths.contains(c, lambda x: x in cached) for c, t, i in p.conds):
            continue
        p.conds = [(sub(c), t, i) for c, t, i in p.conds]
        for e in p.events:
            for attr in ("ptr", "val", "res", "extra"):
                v = getattr(e, attr, None)
                if isinstance(v, tuple):
                    setattr(e, attr, sub(v))
            if getattr(e, "args", None):
                e.args = [sub(a) if isinstance(a, tuple) else a for a in e.args]


def cond_truth_of_call(p, callee, argpred=None):
    """For calls of `callee` on the path: (event index, result expr, truth value on this path or None)."""
    out = []
    for k, e in calls_on(p):
        if e.callee != callee:
            continue
        if argpred and not argpred(e.args):
            continue
        truth = None
        for c, taken, inst in p.conds:
            cc = strip_casts(c)
            if cc == e.res:
                truth = bool(taken)
            elif cc[0] == "icmp" and cc[1] in ("ne", "eq") and strip_casts(cc[2]) == e.res and cc[3][0] == "c" and cc[3][2] == 0:
                truth = (cc[1] == "ne") == bool(taken)
            elif cc[0] == "b" and cc[1] == "xor" and strip_casts(cc[3]) == e.res and cc[4][0] == "c" and cc[4][2] == 1:
                truth = not taken
        out.append((k, e, truth))
    return out


COUNTER_OK = {}      # kernel member name -> True once S12 has shown it equals the run queue's length


def validate_counters(chk, m, K):
    """A kernel member that the wake-up / fast-path decisions test against 0: is it the run queue's length (S12)?  Sets COUNTER_OK."""
    known = {"current", "state", "now", "runq", "atomic_runq", "timerq", "taint_flags"}
    tested = set()
    for fname in ("get_next_wakeup", "fibre_scheduler_next"):
        if m.has_fn(fname):
            try:
                ps_ = fn_paths(m, fname)[1]
            except AnalysisError:
                continue
            for p_ in ps_:
                for c_, t_, i_ in p_.conds:
                    for x in paths.subexprs(c_):
                        if x[0] == "ld" and x[1] is not None and K.member_of(x[1]) and K.member_of(x[1])[1] == 0:
                            tested.add(K.member_of(x[1])[0])
    for extra in [k for k in K.members if k not in known and k in tested]:
        if check_counter_tracks_runq(chk, m, K, extra) is True:
            COUNTER_OK[extra] = True
        else:
            COUNTER_OK.pop(extra, None)


def queue_empty_facts(p, K):
    """{'runq' | 'timerq' | 'atomic': (True = known empty | False = known non-empty, event index of the test)} on path p.
    Recognised tests: list_empty(q), messageq_empty(&atomic_runq), q.head == NULL, list_peek(q) == NULL."""
    class _Facts(dict):
        """(two tests of one queue with opposite answers and no queue operation in between: the path is infeasible)"""
        def __setitem__(self, q, v):
            if q in self and dict.__getitem__(self, q)[0] != v[0]:
                lo, hi = sorted((dict.__getitem__(self, q)[1], v[1]))
                if not any(e_.kind == "call" and not (isinstance(e_.callee, str) and (e_.callee in EFFECTS or e_.callee.startswith("llvm.")))
                           for e_ in p.events[lo + 1:hi]):
                    dict.__setitem__(self, "_infeasible", (True, hi))
            dict.__setitem__(self, q, v)
    facts = _Facts()
    for k, e, truth in cond_truth_of_call(p, "list_empty"):
        q = K.queue_arg(e.args[0])
        if q in ("runq", "timerq") and truth is not None:
            facts[q] = (truth, k)
    for k, e, truth in cond_truth_of_call(p, "messageq_empty"):
        if K.queue_arg(e.args[0]) == "atomic_runq" and truth is not None:
            facts["atomic"] = (truth, k)
    for n, (c, taken, inst) in enumerate(p.conds):
        cc = strip_casts(c)
        if cc[0] != "icmp" or cc[1] not in ("eq", "ne"):
            continue
        for a, b in ((cc[2], cc[3]), (cc[3], cc[2])):
            a = strip_casts(a)
            if b != ("null",):
                continue
            for q in ("runq", "timerq"):
                if a[0] == "ld" and a[1] == K.kptr(q):
                    facts[q] = ((cc[1] == "eq") == bool(taken), p.cond_pos[n] if n < len(p.cond_pos) else 0)
            if a[0] == "call" and a[1] == "list_peek" and K.queue_arg(a[2][0]) in ("runq", "timerq"):
                kk = [k for k, e in calls_on(p) if e.res == a]
                facts[K.queue_arg(a[2][0])] = ((cc[1] == "eq") == bool(taken), kk[0] if kk else 0)
    # (member == 0) for a kernel member that S12 has shown to be the run queue's length
    for n_, (c, taken, inst) in enumerate(p.conds):
        cc = strip_casts(c)
        if cc[0] == "icmp" and cc[1] in ("eq", "ne", "ugt", "ule", "ult", "uge") and "runq" not in facts:
            for a, b, sw in ((cc[2], cc[3], False), (cc[3], cc[2], True)):
                a, b = strip_casts(a), strip_casts(b)
                if b[0] == "c" and b[2] == 0 and a[0] == "ld" and K.member_of(a[1]) and COUNTER_OK.get(K.member_of(a[1])[0]):
                    pred = cc[1]
                    if sw:
                        pred = {"ugt": "ult", "ult": "ugt", "ule": "uge", "uge": "ule"}.get(pred, pred)
                    if pred in ("eq", "ule"):
                        empty = bool(taken)
                    elif pred in ("ne", "ugt"):
                        empty = not taken
                    else:
                        continue
                    facts["runq"] = (empty, p.cond_pos[n_] if n_ < len(p.cond_pos) else 0)
    return facts


def check_atomic_queue_geometry(chk, m, K, min_depth=8):
    """The static initialiser of kernel.atomic_runq, read from the IR of fibre.c (so whatever the initialiser macro of
    messageq.h and the arguments in fibre.c jointly produce): the pool is an array of this unit, every slot holds one
    fibre_t pointer, queue_len == num_free <= (bytes of the pool) / msg_len, that depth accepts the `min_depth` undrained
    requests of the property's scope and fits the 32 flag bits, and the queue starts empty."""
    g = m.globals.get("kernel")
    init = g.get("init") if g else None
    inst = "kernel.atomic_runq static initialiser"
    loc = "%s:%s" % (build.relpath(g.get("file", "")), g.get("line", "")) if g else ""
    mq = None
    if init and init.get("k") == "cagg":
        cands = [e for e in init["elems"] if e.get("k") == "cagg" and "messageq" in e.get("ty", "")]
        if len(cands) == 1:
            mq = cands[0]
    tid = m.di_by_name.get("messageq_t")
    if mq is None or not tid:
        chk.unknown("S10.atomic-queue-geometry", inst, "the initialiser of kernel.atomic_runq is not a constant messageq_t aggregate", loc)
        return
    names = [p for p, o, s, t in sorted(m.di_leaves(tid), key=lambda x: x[1])]
    if len(names) != len(mq["elems"]):
        chk.unknown("S10.atomic-queue-geometry", inst, "messageq_t has %d fields but the initialiser %d" % (len(names), len(mq["elems"])), loc)
        return
    f = dict(zip(names, mq["elems"]))
    base = f["basep"]
    while base.get("k") == "cexpr" and base.get("op") in ("bitcast", "getelementptr"):
        base = base["ops"][0]
    pool = m.globals.get(base.get("name")) if base.get("k") == "global" else None
    ival = lambda e: e.get("v") if e.get("k") == "int" else (0 if e.get("k") == "zero" else None)
    ml, ql, nf = ival(f["msg_len"]), ival(f["queue_len"]), ival(f["num_free"])
    if pool is None or None in (ml, ql, nf):
        chk.unknown("S10.atomic-queue-geometry", inst, "pool or geometry fields are not compile-time constants", loc)
        return
    B = pool["size"]
    ptr_size = K.fibre["fn"][1]
    ok = ml == ptr_size
    chk.ob("S10.atomic-queue-geometry", inst + " msg_len", ok,
           "every slot holds one fibre_t pointer: msg_len == %d (is %d)" % (ptr_size, ml), loc, "kernel")
    whole = B // ml if ml else 0
    ok = ql == nf and ql <= whole
    chk.ob("S10.atomic-queue-geometry", inst + " depth", ok,
           "queue_len == num_free == %d, within the %d slots of %s" % (ql, whole, pool["name"]) if ok else
           "queue_len = %d, num_free = %d, but the pool %s is %d bytes = %d slots of %d bytes: %s" %
           (ql, nf, pool["name"], B, whole, ml, "slots beyond the pool are handed out" if max(ql, nf) > whole else
            "only %d of the pool's slots are used" % min(ql, nf)), loc, "kernel")
    ok = min_depth <= ql <= 32 and nf >= min_depth
    chk.ob("S10.atomic-queue-geometry", inst + " capacity", ok,
           "the queue accepts the %d undrained fibre_run_atomic requests of the property's scope and its depth fits the 32 flag bits (depth %d)"
           % (min_depth, ql) if ok else
           ("the queue has %d slots but its flag word has 32 bits: `1 << slot` for slots 32 and above sets no (or another slot's) flag, so a "
            "request placed there is accepted by fibre_run_atomic and never received" % ql) if ql > 32 else
           "the queue has %d slot(s) (%d free): fibre_run_atomic refuses the %s undrained request although the property's scope allows %d, "
           "and the refused fibre is never dispatched" % (ql, nf, "2nd" if nf == 1 else "%dth" % (nf + 1), min_depth), loc, "kernel")
    z = [n for n in ("sendp", "full_flags", "receivep") if ival(f[n]) != 0]
    chk.ob("S10.atomic-queue-geometry", inst + " empty", not z, "sendp, full_flags and receivep start at 0" + (" (not: %s)" % ", ".join(z) if z else ""),
           loc, "kernel")


# ---------------------------------------------------------------------------------------------
# shadow state: a bit of fibre_t.state that caches "this fibre is on kernel.runq"
# ---------------------------------------------------------------------------------------------

_FLAG_VERDICT = {}


def _bit_behaviour(val, cell_ptr, mask):
    """How the masked bits of the stored value relate to the cell's old content: 'set' | 'clear' | 'keep' | None (depends on
    something else).  Decided by evaluating the expression with the old content (any load of the cell) and every other
    atom at all-zeros and all-ones: exact for expressions built from bitwise operators and constants, None otherwise."""
    res = {}
    for old in (0, 0xffffffff):
        for other in (0, 0xffffffff):
            def ev(e):
                k = e[0]
                if k == "c":
                    return e[2]
                if k == "ld":
                    return (old if e[1] == cell_ptr else other) & ((1 << (8 * e[2])) - 1)
                if k == "cast" and e[1] in ("zext", "trunc", "sext"):
                    v = ev(e[4])
                    if e[1] == "sext" and v >> (e[2] - 1) & 1:
                        v |= ((1 << e[3]) - 1) & ~((1 << e[2]) - 1)
                    return v & ((1 << e[3]) - 1)
                if k == "b" and e[1] in ("and", "or", "xor"):
                    a, b = ev(e[3]), ev(e[4])
                    return {"and": a & b, "or": a | b, "xor": a ^ b}[e[1]] & ((1 << e[2]) - 1)
                if k in ("call", "arg", "sym", "ald", "rmw"):
                    return other
                raise ValueError(k)
            try:
                res[(old, other)] = ev(val) & mask
            except (ValueError, IndexError, TypeError):
                return None
    vals = set(res.values())
    if vals == {mask}:
        return "set"
    if vals == {0}:
        return "clear"
    if all(res[(0, o)] == 0 and res[(0xffffffff, o)] == mask for o in (0, 0xffffffff)):
        return "keep"
    return None


def check_flag_tracks_runq(chk, m, K, mask):
    """S11: a bit of fibre_t.state is used as evidence that a fibre is (not) on the run queue.  That is sound exactly if the
    bit is set wherever a fibre is put on kernel.runq, cleared wherever one is taken off it, and preserved by every other
    store to fibre_t.state (the fibre's initialiser excepted: it stores a state with the bit clear for a fibre that is on
    no queue).  Checked on every loop-free segment of every function of fibre.c.  Returns True / False / None (undecided)."""
    key = (id(m), mask)
    if key in _FLAG_VERDICT:
        return _FLAG_VERDICT[key]
    st_off = K.fibre["state"][0]
    verdict = True
    n_sites = 0

    def cell_of(node):
        r, o, v = ptr_parts(node)
        return None if v else paths.mkptr(r, o - K.link_off + st_off)
    for fn in m.defined_functions():
        try:
            segs = [(s, p) for s, p in paths.enumerate_segments(fn, m, call_effects=EFFECTS) if p.end != "unreachable"]
        except AnalysisError:
            continue
        for s, p in segs:
            sid = "%s %s..%s [%s]" % (fn.name, s.lstrip("%"), p.end, "->".join(b.lstrip("%") for b in p.blocks[-2:]))
            ev = p.events
            stores = [(k, e) for k, e in enumerate(ev) if e.kind == "store" and e.size == K.fibre["state"][1]
                      and paths.field_of(e.ptr, fn, m)[1] in ("state",) and paths.field_of(e.ptr, fn, m)[0] in ("fibre", "fibre_t")]
            # stores through a pointer that is not rooted at an argument: recognise the cell by shape (link pointer - link_off + state_off)
            need = []       # (cell pointer, 'set' | 'clear', what, loc)
            for k, c in calls_on(p):
                if c.callee == "list_insert" and c.args and K.queue_arg(c.args[0]) == "runq":
                    need.append((cell_of(c.args[1]), "set", "list_insert(&kernel.runq, ..)", c.inst.loc))
                elif c.callee == "list_extract" and c.args and K.queue_arg(c.args[0]) == "runq":
                    isnull = None
                    for cd, t, i in p.conds:
                        cc = strip_casts(cd)
                        if cc[0] == "icmp" and cc[1] in ("eq", "ne") and {strip_casts(cc[2]), strip_casts(cc[3])} == {c.res, ("null",)}:
                            isnull = (cc[1] == "eq") == bool(t)
                    if isnull is not True:
                        need.append((cell_of(c.res), "clear", "list_extract(&kernel.runq)", c.inst.loc))
                elif c.callee == "list_remove" and c.args and K.queue_arg(c.args[0]) == "runq":
                    truth = [t for k2, e2, t in cond_truth_of_call(p, "list_remove") if e2 is c]
                    if not truth or truth[0] is not False:
                        need.append((cell_of(c.args[1]), "clear", "a successful list_remove(&kernel.runq, ..)", c.inst.loc))
                elif c.callee in ("list_push", "list_insert_sorted", "list_iterator_remove", "list_iterator_insert") and c.args and \
                        K.queue_arg(c.args[0]) == "runq":
                    chk.unknown("S11.flag-tracks-runq", sid, "%s on the run queue is not modelled by this rule" % c.callee, c.inst.loc)
                    verdict = None
            cells = {}
            for k, e in enumerate(ev):
                if e.kind == "store" and e.size == K.fibre["state"][1]:
                    cells.setdefault(e.ptr, []).append(e)
            for cell, want, what, loc in need:
                n_sites += 1
                hits = [_bit_behaviour(e.val, cell, mask) for e in cells.get(cell, [])] if cell is not None else []
                ok = want in hits and not [h for h in hits if h not in (want, "keep")]
                chk.ob("S11.flag-tracks-runq", "%s %s" % (sid, what), ok,
                       "the membership bit of the fibre's state is %s on the segment that performs %s" % ({"set": "set", "clear": "cleared"}[want], what)
                       if ok else
                       "%s is not accompanied by a store that %s the membership bit (%#x) of that fibre's state: from here on the bit says the "
                       "opposite of where the fibre is - a fibre taken off the run queue is never queued again (every later run request is "
                       "ignored), or one on it is linked in twice" % (what, {"set": "sets", "clear": "clears"}[want], mask), loc, fn.name)
                if not ok and verdict is not None:
                    verdict = False
            owned = set(c for c, w, wh, l in need)
            for cell, lst in cells.items():
                if cell in owned:
                    continue
                # is this a fibre_t.state cell at all?  (shape: some pointer + state_off of a fibre): by debug info where possible
                s_, f_ = paths.field_of(cell, fn, m)
                root = ptr_parts(cell)[0]
                is_state = (f_ == "state" and s_ in ("fibre", "fibre_t")) or (root[0] == "ld" and root[1] == K.kptr("current") and ptr_parts(cell)[1:] == (st_off, ()))
                if not is_state:
                    continue
                for e in lst:
                    n_sites += 1
                    b = _bit_behaviour(e.val, cell, mask)
                    ok = b == "keep" or (fn.name == "fibre_init" and b == "clear")
                    chk.ob("S11.flag-tracks-runq", "%s store to fibre state at %s" % (sid, e.inst.loc), ok,
                           "a store to the fibre's state that does not move it on or off the run queue keeps the membership bit"
                           + (" (initialiser: the bit starts clear)" if fn.name == "fibre_init" else "") if ok else
                           "this store to the fibre's state %s the membership bit (%#x) although the fibre is not moved on or off the run queue here"
                           % ({"set": "sets", "clear": "clears", None: "may change"}[b], mask), e.inst.loc, fn.name)
                    if not ok and verdict is not None:
                        verdict = False
    chk.expect("S11", "membership-bit obligations", n_sites, 3)
    _FLAG_VERDICT[key] = verdict
    return verdict


_COUNTER_VERDICT = {}


def check_counter_tracks_runq(chk, m, K, member):
    """S12: a member of the kernel object is used as "number of fibres on the run queue" (tested against 0 where the list API
    would test emptiness).  Sound exactly if, on every loop-free segment of every function of fibre.c and for every outcome of
    the list calls on it that the segment's own decisions allow, the net change of the counter equals the net change of
    the run queue's length (+1 per list_insert, -1 per list_extract that returned a node, -1 per list_remove that
    succeeded).  The outcomes the decisions leave open are enumerated (finitely many Boolean results).  -> True / False / None."""
    key = (id(m), member)
    if key in _COUNTER_VERDICT:
        return _COUNTER_VERDICT[key]
    cptr = K.kptr(member)
    verdict = True
    n = 0
    # a counter is something that is stepped: a member that is never assigned  its old value +/- a constant  (a time difference, a
    # cached pointer, a flag) is not a candidate, and this rule has nothing to say about it
    stepped = False
    allsegs = {}
    for fn in m.defined_functions():
        try:
            allsegs[fn.name] = [(s, p) for s, p in paths.enumerate_segments(fn, m, call_effects=EFFECTS) if p.end != "unreachable"]
        except AnalysisError:
            continue
        for s, p in allsegs[fn.name]:
            for e in p.events:
                if e.kind == "store" and e.ptr == cptr:
                    v = strip_casts(e.val)
                    if v[0] == "b" and v[1] in ("add", "sub") and v[4][0] == "c" and strip_casts(v[3])[0] == "ld" and strip_casts(v[3])[1] == cptr:
                        stepped = True
    if not stepped:
        _COUNTER_VERDICT[key] = None
        return None
    for fn in m.defined_functions():
        if fn.name not in allsegs:
            continue
        segs = allsegs[fn.name]
        for s, p in segs:
            ev = p.events
            cstores = [e for e in ev if e.kind == "store" and e.ptr == cptr]
            qcalls = [c for k, c in calls_on(p) if c.callee in ("list_insert", "list_extract", "list_remove", "list_push", "list_insert_sorted",
                                                                 "list_iterator_remove", "list_iterator_insert") and c.args
                      and (K.queue_arg(c.args[0]) == "runq")]
            if not cstores and not qcalls:
                continue
            sid = "%s %s..%s [%s]" % (fn.name, s.lstrip("%"), p.end, "->".join(b.lstrip("%") for b in p.blocks[-2:]))
            if any(c.callee not in ("list_insert", "list_extract", "list_remove") for c in qcalls):
                chk.unknown("S12.counter-tracks-runq", sid, "a run-queue operation this rule has no model of", qcalls[0].inst.loc)
                verdict = None
                continue
            # net change of the counter: last store must be (first load) + k
            dc = 0
            if cstores:
                v = strip_casts(cstores[-1].val)
                k_, base = 0, v
                while base[0] == "b" and base[1] in ("add", "sub") and base[4][0] == "c":
                    c_ = base[4][2]
                    bits = base[2]
                    if c_ >> (bits - 1):
                        c_ -= 1 << bits
                    k_ += c_ if base[1] == "add" else -c_
                    base = strip_casts(base[3])
                if not (base[0] == "ld" and base[1] == cptr):
                    if fn.name in ("fibre_scheduler_init",) or v[0] == "c":
                        continue
                    chk.unknown("S12.counter-tracks-runq", sid, "the counter is stored a value that is not its old value plus a constant", cstores[-1].inst.loc)
                    verdict = None
                    continue
                dc = k_
            # the results the decisions leave open
            free = []
            for c in qcalls:
                if c.callee in ("list_extract", "list_remove") and c.res not in free:
                    free.append(c.res)
            # other list_remove results mentioned by the decisions (the timer queue's) are free as well
            for cd, t, i in p.conds:
                for x in paths.subexprs(cd):
                    if x[0] == "call" and x[1] in ("list_remove", "list_extract", "list_contains") and x not in free:
                        free.append(x)
            bad = None
            undecided = False
            for bits in range(1 << len(free)):
                env = {x: (bits >> j) & 1 for j, x in enumerate(free)}
                feasible = True
                for cd, t, i in p.conds:
                    if not any(x in env for x in paths.subexprs(cd)):
                        continue
                    cc = strip_casts(cd)
                    if cc[0] == "icmp" and cc[1] in ("eq", "ne") and ("null",) in (strip_casts(cc[2]), strip_casts(cc[3])):
                        other = strip_casts(cc[2]) if strip_casts(cc[3]) == ("null",) else strip_casts(cc[3])
                        if other in env:
                            isnull = not env[other]
                            if ((cc[1] == "eq") == isnull) != bool(t):
                                feasible = False
                                break
                            continue
                    try:
                        if not paths.cond_holds((cd, t, i), env):
                            feasible = False
                            break
                    except paths.NoValue:
                        undecided = True
                if not feasible:
                    continue
                dq = 0
                for c in qcalls:
                    if c.callee == "list_insert":
                        dq += 1
                    elif env.get(c.res):
                        dq -= 1
                if dq != dc and bad is None:
                    bad = (dq, {fmt(x)[:40]: v for x, v in env.items()})
            n += 1
            if bad is not None and undecided:
                chk.unknown("S12.counter-tracks-runq", sid, "a decision on this segment mixes list results with other state", p.ret_inst.loc if p.ret_inst is not None else fn.loc)
                verdict = None
                continue
            chk.ob("S12.counter-tracks-runq", sid, bad is None,
                   "the counter changes by exactly the change of the run queue's length for every outcome of the list calls (%+d)" % dc if bad is None else
                   "the counter changes by %+d where the run queue's length changes by %+d (outcomes: %s): from here on kernel.%s is not the "
                   "number of runnable fibres, and `%s == 0` stops meaning 'run queue empty' - the scheduler sleeps with a fibre queued, "
                   "or spins with none" % (dc, bad[0], ", ".join("%s=%d" % kv for kv in sorted(bad[1].items())), member, member),
                   (cstores[-1].inst.loc if cstores else qcalls[0].inst.loc), fn.name)
            if bad is not None and verdict is not None:
                verdict = False
    chk.expect("S12", "segments that change the run queue or its counter", n, 2)
    _COUNTER_VERDICT[key] = verdict
    return verdict



def _value_queue(v, K):
    """kernel queue named by an IR operand (&kernel.runq ...), or None"""
    if v.k == "global" and v.name == "kernel":
        return K.queue_arg(("p", ("g", "kernel"), 0, ()))
    if v.k == "cexpr" and v.d.get("op") == "getelementptr":
        ops = v.cexpr_ops()
        if ops and ops[0].k == "global" and ops[0].name == "kernel" and "off" in v.d:
            return K.queue_arg(("p", ("g", "kernel"), v.d["off"], ()))
    if v.k == "cexpr" and v.d.get("op") == "bitcast":
        return _value_queue(v.cexpr_ops()[0], K)
    return None


def check_iterator_validity(chk, m, K, rule="T3.iterator-valid"):
    """list.h: an iterator stays usable only while the list is changed THROUGH it (list_iterator_remove / _insert).  In every
    function of the scheduler that walks a kernel queue with an iterator: no removal from that queue by another route
    (list_remove / list_extract, directly or inside a helper of this unit) may be followed by a further use of the iterator.
    A stale iterator ends the walk early or relinks through a node that has left the list."""
    removers = {}

    def helper_removes(name, depth=0):
        """queues a helper of this unit may remove from"""
        if name in removers:
            return removers[name]
        removers[name] = set()
        g = m.functions.get(name)
        if g is None or g.decl or depth > 3:
            return removers[name]
        out = set()
        for c in g.calls():
            if c.callee in ("list_remove", "list_extract") and c.args:
                q = _value_queue(c.args[0], K)
                if q:
                    out.add(q)
            elif isinstance(c.callee, str) and m.has_fn(c.callee):
                out |= helper_removes(c.callee, depth + 1)
        removers[name] = out
        return out
    n = 0
    for fn in m.defined_functions():
        its = [c for c in fn.calls("list_iterate") if len(c.args) == 2 and _value_queue(c.args[0], K)]
        for it in its:
            q = _value_queue(it.args[0], K)
            itv = it.args[1]
            if itv.k != "inst":
                continue
            n += 1
            uses = [c for c in fn.calls() if c.callee in ("list_iterator_next", "list_iterator_remove", "list_iterator_insert")
                    and c.args and c.args[0].k == "inst" and c.args[0].name == itv.name]
            mods = []
            for c in fn.calls():
                if c.callee in ("list_remove", "list_extract") and c.args and _value_queue(c.args[0], K) == q:
                    mods.append((c, c.callee))
                elif isinstance(c.callee, str) and m.has_fn(c.callee) and q in helper_removes(c.callee):
                    mods.append((c, "%s (which removes from kernel.%s)" % (c.callee, q)))
            bad = None
            for c, what in mods:
                for u in uses:
                    if fn.can_reach(c, u, avoid_insts=its):
                        bad = (c, what, u)
                        break
                if bad:
                    break
            chk.ob(rule, "%s iterator %s over kernel.%s" % (fn.name, itv.name, q), bad is None,
                   "while the iterator is in use the queue is changed only through it (%d other removal(s) in this function, none "
                   "followed by a use of the iterator)" % len(mods) if bad is None else
                   "%s at %s takes a node off kernel.%s behind the iterator's back and %s at %s uses the iterator afterwards: the "
                   "iterator's position may be the node that left the list, so the walk ends early (expired fibres stay on the timer "
                   "queue) or relinks through a dead node" % (bad[1], bad[0].loc, q, bad[2].callee, bad[2].loc),
                   (bad[0].loc if bad else it.loc), fn.name)
    return n



_CACHE_VERDICT = {}


def check_head_cache(chk, m, K, member, rule="T3.head-cache"):
    """A kernel member used as 'due time of the timer queue's head' (read where the documented code reads head->duetime).  Sound
    exactly if it is refreshed after everything that can change the head or its due time: on every loop-free segment of every
    function of fibre.c, after the LAST event that may change them - list_insert_sorted / list_remove / list_extract on the timer
    queue, list_iterator_remove (any iterator: the scheduler only iterates the timer queue), a store to a fibre's duetime, a call
    of a unit function that does one of these - there is, later on the same segment, a refresh: a store to the member of the
    due time loaded from the fibre containing list_peek(&kernel.timerq) (skipped only when that peek is NULL).  A segment that
    ends at a loop head with an unrefreshed change is accepted only if every continuation refreshes before it reads the member.
    -> True (validated) / False (a site leaves the cache stale; reported) / None."""
    key = (id(m), member)
    if key in _CACHE_VERDICT:
        return _CACHE_VERDICT[key]
    cptr = K.kptr(member)
    due_off = K.fibre["duetime"][0]
    changers = {}

    def fn_changes(name, depth=0):
        if name in changers:
            return changers[name]
        changers[name] = False
        g = m.functions.get(name)
        if g is None or g.decl or depth > 3:
            return False
        out = False
        for c in g.calls():
            if c.callee in ("list_insert_sorted", "list_remove", "list_extract") and c.args and _value_queue(c.args[0], K) == "timerq":
                out = True
            elif c.callee == "list_iterator_remove":
                out = True
            elif isinstance(c.callee, str) and m.has_fn(c.callee) and fn_changes(c.callee, depth + 1):
                out = True
        changers[name] = out
        return out

    def is_refresh(e):
        if e.kind != "store" or e.ptr != cptr:
            return False
        v = strip_casts(e.val)
        if v[0] != "ld":
            return False
        root, off, var = ptr_parts(v[1])
        r = strip_casts(root)
        return (not var and off in (due_off - K.link_off, due_off) and r[0] == "call" and r[1] == "list_peek" and
                r[2] and K.queue_arg(r[2][0]) == "timerq")
    verdict = True
    n = 0
    validated_callee = {}
    for fn in m.defined_functions():
        try:
            segs = [(s, p) for s, p in paths.enumerate_segments(fn, m, call_effects=EFFECTS) if p.end != "unreachable"]
        except AnalysisError:
            continue
        for s, p in segs:
            ev = p.events
            last_change = None
            for k, e in enumerate(ev):
                if e.kind == "call" and isinstance(e.callee, str):
                    if e.callee in ("list_insert_sorted", "list_remove", "list_extract") and e.args and K.queue_arg(e.args[0]) == "timerq":
                        last_change = (k, e)
                    elif e.callee == "list_iterator_remove":
                        last_change = (k, e)
                    elif m.has_fn(e.callee) and fn_changes(e.callee) and e.callee != fn.name:
                        # the callee is checked on its own segments: it returns with the cache fresh, or is reported there
                        pass
                elif e.kind == "store" and ptr_parts(e.ptr)[1] == due_off and not ptr_parts(e.ptr)[2] and ptr_parts(e.ptr)[0][0] in ("ld", "arg", "sym", "call"):
                    last_change = (k, e)
            if last_change is None:
                continue
            n += 1
            k0, e0 = last_change
            later = [k for k, e in enumerate(ev) if k > k0 and is_refresh(e)]
            empty_later = False
            for (c, taken, inst), pos in zip(p.conds, p.cond_pos):
                cc = strip_casts(c)
                if pos > k0 and cc[0] == "icmp" and ("null",) in (cc[2], cc[3]):
                    o = strip_casts(cc[2] if cc[3] == ("null",) else cc[3])
                    if o[0] == "call" and o[1] == "list_peek" and o[2] and K.queue_arg(o[2][0]) == "timerq" and (cc[1] == "eq") == bool(taken):
                        empty_later = True          # the queue is empty now: nothing to cache (readers test emptiness first)
            ok = bool(later) or empty_later
            sid = "%s %s..%s" % (fn.name, s.lstrip("%"), p.end)
            chk.ob(rule, sid, ok,
                   "kernel.%s is refreshed from the timer queue's head after the last change of the queue / a due time on this segment" % member
                   if ok else
                   "%s at %s changes the timer queue (or a queued fibre's due time) and kernel.%s is not refreshed afterwards: the next "
                   "pass compares a due time that is no longer the head's - a fibre is woken early, or the wake-up time returned is stale"
                   % (e0.callee if e0.kind == "call" else "a store to duetime", e0.inst.loc, member), e0.inst.loc, fn.name)
            if not ok:
                verdict = False
    if n == 0:
        verdict = None
    _CACHE_VERDICT[key] = verdict
    return verdict


# ---------------------------------------------------------------------------------------------
# queue links are written by the list operations only
# ---------------------------------------------------------------------------------------------

LINK_WRITERS_EXEMPT = {
    "fibre_init": "public initialiser: the caller hands in a descriptor that is on no queue (documented contract), it is not reachable "
                  "from the scheduler",
    "fibre_eventq_init": "initialises the descriptor embedded in a new event queue through fibre_init",
}


def check_link_ownership(chk, m, K, rule="S11.link-owned-by-list"):
    """A fibre is on the run queue, the timer queue or neither, and which one is recorded in link.next alone.  The running fibre
    can be on the run queue (it, another fibre or an interrupt's drained request made it runnable), so a write to its link member
    from scheduler code cuts the queue behind it: every fibre queued after it is lost without a trace.  Hence: outside the list
    operations (called with the node) and the exempt initialisers, no store / memset / memcpy in fibre.c covers the link member of
    a fibre_t."""
    from .. import flow
    lo, ln = K.fibre["link.next"]
    n_writes = 0
    exempt_seen = 0
    # a static helper all of whose callers are initialisers is part of the initialisers
    callers = {}
    for fn in m.defined_functions():
        for i in fn.insts():
            if i.op == "call" and isinstance(i.callee, str):
                callers.setdefault(i.callee, set()).add(fn.name)
    exempt = set(LINK_WRITERS_EXEMPT)
    changed = True
    while changed:
        changed = False
        for fn in m.defined_functions():
            if fn.name not in exempt and fn.internal and callers.get(fn.name) and callers[fn.name] <= exempt:
                exempt.add(fn.name)
                changed = True
    for fn in m.defined_functions():
        chk.note_fn(fn)
        for i in fn.insts():
            if i.op == "store":
                ptr, size = i.ops[1], i["size"]
            elif i.op == "call" and isinstance(i.callee, str) and (i.callee.startswith(("llvm.memset", "llvm.memcpy", "llvm.memmove"))
                                                                   or i.callee in ("memset", "memcpy", "memmove")):
                ptr = i.args[0]
                size = i.args[2].uval if i.args[2].is_const_int() else None
            elif i.op == "call" and isinstance(i.callee, str) and i.callee in exempt and fn.name not in exempt:
                chk.ob(rule, "%s %s" % (fn.name, i.loc), False,
                       "%s calls the initialiser %s on a fibre the scheduler already knows: it clears the whole descriptor, link "
                       "included, while the fibre can be on the run queue (made runnable by itself, another fibre or an interrupt "
                       "request) - every fibre queued behind it is cut off" % (fn.name, i.callee), i.loc, fn.name)
                continue
            else:
                continue
            try:
                pp = flow.resolve_ptr(ptr, m)
            except AnalysisError:
                continue
            # find a view of the pointer chain that is a fibre descriptor (or a list node embedded in one)
            bases = []
            v = ptr
            for _ in range(32):
                ty = v.ty or ""
                if ty in ("%struct.fibre*", "%struct.fibre_t*"):
                    try:
                        bases.append(("fibre", flow.resolve_ptr(v, m).off))
                    except AnalysisError:
                        pass
                elif ty in ("%struct.list_node*", "%struct.list_node_t*"):
                    try:
                        bases.append(("node", flow.resolve_ptr(v, m).off))
                    except AnalysisError:
                        pass
                if v.k == "inst" and v.inst is not None and v.inst.op in ("getelementptr", "bitcast"):
                    v = v.inst.ops[0]
                    continue
                break
            if not bases or pp.var:
                continue
            n_writes += 1
            hit = None
            for kind, boff in bases:
                rel = pp.off - boff + (lo if kind == "node" else 0)
                if size is None or (rel < lo + ln and lo < rel + size):
                    hit = (kind, rel)
            if hit is None:
                continue
            if fn.name in exempt:
                exempt_seen += 1
                continue
            chk.ob(rule, "%s %s" % (fn.name, i.loc), False,
                   "%s writes %s bytes at offset %d of a fibre descriptor, which covers its queue link (offset %d): a fibre can be on the run "
                   "queue while it runs or is being handled here (made runnable by itself, by another fibre or by an interrupt request), "
                   "and overwriting its link cuts off every fibre queued behind it; only the list operations may write a link"
                   % (i.callee if i.op == "call" else "a store", size if size is not None else "a variable number of", hit[1], lo),
                   i.loc, fn.name)
    chk.ob(rule, "fibre.c", True, "%d writes into fibre descriptors outside the initialisers examined: none covers link.next "
           "(initialisers writing it: %d, %s)" % (n_writes - exempt_seen, exempt_seen, ", ".join(sorted(LINK_WRITERS_EXEMPT))), "", "")
    chk.expect(rule.split(".")[0], "writes into fibre descriptors examined for link ownership", n_writes, 4)


# ---------------------------------------------------------------------------------------------
# every dispatching pass runs the expiry walk
# ---------------------------------------------------------------------------------------------

def must_call(m, fname, target, _seen=None):
    """Does every (non-assertion) path of `fname` call `target`, directly or through a unit function that always does?"""
    _seen = _seen or set()
    if fname in _seen or not m.has_fn(fname) or not m.fn(fname).blocks:
        return False
    _seen = _seen | {fname}
    fn = m.fn(fname)
    try:
        ps = [p for p in paths.enumerate_paths(fn, m, loop_bound=1, call_effects=EFFECTS) if not paths.is_assert_fail_path(p)]
    except AnalysisError:
        return False
    for p in ps:
        names = [callee_name(e) for k, e in calls_on(p)]
        if target in names:
            continue
        if any(n_ != target and m.has_fn(n_) and must_call(m, n_, target, _seen) for n_ in set(names)):
            continue
        return False
    return bool(ps)


def check_expiry_every_pass(chk, m, K, rule="T3.expiry-every-pass"):
    """A pass of fibre_scheduler_next that goes on to pop and dispatch has run the expiry walk (handle_timerq) - itself or through a
    callee that runs it on every path.  A pass that takes one expired fibre straight off the timer queue and leaves the others
    there lets later-queued fibres overtake timeouts that were already due ("becomes runnable in the first pass at or after d")."""
    fn, ps = fn_paths(m, "fibre_scheduler_next")
    n = 0
    for p in ps:
        names = [callee_name(e) for k, e in calls_on(p)]
        if "<indirect>" not in names or not any(n_ in ("get_next_task", "list_extract") for n_ in names):
            continue
        if _skips_expiry_legitimately(p, K, m):
            continue
        n += 1
        before = names[:names.index("<indirect>")]
        ok = "handle_timerq" in before or any(n_ != "handle_timerq" and m.has_fn(n_) and must_call(m, n_, "handle_timerq") for n_ in set(before))
        chk.ob(rule, "fibre_scheduler_next " + "->".join(b.lstrip("%") for b in p.blocks)[-90:], ok,
               "the expiry walk runs (directly or inside a callee, on every path of it) before the pass dispatches" if ok else
               "this pass can dispatch without having run the expiry walk: some path through %s reaches the dispatch with handle_timerq "
               "never called, so fibres whose timeouts have expired stay on the timer queue for this pass and are overtaken"
               % ", ".join(sorted(set(before) - {"<indirect>"})), p.ret_inst.loc, fn.name)
    chk.expect(rule.split(".")[0], "dispatching slow-path passes examined for the expiry walk", n, 1)


def _skips_expiry_legitimately(p, K, m):
    try:
        from . import C01
        return C01._no_time_has_passed(p, K, m)
    except Exception:
        return False
